// C20: every embedded constant and every table entry equals its mathematical
// definition, in every backend.  The space is finite and is enumerated
// completely in each configuration; the oracle is package refconst
// (math/big derivations of the published definitions).
//
// Every constant is read in all the forms the library stores or serves it in:
// raw limbs (value recomputed from the limbs by the harness and limbs checked
// against the documented input headroom), canonical bytes (ToBytes), packed
// table bytes, unpacked tables, the results of the Lookup() access paths
// (Go and assembly), and the vector (cached) tables generated at start-up
// when the AVX2 backend is active.
package main

import (
	"bytes"
	"fmt"
	"math/big"
	"reflect"
	"sync"

	"github.com/oasisprotocol/curve25519-voi/curve"
	"github.com/oasisprotocol/curve25519-voi/curve/scalar"
	"github.com/oasisprotocol/curve25519-voi/internal/elligator"
	"github.com/oasisprotocol/curve25519-voi/internal/field"
	"github.com/oasisprotocol/curve25519-voi/internal/lattice"
	"github.com/oasisprotocol/curve25519-voi/internal/verif/mc"
	"github.com/oasisprotocol/curve25519-voi/internal/verif/ref"
	"github.com/oasisprotocol/curve25519-voi/internal/verif/ref/refconst"
	"github.com/oasisprotocol/curve25519-voi/primitives/ed25519"
	"github.com/oasisprotocol/curve25519-voi/primitives/x25519"
)

const nl = field.VerifC04LimbCount

var (
	is64 = nl == 5
	P    = ref.P
	one  = big.NewInt(1)
)

// feInt recomputes the integer denoted by raw limbs (radix 2^51 or 2^25.5).
func feInt(l []uint64) *big.Int {
	v := new(big.Int)
	for i, x := range l {
		sh := uint(51 * i)
		if !is64 {
			sh = uint((51*i + 1) / 2)
		}
		v.Add(v, new(big.Int).Lsh(new(big.Int).SetUint64(x), sh))
	}
	return v
}

// headroom is the documented input bound of the backend's multiplication:
// field_u64.go "a[i], b[i] < 2^(51+b) ... we require b < 3";
// field_u32.go "x[i], y[i] < 2^(26+b) if i even, < 2^(25+b) if i odd ... b < 1.752".
func headroom(i int) uint64 {
	if is64 {
		return 1 << 54
	}
	if i&1 == 0 {
		return 225726412 // floor(2^27.75)
	}
	return 112863206 // floor(2^26.75)
}

// ---------------------------------------------------------------------------
// accessors are looked up by name (hooks/*/verif_export_c20*.go register themselves): an accessor that is not
// available against the tree under test (its hook file was dropped by the driver) caps the cases that need it;
// it never breaks the check and never hides the other sub-spaces.

var (
	capMu   sync.Mutex
	capSeen = map[string]bool{}
	theCtx  *mc.Ctx
)

func capOnce(what string) {
	capMu.Lock()
	defer capMu.Unlock()
	if !capSeen[what] {
		capSeen[what] = true
		theCtx.Cap(what)
	}
}

func missing(pkg, name string) {
	capOnce("accessor " + pkg + ":" + name + " is not available against this tree (its hook file no longer compiles and was dropped): the cases that read it are skipped")
}

// lazy caches one read of the library, performed inside the first case that needs it (so that a panic of the
// library while reading is attributed to a case and reported as a violation, not as a harness failure).
type lazy struct {
	once sync.Once
	v    interface{}
	f    func() interface{}
}

func (l *lazy) get() interface{} {
	l.once.Do(func() { l.v = l.f() })
	return l.v
}

type kase struct {
	class string
	nt    bool // non-trivial: the defining value is not 0, 1 or the neutral element
	f     func(w *mc.W)
}

type space struct {
	name  string
	cases []kase
}

func (s *space) add(class string, nt bool, f func(w *mc.W)) {
	s.cases = append(s.cases, kase{class, nt, f})
}

// run enumerates the space.  always: the space is part of the history that later sub-spaces observe (first pass and
// workload before the ".../after-use" re-verification), so it is re-executed (verdicts discarded) when a later case is
// replayed on its own.
func (s *space) run(c *mc.Ctx, always ...bool) {
	par := c.Par
	if len(always) > 0 && always[0] {
		par = c.ParAlways
	}
	par(s.name, len(s.cases), func(w *mc.W, i int) {
		k := s.cases[i]
		w.Eval(k.class, k.nt)
		k.f(w)
		if i%41 == 0 {
			w.Sample(map[string]interface{}{"sub": s.name, "index": i, "class": k.class})
		}
	})
}

func nontrivialFE(v *big.Int) bool { return v.Cmp(one) > 0 }

// checkFE compares one field element, in one named form, with its definition.
func checkFE(w *mc.W, name string, fe *field.Element, want *big.Int) bool {
	ok := true
	cas := map[string]string{"constant": name, "want": fmt.Sprintf("%x", want)}
	l := field.VerifC04Limbs(fe)
	got := new(big.Int).Mod(feInt(l), P)
	if got.Cmp(want) != 0 {
		ok = false
		w.Fail(name+"/value", fmt.Sprintf("%s: limbs %x denote %x, definition gives %x", name, l, got, want), cas)
	}
	var b [32]byte
	if err := fe.ToBytes(b[:]); err != nil || !bytes.Equal(b[:], ref.LE32(want)) {
		ok = false
		w.Fail(name+"/bytes", fmt.Sprintf("%s: ToBytes gives %x, definition gives %x", name, b, ref.LE32(want)), cas)
	}
	for i, x := range l {
		if x >= headroom(i) {
			ok = false
			w.Fail(name+"/headroom", fmt.Sprintf("%s: limb %d = %#x is outside the documented input headroom (< %#x)", name, i, x, headroom(i)), cas)
		}
	}
	return ok
}

// checkPoint compares a projective extended point (X:Y:Z:T) with an affine reference point.
func checkPoint(w *mc.W, name string, p *curve.EdwardsPoint, want ref.Point) bool {
	cas := map[string]string{"constant": name, "want_x": fmt.Sprintf("%x", want.X), "want_y": fmt.Sprintf("%x", want.Y)}
	if p == nil {
		w.Fail(name+"/missing", name+" is nil", cas)
		return false
	}
	ok := true
	var v [4]*big.Int
	xb, yb, zb, tb := curve.VerifCoords(p)
	for k, b := range [][32]byte{xb, yb, zb, tb} {
		v[k] = ref.FromLE(b[:])
		if v[k].Cmp(P) >= 0 {
			ok = false
			w.Fail(name+"/bytes", fmt.Sprintf("%s: coordinate %c encodes as %x >= p", name, "XYZT"[k], b), cas)
		}
	}
	if f, have := curve.VerifC20Reg["coordLimbs"].(func(*curve.EdwardsPoint) [4][]uint64); have {
		ls := f(p)
		for k := range ls {
			if lv := new(big.Int).Mod(feInt(ls[k]), P); lv.Cmp(v[k]) != 0 {
				ok = false
				w.Fail(name+"/bytes", fmt.Sprintf("%s: coordinate %c ToBytes %x disagrees with its limbs (%x)", name, "XYZT"[k], v[k], lv), cas)
				v[k] = lv
			}
			for i, x := range ls[k] {
				if x >= headroom(i) {
					ok = false
					w.Fail(name+"/headroom", fmt.Sprintf("%s: coordinate %c limb %d = %#x is outside the documented input headroom", name, "XYZT"[k], i, x), cas)
				}
			}
		}
	} else {
		missing("curve", "coordLimbs")
	}
	X, Y, Z, T := v[0], v[1], v[2], v[3]
	switch {
	case Z.Sign() == 0:
		ok = false
		w.Fail(name+"/value", name+": Z = 0", cas)
	case ref.FMul(want.X, Z).Cmp(X) != 0 || ref.FMul(want.Y, Z).Cmp(Y) != 0:
		ok = false
		w.Fail(name+"/value", fmt.Sprintf("%s: (X/Z, Y/Z) = (%x, %x), definition gives (%x, %x)", name, ref.FDiv(X, Z), ref.FDiv(Y, Z), want.X, want.Y), cas)
	case ref.FMul(T, Z).Cmp(ref.FMul(X, Y)) != 0:
		ok = false
		w.Fail(name+"/value", name+": T*Z != X*Y (extended coordinate inconsistent)", cas)
	}
	return ok
}

// checkNiels compares an affine Niels triple with the reference point (or its negation / the identity).
func checkNiels(w *mc.W, name string, a *curve.VerifAffineNiels, want ref.Point) bool {
	yp, ym, t2 := refconst.Niels(want)
	ok := checkFE(w, name+".y_plus_x", &a.YPlusX, yp)
	ok = checkFE(w, name+".y_minus_x", &a.YMinusX, ym) && ok
	ok = checkFE(w, name+".xy2d", &a.XY2d, t2) && ok
	return ok
}

func main() { mc.Main("C20", run) }

func run(c *mc.Ctx) {
	theCtx = c
	builders := []func(*mc.Ctx) *space{
		fieldConstants, pointConstants, basepointTables, oddTables, vectorTables, scalarConstants, latticeConstants, miscConstants,
	}
	sizes := map[string]int{}
	var first []*space
	for k, b := range builders {
		var s *space
		// building a space only reads reference values and the registries; still, nothing the tree under test does here
		// may end as a harness failure
		func() {
			defer func() {
				if r := recover(); r != nil {
					s = &space{name: fmt.Sprintf("setup-%d", k)}
					s.add("setup", true, func(w *mc.W) {
						w.Fail("panic/setup", fmt.Sprintf("the library panicked while its constants were being read: %v", r), nil)
					})
				}
			}()
			s = b(c)
		}()
		first = append(first, s)
	}
	// When a ".../after-use" case is replayed on its own, the history it observes (first pass + workload) is re-executed
	// with its verdicts discarded; when a first-pass case is replayed, nothing else runs.
	replayAfterUse := false
	for _, s := range first {
		if c.ReplayingSub(s.name + "/after-use") {
			replayAfterUse = true
		}
	}
	for _, s := range first {
		sizes[s.name] = len(s.cases)
		s.run(c, replayAfterUse)
	}
	if c.Rep.NViolations > 0 || (c.Replaying() && !replayAfterUse) {
		// a constant is already wrong: running the library on top of it proves nothing more (and a routine driven by a wrong
		// constant need not even terminate)
		c.Rep.Extra["workload"] = "skipped: the first pass already found violations (or a first-pass case is being replayed)"
		c.Rep.Extra["sub_space_sizes"] = sizes
		return
	}
	// State between calls (T2/T3): the constants are live, mutable objects.  After every lookup flavour has been used
	// with every index (negative ones included: conditional negation must happen on a copy) and after the public
	// routines that consume the tables have run, everything is read and compared once more.
	// The workload (workload.go): each step is one case, so a panic is attributed to it.
	func() {
		var use *space
		defer func() {
			if r := recover(); r != nil {
				use = &space{name: "workload"}
				use.add("workload", true, func(w *mc.W) {
					w.Fail("panic/workload-setup", fmt.Sprintf("the library panicked while the workload inputs were being prepared: %v", r), nil)
				})
				use.run(c)
			}
		}()
		use = workload(c)
		sizes[use.name] = len(use.cases)
		use.run(c, replayAfterUse)
	}()
	for _, b := range builders {
		var s *space
		func() {
			defer func() {
				if r := recover(); r != nil {
					s = &space{name: "setup"}
					s.add("setup", true, func(w *mc.W) {
						w.Fail("panic/setup", fmt.Sprintf("the library panicked while its constants were being read again: %v", r), nil)
					})
				}
			}()
			s = b(c)
		}()
		s.name += "/after-use"
		for k := range s.cases {
			s.cases[k].class += "/after-use"
		}
		sizes[s.name] = len(s.cases)
		s.run(c)
	}
	c.Rep.Extra["sub_space_sizes"] = sizes
	c.Rep.Extra["backend"] = map[string]interface{}{"field_limbs": nl, "vector_backend": curve.VerifSupportsVector()}
	if c.Rep.NViolations > 0 {
		return // the vacuity guards protect a "held" verdict only; a violation is reported as such
	}
	c.Require("field-constant", 20)
	c.Require("point-constant", 12)
	c.Require("basepoint-table-entry", 256)
	c.Require("basepoint-table-lookup", 32*17)
	c.Require("odd-table-entry", 128)
	c.Require("scalar-constant", 5)
	c.Require("lattice-constant", 2)
	c.Require("preset-flag", 20)
	if c.Config == "avx2" {
		if !curve.VerifSupportsVector() {
			c.Cap("avx2 configuration requested but the vector backend is not enabled on this CPU")
		} else {
			c.Require("vector-basepoint-table-entry", 256)
			c.Require("vector-odd-table-entry", 128)
		}
	}
}

// ---------------------------------------------------------------------------

// fieldSources lists where each named field constant is read from.
func fieldSources() []struct {
	pkg, name string
	get       func() (*field.Element, bool)
} {
	type src = struct {
		pkg, name string
		get       func() (*field.Element, bool)
	}
	fromReg := func(m map[string]interface{}, key string) func() (*field.Element, bool) {
		return func() (*field.Element, bool) {
			fe, ok := m["fe:"+key].(*field.Element)
			return fe, ok && fe != nil
		}
	}
	direct := func(fe *field.Element) func() (*field.Element, bool) {
		return func() (*field.Element, bool) { return fe, true }
	}
	out := []src{
		{"field", "field.One", direct(&field.One)},
		{"field", "field.MinusOne", direct(&field.MinusOne)},
		{"field", "field.Two", direct(&field.Two)},
		{"field", "field.SQRT_M1", direct(&field.SQRT_M1)},
	}
	if !is64 {
		// the 64-bit backend has no such constant (immediate in Mul121666, decided by C04)
		out = append(out, src{"field", "field.constAPLUS2_OVER_FOUR", fromReg(field.VerifC20Reg, "constAPLUS2_OVER_FOUR")})
	}
	for _, n := range []string{"constMINUS_ONE", "constEDWARDS_D", "constEDWARDS_D2", "constONE_MINUS_EDWARDS_D_SQUARED",
		"constEDWARDS_D_MINUS_ONE_SQUARED", "constSQRT_AD_MINUS_ONE", "constINVSQRT_A_MINUS_D"} {
		out = append(out, src{"curve", n, fromReg(curve.VerifC20Reg, n)})
	}
	for _, n := range []string{"constMONTGOMERY_A", "constMONTGOMERY_NEG_A", "constMONTGOMERY_A_SQUARED",
		"constMONTGOMERY_SQRT_NEG_A_PLUS_TWO", "constMONTGOMERY_U_FACTOR", "constMONTGOMERY_V_FACTOR", "constFieldZero"} {
		out = append(out, src{"elligator", n, fromReg(elligator.VerifC20Reg, n)})
	}
	return out
}

func fieldConstants(c *mc.Ctx) *space {
	s := &space{name: "field-constants"}
	def := refconst.Field()
	for _, sc := range fieldSources() {
		sc := sc
		want, ok := def[sc.name]
		if !ok {
			panic("harness: no definition for " + sc.name)
		}
		s.add("field-constant", nontrivialFE(want), func(w *mc.W) {
			fe, ok := sc.get()
			if !ok {
				missing(sc.pkg, sc.name)
				return
			}
			checkFE(w, sc.name, fe, want)
		})
	}
	// One()/MinusOne()/Zero() constructors (literal limbs per backend), into a receiver that held something else
	for _, k := range []struct {
		name string
		f    func(fe *field.Element) *field.Element
		want *big.Int
	}{
		{"Element.One()", (*field.Element).One, big.NewInt(1)},
		{"Element.MinusOne()", (*field.Element).MinusOne, ref.FNeg(one)},
		{"Element.Zero()", (*field.Element).Zero, big.NewInt(0)},
	} {
		k := k
		s.add("field-constant", nontrivialFE(k.want), func(w *mc.W) {
			fe := field.SQRT_M1
			checkFE(w, k.name, k.f(&fe), k.want)
		})
	}
	return s
}

func pointConstants(c *mc.Ctx) *space {
	s := &space{name: "point-constants"}
	B := ref.Base
	s.add("point-constant", true, func(w *mc.W) { checkPoint(w, "ED25519_BASEPOINT_POINT", curve.ED25519_BASEPOINT_POINT, B) })
	s.add("point-constant", true, func(w *mc.W) {
		if curve.ED25519_BASEPOINT_COMPRESSED == nil || !bytes.Equal(curve.ED25519_BASEPOINT_COMPRESSED[:], B.Encode()) {
			w.Fail("ED25519_BASEPOINT_COMPRESSED/value", fmt.Sprintf("%x != encoding of (x, 4/5) %x", curve.ED25519_BASEPOINT_COMPRESSED, B.Encode()), nil)
		}
	})
	s.add("point-constant", true, func(w *mc.W) {
		u := B.ToMontgomeryU() // (1+y)/(1-y) = 9
		if curve.X25519_BASEPOINT == nil || !bytes.Equal(curve.X25519_BASEPOINT[:], ref.LE32(u)) || u.Cmp(big.NewInt(9)) != 0 {
			w.Fail("X25519_BASEPOINT/value", fmt.Sprintf("%x != u(B) = %x", curve.X25519_BASEPOINT, ref.LE32(u)), nil)
		}
	})
	s.add("point-constant", true, func(w *mc.W) {
		if want := ref.RistrettoEncode(B); curve.RISTRETTO_BASEPOINT_COMPRESSED == nil || !bytes.Equal(curve.RISTRETTO_BASEPOINT_COMPRESSED[:], want) {
			w.Fail("RISTRETTO_BASEPOINT_COMPRESSED/value", fmt.Sprintf("%x != RFC 9496 encoding of B %x", curve.RISTRETTO_BASEPOINT_COMPRESSED, want), nil)
		}
	})
	s.add("point-constant", true, func(w *mc.W) {
		checkPoint(w, "RISTRETTO_BASEPOINT_POINT", curve.VerifEdwardsFromRistretto(curve.RISTRETTO_BASEPOINT_POINT), B)
	})
	tor := ref.Torsion()
	for i := 0; i < 8; i++ {
		i := i
		s.add("point-constant", i != 0, func(w *mc.W) {
			if i >= len(curve.EIGHT_TORSION) {
				w.Fail("EIGHT_TORSION/missing", fmt.Sprintf("EIGHT_TORSION has %d entries, entry %d is missing", len(curve.EIGHT_TORSION), i), nil)
				return
			}
			checkPoint(w, fmt.Sprintf("EIGHT_TORSION[%d]", i), curve.EIGHT_TORSION[i], tor[i])
		})
	}
	s.add("point-constant", true, func(w *mc.W) {
		f, ok := curve.VerifC20Reg["pt:constB_SHL_128"].(func() *curve.EdwardsPoint)
		if !ok {
			missing("curve", "constB_SHL_128")
			return
		}
		checkPoint(w, "constB_SHL_128", f(), refconst.BShl128())
	})
	// the base point as served by the tables
	s.add("point-constant", true, func(w *mc.W) {
		checkPoint(w, "ED25519_BASEPOINT_TABLE.Basepoint()", curve.ED25519_BASEPOINT_TABLE.Basepoint(), B)
	})
	s.add("point-constant", true, func(w *mc.W) {
		checkPoint(w, "RISTRETTO_BASEPOINT_TABLE.Basepoint()", curve.VerifEdwardsFromRistretto(curve.RISTRETTO_BASEPOINT_TABLE.Basepoint()), B)
	})
	return s
}

// lookupWant returns the reference point for Lookup(x) on a radix-16 table over base: [x]base (identity for 0).
func lookupWant(row [8]ref.Point, x int) ref.Point {
	switch {
	case x == 0:
		return ref.Identity()
	case x > 0:
		return row[x-1]
	}
	return row[-x-1].Neg()
}

// packedTable reads packed table `which` once; ok=false when the accessor is unavailable.
func packedTable(which int) *lazy {
	return &lazy{f: func() interface{} {
		f, ok := curve.VerifC20Reg[fmt.Sprintf("packed:%d", which)].(func() [][96]byte)
		if !ok {
			return nil
		}
		return f()
	}}
}

// liveTables names the two live fixed-base tables.
func liveTables() []struct {
	name string
	get  func() *curve.EdwardsBasepointTable
} {
	return []struct {
		name string
		get  func() *curve.EdwardsBasepointTable
	}{
		{"ED25519_BASEPOINT_TABLE", func() *curve.EdwardsBasepointTable { return curve.ED25519_BASEPOINT_TABLE }},
		{"RISTRETTO_BASEPOINT_TABLE.inner", func() *curve.EdwardsBasepointTable {
			f, ok := curve.VerifC20Reg["ristrettoTable"].(func() *curve.EdwardsBasepointTable)
			if !ok {
				missing("curve", "RISTRETTO_BASEPOINT_TABLE.inner")
				return nil
			}
			return f()
		}},
	}
}

// tableKind: "affine", "vector", "none", or "" when it cannot be determined (accessor unavailable).
func tableKind(tbl *curve.EdwardsBasepointTable) string {
	f, ok := curve.VerifC20Reg["tableKind"].(func(*curve.EdwardsBasepointTable) string)
	if !ok {
		missing("curve", "EdwardsBasepointTable.inner/innerVector")
		return ""
	}
	return f(tbl)
}

func basepointTables(c *mc.Ctx) *space {
	s := &space{name: "basepoint-table"}
	want := refconst.BasepointTable()
	// (1) packed bytes: 256 entries of 96 bytes (always present in the binary, in every configuration)
	packed := packedTable(0)
	for i := 0; i < 32; i++ {
		for j := 0; j < 8; j++ {
			i, j := i, j
			name := fmt.Sprintf("packedEdwardsBasepointTable[%d*8+%d]", i, j)
			s.add("basepoint-table-entry", true, func(w *mc.W) {
				t, _ := packed.get().([][96]byte)
				switch {
				case packed.get() == nil:
					missing("curve", "packedEdwardsBasepointTable")
				case i*8+j >= len(t):
					w.Fail(name+"/missing", fmt.Sprintf("packedEdwardsBasepointTable has %d entries: entry (%d, %d) is missing", len(t), i, j), nil)
				default:
					checkPacked(w, name, &t[i*8+j], want[i][j])
				}
			})
		}
	}
	s.add("basepoint-table-entry", false, func(w *mc.W) {
		if t, ok := packed.get().([][96]byte); ok && len(t) != 256 {
			w.Fail("packedEdwardsBasepointTable/length", fmt.Sprintf("packedEdwardsBasepointTable has %d entries, the table is defined with 32*8 = 256", len(t)), nil)
		}
	})
	// (2) the library's own unpacking, run afresh (the table of every non-vector configuration)
	unpacked := &lazy{f: func() interface{} {
		f, ok := curve.VerifC20Reg["unpackBasepointTable"].(func() [][]curve.VerifAffineNiels)
		if !ok {
			return nil
		}
		return f()
	}}
	entry := func(w *mc.W, name string, t [][]curve.VerifAffineNiels, i, j int) {
		if i >= len(t) || j >= len(t[i]) {
			w.Fail(name+"/missing", name+": the table has no such entry", nil)
			return
		}
		checkNiels(w, name, &t[i][j], want[i][j])
	}
	for i := 0; i < 32; i++ {
		for j := 0; j < 8; j++ {
			i, j := i, j
			s.add("basepoint-table-entry/unpacked", true, func(w *mc.W) {
				t, _ := unpacked.get().([][]curve.VerifAffineNiels)
				if unpacked.get() == nil {
					missing("curve", "unpackEdwardsBasepointTable")
					return
				}
				entry(w, fmt.Sprintf("unpackEdwardsBasepointTable()[%d][%d]", i, j), t, i, j)
			})
		}
	}
	// (3) the live tables: ED25519_BASEPOINT_TABLE and the copy inside RISTRETTO_BASEPOINT_TABLE.  Which form a live
	// table has is a property of the configuration: the affine (unpacked) table wherever the vector backend is not in use
	// - including the amd64 assembly build with AVX2 switched off - and the generated vector table otherwise.
	for _, t := range liveTables() {
		t := t
		tbl := t.get()
		kind := tableKind(tbl)
		c.Rep.Extra["live_table_form/"+t.name] = kind
		wantKind := "affine"
		if curve.VerifSupportsVector() {
			wantKind = "vector"
		}
		s.add("basepoint-table-form", true, func(w *mc.W) {
			switch {
			case kind == "":
			case kind == "none":
				// a table that is simply missing is a violation of the property (entry (i, j) is not [(j+1)*256^i]B), not a harness error
				w.Fail("basepoint-table/missing", t.name+" holds neither an affine nor a vector table in this configuration: all 256 entries are missing", nil)
			case kind != wantKind:
				w.Fail("basepoint-table/form", fmt.Sprintf("%s is in %s form although the vector backend is %v in this configuration: fixed-base multiplication would dereference a nil table", t.name, kind, curve.VerifSupportsVector()), nil)
			}
		})
		if kind != "affine" {
			continue // vector form: see vectorTables
		}
		live := &lazy{f: func() interface{} {
			f, ok := curve.VerifC20Reg["liveTable"].(func(*curve.EdwardsBasepointTable) [][]curve.VerifAffineNiels)
			if !ok {
				return nil
			}
			return f(tbl)
		}}
		for i := 0; i < 32; i++ {
			for j := 0; j < 8; j++ {
				i, j := i, j
				s.add("basepoint-table-entry/live", true, func(w *mc.W) {
					lt, _ := live.get().([][]curve.VerifAffineNiels)
					if live.get() == nil {
						missing("curve", "EdwardsBasepointTable.inner")
						return
					}
					entry(w, fmt.Sprintf("%s[%d][%d]", t.name, i, j), lt, i, j)
				})
			}
		}
		// every Lookup(x), x in [-8, 8], of every sub-table (Go or assembly lookup + conditional negation)
		for i := 0; i < 32; i++ {
			for x := -8; x <= 8; x++ {
				i, x := i, x
				name := fmt.Sprintf("%s[%d].Lookup(%d)", t.name, i, x)
				s.add("basepoint-table-lookup", x != 0, func(w *mc.W) {
					f, ok := curve.VerifC20Reg["affineLookup"].(func(*curve.EdwardsBasepointTable, int, int8) curve.VerifAffineNiels)
					if !ok {
						missing("curve", "affineNielsPointLookupTable.Lookup")
						return
					}
					a := f(tbl, i, int8(x))
					wp := lookupWant(want[i], x)
					if checkNiels(w, name, &a, wp) {
						if g, ok := curve.VerifC20Reg["affineNielsToEdwards"].(func(*curve.VerifAffineNiels) *curve.EdwardsPoint); ok {
							checkPoint(w, name+"->setAffineNiels", g(&a), wp)
						} else {
							missing("curve", "setAffineNiels")
						}
					}
				})
			}
		}
	}
	// lookups on the freshly unpacked table (covers the affine lookup path in the avx2 configuration too)
	for i := 0; i < 32; i++ {
		for x := -8; x <= 8; x++ {
			i, x := i, x
			name := fmt.Sprintf("unpackEdwardsBasepointTable()[%d].Lookup(%d)", i, x)
			s.add("basepoint-table-lookup", x != 0, func(w *mc.W) {
				f, ok := curve.VerifC20Reg["unpackedLookup"].(func(int, int8) curve.VerifAffineNiels)
				if !ok {
					missing("curve", "unpackEdwardsBasepointTable")
					return
				}
				a := f(i, int8(x))
				checkNiels(w, name, &a, lookupWant(want[i], x))
			})
		}
	}
	// third lookup flavour (projective Niels, built at run time): Lookup(x) of the table of B, x in [-8, 8]
	for x := -8; x <= 8; x++ {
		x := x
		s.add("projective-niels-lookup", x != 0, func(w *mc.W) {
			f, ok := curve.VerifC20Reg["projectiveNielsLookup"].(func(*curve.EdwardsPoint, int8) [4]field.Element)
			if !ok {
				missing("curve", "newProjectiveNielsPointLookupTable")
				return
			}
			e := f(curve.ED25519_BASEPOINT_POINT, int8(x))
			name := fmt.Sprintf("newProjectiveNielsPointLookupTable(B).Lookup(%d)", x)
			var v [4]*big.Int
			for k := range e {
				l := field.VerifC04Limbs(&e[k])
				v[k] = new(big.Int).Mod(feInt(l), P)
				for i, y := range l {
					if y >= headroom(i) {
						w.Fail(name+"/headroom", fmt.Sprintf("%s: component %d limb %d = %#x outside the documented input headroom", name, k, i, y), nil)
					}
				}
			}
			wp := lookupWant(want[0], x)
			yp, ym, z, t2d := v[0], v[1], v[2], v[3]
			z2 := ref.FAdd(z, z)
			switch {
			case z.Sign() == 0:
				w.Fail(name+"/value", name+": Z = 0", nil)
			case ref.FMul(wp.X, z2).Cmp(ref.FSub(yp, ym)) != 0 || ref.FMul(wp.Y, z2).Cmp(ref.FAdd(yp, ym)) != 0:
				w.Fail(name+"/value", fmt.Sprintf("%s does not denote [%d]B", name, x), nil)
			case ref.FMul(ref.FAdd(t2d, t2d), z).Cmp(ref.FMul(ref.D, ref.FSub(ref.FSq(yp), ref.FSq(ym)))) != 0:
				w.Fail(name+"/value", name+": T2d is not 2d*XY/Z", nil)
			}
		})
	}
	s.add("basepoint-table-lookup", false, func(w *mc.W) {
		f, ok := curve.VerifC20Reg["affineNielsIdentity"].(func() curve.VerifAffineNiels)
		if !ok {
			missing("curve", "affineNielsPoint.Identity")
			return
		}
		id := f()
		checkNiels(w, "affineNielsPoint.Identity()", &id, ref.Identity())
	})
	return s
}

// checkPacked: 96 packed bytes = little-endian (y+x, y-x, 2dxy), decoded exactly as the library's SetRaw/SetBytes
// decodes them (bit 255 ignored, value taken mod p).  The comparison is by value; a non-canonical byte string
// that still denotes the right element is only counted (class "packed-entry/noncanonical-bytes"), because it
// would unpack to the defined value.
func checkPacked(w *mc.W, name string, raw *[96]byte, want ref.Point) {
	yp, ym, t2 := refconst.Niels(want)
	for k, v := range []*big.Int{yp, ym, t2} {
		part := []string{"y_plus_x", "y_minus_x", "xy2d"}[k]
		got := raw[32*k : 32*k+32]
		if bytes.Equal(got, ref.LE32(v)) {
			continue
		}
		m := append([]byte{}, got...)
		m[31] &= 0x7f
		if new(big.Int).Mod(ref.FromLE(m), P).Cmp(v) == 0 {
			w.Eval("packed-entry/noncanonical-bytes", true)
			continue
		}
		w.Fail(name+"/value", fmt.Sprintf("%s.%s = %x, definition gives %x", name, part, got, ref.LE32(v)), map[string]string{"entry": name})
	}
}

func oddTables(c *mc.Ctx) *space {
	s := &space{name: "odd-multiple-tables"}
	for _, which := range []int{1, 2} {
		which := which // per-iteration copy (the module's language version predates Go 1.22 loop variables)
		base := map[int]ref.Point{1: ref.Base, 2: refconst.BShl128()}[which]
		tn := map[int]string{1: "constAFFINE_ODD_MULTIPLES_OF_BASEPOINT", 2: "constAFFINE_ODD_MULTIPLES_OF_B_SHL_128"}[which]
		pn := map[int]string{1: "packedAffineOddMultiplesOfBasepoint", 2: "packedAffineOddMultiplesOfBShl128"}[which]
		want := refconst.OddMultiples(base)
		packed := packedTable(which)
		live := &lazy{f: func() interface{} {
			f, ok := curve.VerifC20Reg["affineOdd"].(func(int) []curve.VerifAffineNiels)
			if !ok {
				return nil
			}
			return f(which)
		}}
		for j := 0; j < 64; j++ {
			j := j
			s.add("odd-table-entry", true, func(w *mc.W) {
				t, _ := packed.get().([][96]byte)
				name := fmt.Sprintf("%s[%d]", pn, j)
				switch {
				case packed.get() == nil:
					missing("curve", pn)
				case j >= len(t):
					w.Fail(name+"/missing", fmt.Sprintf("%s has %d entries: entry %d is missing", pn, len(t), j), nil)
				default:
					checkPacked(w, name, &t[j], want[j])
				}
			})
			s.add("odd-table-entry/live", true, func(w *mc.W) {
				t, _ := live.get().([]curve.VerifAffineNiels)
				name := fmt.Sprintf("%s[%d]", tn, j)
				switch {
				case live.get() == nil:
					missing("curve", tn)
				case j >= len(t):
					w.Fail(name+"/missing", fmt.Sprintf("%s has %d entries: entry %d is missing", tn, len(t), j), nil)
				default:
					checkNiels(w, name, &t[j], want[j])
				}
			})
			s.add("odd-table-lookup", true, func(w *mc.W) {
				f, ok := curve.VerifC20Reg["affineOddLookup"].(func(int, uint8) curve.VerifAffineNiels)
				if !ok {
					missing("curve", tn+".Lookup")
					return
				}
				a := f(which, uint8(2*j+1))
				checkNiels(w, fmt.Sprintf("%s.Lookup(%d)", tn, 2*j+1), &a, want[j])
			})
		}
		s.add("odd-table-entry", false, func(w *mc.W) {
			if t, ok := packed.get().([][96]byte); ok && len(t) != 64 {
				w.Fail(pn+"/length", fmt.Sprintf("%s has %d entries, the table is defined with 64", pn, len(t)), nil)
			}
		})
	}
	return s
}

func scalarConstants(c *mc.Ctx) *space {
	s := &space{name: "scalar-constants"}
	// limb layout of the active backend: 5 x 52 bits with the 64-bit field backend, 9 x 29 bits with the 32-bit one
	width, n := uint(52), 5
	if f, ok := scalar.VerifC20Reg["constL"].(func() []uint64); ok {
		if l := f(); len(l) == 9 { // the scalar backend's own limb count decides, not the configuration name
			width, n = 29, 9
		}
	} else if !is64 {
		width, n = 29, 9
	}
	wr, wrr, wlf := refconst.ScalarMontgomery(width, n)
	c.Rep.Extra["scalar_backend"] = map[string]interface{}{"limb_bits": width, "limbs": n}
	chk := func(name string, want *big.Int) {
		s.add("scalar-constant", true, func(w *mc.W) {
			f, ok := scalar.VerifC20Reg[name].(func() []uint64)
			if !ok {
				missing("scalar", name)
				return
			}
			got := f()
			cas := map[string]string{"constant": name}
			if len(got) != n {
				w.Fail(name+"/value", fmt.Sprintf("%s has %d limbs, the %d-bit backend is defined with %d", name, len(got), width, n), cas)
				return
			}
			if v := refconst.FromLimbs(got, width); v.Cmp(want) != 0 {
				w.Fail(name+"/value", fmt.Sprintf("%s: limbs %x denote %x, definition gives %x", name, got, v, want), cas)
			}
			for i, x := range got {
				if x>>width != 0 {
					w.Fail(name+"/headroom", fmt.Sprintf("%s: limb %d = %#x exceeds %d bits", name, i, x, width), cas)
				}
			}
		})
	}
	chk("constL", ref.L)
	chk("constR", wr)   // 2^(width*n) mod L
	chk("constRR", wrr) // R^2 mod L
	s.add("scalar-constant", true, func(w *mc.W) {
		f, ok := scalar.VerifC20Reg["constLFACTOR"].(func() uint64)
		if !ok {
			missing("scalar", "constLFACTOR")
			return
		}
		lf := f()
		// L * LFACTOR = -1 (mod 2^width), LFACTOR < 2^width: unique, so equality with the reference value is the definition
		if new(big.Int).SetUint64(lf).Cmp(wlf) != 0 {
			x := new(big.Int).Mul(ref.L, new(big.Int).SetUint64(lf))
			x.Mod(x, new(big.Int).Lsh(one, width))
			w.Fail("constLFACTOR/value", fmt.Sprintf("constLFACTOR = %#x: L*LFACTOR mod 2^%d = %x, want 2^%d-1 (LFACTOR must be %x)", lf, width, x, width, wlf), nil)
		}
	})
	s.add("scalar-constant", true, func(w *mc.W) {
		var b [32]byte
		if scalar.BASEPOINT_ORDER == nil {
			w.Fail("BASEPOINT_ORDER/missing", "BASEPOINT_ORDER is nil", nil)
			return
		}
		if err := scalar.BASEPOINT_ORDER.ToBytes(b[:]); err != nil || !bytes.Equal(b[:], ref.LE32(ref.L)) {
			w.Fail("BASEPOINT_ORDER/value", fmt.Sprintf("BASEPOINT_ORDER = %x, want L = %x", b, ref.LE32(ref.L)), nil)
		}
	})
	s.add("scalar-constant", true, func(w *mc.W) {
		f, ok := scalar.VerifC20Reg["order"].(func() []uint64)
		if !ok {
			missing("scalar", "order")
			return
		}
		if v := refconst.FromLimbs(f(), 64); v.Cmp(ref.L) != 0 {
			w.Fail("scalar.order/value", fmt.Sprintf("order = %x, want L", v), nil)
		}
	})
	return s
}

func latticeConstants(c *mc.Ctx) *space {
	s := &space{name: "lattice-constants"}
	s.add("lattice-constant", true, func(w *mc.W) {
		f, ok := lattice.VerifC20Reg["constELL_LOWER_HALF"].(func() (int64, uint64))
		if !ok {
			missing("lattice", "constELL_LOWER_HALF")
			return
		}
		hi, lo := f()
		v := new(big.Int).Lsh(big.NewInt(hi), 64)
		v.Add(v, new(big.Int).SetUint64(lo))
		if v.Cmp(refconst.EllLowerHalf()) != 0 {
			w.Fail("constELL_LOWER_HALF/value", fmt.Sprintf("constELL_LOWER_HALF = %x, want L mod 2^128 = %x", v, refconst.EllLowerHalf()), nil)
		}
	})
	s.add("lattice-constant", true, func(w *mc.W) {
		f, ok := lattice.VerifC20Reg["ellSquared"].(func() []uint64)
		if !ok {
			missing("lattice", "ellSquared")
			return
		}
		if v := refconst.FromLimbs(f(), 64); v.Cmp(refconst.EllSquared()) != 0 {
			w.Fail("ellSquared/value", fmt.Sprintf("ellSquared() = %x, want L^2 = %x", v, refconst.EllSquared()), nil)
		}
	})
	s.add("lattice-constant", false, func(w *mc.W) {
		f, ok := lattice.VerifC20Reg["small"].(func() ([]uint64, int64, uint64, int64, uint64))
		if !ok {
			missing("lattice", "i512One/i128Zero/i128One")
			return
		}
		o, zh, zl, oh, ol := f()
		if refconst.FromLimbs(o, 64).Cmp(one) != 0 || zh != 0 || zl != 0 || oh != 0 || ol != 1 {
			w.Fail("lattice.small/value", "i512One / i128Zero / i128One are not 1 / 0 / 1", nil)
		}
	})
	return s
}

func miscConstants(c *mc.Ctx) *space {
	s := &space{name: "misc-constants"}
	s.add("misc-constant", true, func(w *mc.W) {
		if len(x25519.Basepoint) != 32 || !bytes.Equal(x25519.Basepoint, ref.LE32(big.NewInt(9))) {
			w.Fail("x25519.Basepoint/value", fmt.Sprintf("x25519.Basepoint = %x, want u = 9", x25519.Basepoint), nil)
		}
	})
	wantNC := refconst.NoncanonicalSignBits()
	ncs := &lazy{f: func() interface{} {
		f, ok := curve.VerifC20Reg["noncanonicalSignBits"].(func() [][32]byte)
		if !ok {
			return nil
		}
		return f()
	}}
	for i := 0; i <= len(wantNC); i++ {
		i := i
		s.add("misc-constant", true, func(w *mc.W) {
			nc, _ := ncs.get().([][32]byte)
			switch {
			case ncs.get() == nil:
				missing("curve", "noncanonicalSignBits")
			case i == len(wantNC):
				if len(nc) != len(wantNC) {
					w.Fail("noncanonicalSignBits/length", fmt.Sprintf("noncanonicalSignBits has %d entries, exactly %d encodings have x = 0 with the sign bit set", len(nc), len(wantNC)), nil)
				}
			case i >= len(nc):
				w.Fail("noncanonicalSignBits/missing", fmt.Sprintf("noncanonicalSignBits lacks entry %d (%x)", i, wantNC[i]), nil)
			case !bytes.Equal(nc[i][:], wantNC[i]):
				w.Fail("noncanonicalSignBits/value", fmt.Sprintf("noncanonicalSignBits[%d] = %x, want %x (x = 0 with the sign bit set)", i, nc[i], wantNC[i]), nil)
			}
		})
	}
	// Ed25519 verification presets, flag by flag, against the documented semantics
	presets := map[string]*ed25519.VerifyOptions{
		"VerifyOptionsDefault":    ed25519.VerifyOptionsDefault,
		"VerifyOptionsStdLib":     ed25519.VerifyOptionsStdLib,
		"VerifyOptionsFIPS_186_5": ed25519.VerifyOptionsFIPS_186_5,
		"VerifyOptionsZIP_215":    ed25519.VerifyOptionsZIP_215,
	}
	want := refconst.Presets()
	rt := reflect.TypeOf(ed25519.VerifyOptions{})
	wt := reflect.TypeOf(refconst.Preset{})
	for k := 0; k < rt.NumField(); k++ {
		if _, ok := wt.FieldByName(rt.Field(k).Name); !ok {
			c.Cap("VerifyOptions has a field " + rt.Field(k).Name + " that the documented preset table does not describe: not checked")
		}
	}
	for _, pn := range []string{"VerifyOptionsDefault", "VerifyOptionsStdLib", "VerifyOptionsFIPS_186_5", "VerifyOptionsZIP_215"} {
		for k := 0; k < wt.NumField(); k++ {
			pn, fn := pn, wt.Field(k).Name
			s.add("preset-flag", true, func(w *mc.W) {
				if presets[pn] == nil {
					w.Fail(pn+"/missing", pn+" is nil", nil)
					return
				}
				gv := reflect.ValueOf(*presets[pn]).FieldByName(fn)
				wv := reflect.ValueOf(want[pn]).FieldByName(fn).Bool()
				if !gv.IsValid() || gv.Kind() != reflect.Bool {
					capOnce("VerifyOptions has no boolean field " + fn + " any more: the documented flag cannot be read")
					return
				}
				if gv.Bool() != wv {
					w.Fail(pn+"/"+fn, fmt.Sprintf("%s.%s = %v, documented semantics require %v", pn, fn, gv.Bool(), wv), nil)
				}
			})
		}
	}
	s.add("misc-constant", true, func(w *mc.W) {
		if curve.CompressedPointSize != 32 || curve.MontgomeryPointSize != 32 || curve.RistrettoUniformSize != 64 ||
			field.ElementSize != 32 || field.ElementWideSize != 64 || scalar.ScalarSize != 32 || scalar.ScalarWideSize != 64 {
			w.Fail("sizes/value", "a size constant differs from its definition", nil)
		}
	})
	return s
}
