// C20: every embedded constant and every table entry equals its mathematical
// definition, in every backend.  The space is finite and is enumerated
// completely in each configuration; the oracle is package refconst
// (math/big derivations of the published definitions).
//
// Every constant is read in all the forms the library stores or serves it in:
// raw limbs (value recomputed from the limbs by the harness and limbs checked
// against the documented input headroom), canonical bytes (ToBytes), packed
// table bytes, unpacked tables, the results of the Lookup() access paths
// (Go and assembly), and the vector (cached) tables generated at start-up
// when the AVX2 backend is active.
package main

import (
	"bytes"
	"fmt"
	"math/big"
	"reflect"

	"github.com/oasisprotocol/curve25519-voi/curve"
	"github.com/oasisprotocol/curve25519-voi/curve/scalar"
	"github.com/oasisprotocol/curve25519-voi/internal/elligator"
	"github.com/oasisprotocol/curve25519-voi/internal/field"
	"github.com/oasisprotocol/curve25519-voi/internal/lattice"
	"github.com/oasisprotocol/curve25519-voi/internal/verif/mc"
	"github.com/oasisprotocol/curve25519-voi/internal/verif/ref"
	"github.com/oasisprotocol/curve25519-voi/internal/verif/ref/refconst"
	"github.com/oasisprotocol/curve25519-voi/primitives/ed25519"
	"github.com/oasisprotocol/curve25519-voi/primitives/x25519"
)

const nl = field.VerifLimbCount

var (
	is64 = nl == 5
	P    = ref.P
	one  = big.NewInt(1)
)

// feInt recomputes the integer denoted by raw limbs (radix 2^51 or 2^25.5).
func feInt(l []uint64) *big.Int {
	v := new(big.Int)
	for i, x := range l {
		sh := uint(51 * i)
		if !is64 {
			sh = uint((51*i + 1) / 2)
		}
		v.Add(v, new(big.Int).Lsh(new(big.Int).SetUint64(x), sh))
	}
	return v
}

// headroom is the documented input bound of the backend's multiplication:
// field_u64.go "a[i], b[i] < 2^(51+b) ... we require b < 3";
// field_u32.go "x[i], y[i] < 2^(26+b) if i even, < 2^(25+b) if i odd ... b < 1.752".
func headroom(i int) uint64 {
	if is64 {
		return 1 << 54
	}
	if i&1 == 0 {
		return 225726412 // floor(2^27.75)
	}
	return 112863206 // floor(2^26.75)
}

type kase struct {
	class string
	nt    bool // non-trivial: the defining value is not 0, 1 or the neutral element
	f     func(w *mc.W)
}

type space struct {
	name  string
	cases []kase
}

func (s *space) add(class string, nt bool, f func(w *mc.W)) {
	s.cases = append(s.cases, kase{class, nt, f})
}

func (s *space) run(c *mc.Ctx) {
	c.Par(s.name, len(s.cases), func(w *mc.W, i int) {
		k := s.cases[i]
		w.Eval(k.class, k.nt)
		k.f(w)
		if i%41 == 0 {
			w.Sample(map[string]interface{}{"sub": s.name, "index": i, "class": k.class})
		}
	})
}

func nontrivialFE(v *big.Int) bool { return v.Cmp(one) > 0 }

// checkFE compares one field element, in one named form, with its definition.
func checkFE(w *mc.W, name string, fe *field.Element, want *big.Int) bool {
	ok := true
	cas := map[string]string{"constant": name, "want": fmt.Sprintf("%x", want)}
	l := field.VerifLimbs(fe)
	got := new(big.Int).Mod(feInt(l), P)
	if got.Cmp(want) != 0 {
		ok = false
		w.Fail(name+"/value", fmt.Sprintf("%s: limbs %x denote %x, definition gives %x", name, l, got, want), cas)
	}
	var b [32]byte
	if err := fe.ToBytes(b[:]); err != nil || !bytes.Equal(b[:], ref.LE32(want)) {
		ok = false
		w.Fail(name+"/bytes", fmt.Sprintf("%s: ToBytes gives %x, definition gives %x", name, b, ref.LE32(want)), cas)
	}
	for i, x := range l {
		if x >= headroom(i) {
			ok = false
			w.Fail(name+"/headroom", fmt.Sprintf("%s: limb %d = %#x is outside the documented input headroom (< %#x)", name, i, x, headroom(i)), cas)
		}
	}
	return ok
}

// checkPoint compares a projective extended point (X:Y:Z:T) with an affine reference point.
func checkPoint(w *mc.W, name string, p *curve.EdwardsPoint, want ref.Point) bool {
	cas := map[string]string{"constant": name, "want_x": fmt.Sprintf("%x", want.X), "want_y": fmt.Sprintf("%x", want.Y)}
	ls := curve.VerifCoordLimbs(p)
	var v [4]*big.Int
	ok := true
	for k := range ls {
		v[k] = new(big.Int).Mod(feInt(ls[k]), P)
		for i, x := range ls[k] {
			if x >= headroom(i) {
				ok = false
				w.Fail(name+"/headroom", fmt.Sprintf("%s: coordinate %c limb %d = %#x is outside the documented input headroom", name, "XYZT"[k], i, x), cas)
			}
		}
	}
	xb, yb, zb, tb := curve.VerifCoords(p)
	for k, b := range [][32]byte{xb, yb, zb, tb} {
		if !bytes.Equal(b[:], ref.LE32(v[k])) {
			ok = false
			w.Fail(name+"/bytes", fmt.Sprintf("%s: coordinate %c ToBytes %x disagrees with its limbs (%x)", name, "XYZT"[k], b, v[k]), cas)
		}
	}
	X, Y, Z, T := v[0], v[1], v[2], v[3]
	switch {
	case Z.Sign() == 0:
		ok = false
		w.Fail(name+"/value", name+": Z = 0", cas)
	case ref.FMul(want.X, Z).Cmp(X) != 0 || ref.FMul(want.Y, Z).Cmp(Y) != 0:
		ok = false
		w.Fail(name+"/value", fmt.Sprintf("%s: (X/Z, Y/Z) = (%x, %x), definition gives (%x, %x)", name, ref.FDiv(X, Z), ref.FDiv(Y, Z), want.X, want.Y), cas)
	case ref.FMul(T, Z).Cmp(ref.FMul(X, Y)) != 0:
		ok = false
		w.Fail(name+"/value", name+": T*Z != X*Y (extended coordinate inconsistent)", cas)
	}
	return ok
}

// checkNiels compares an affine Niels triple with the reference point (or its negation / the identity).
func checkNiels(w *mc.W, name string, a *curve.VerifAffineNiels, want ref.Point) bool {
	yp, ym, t2 := refconst.Niels(want)
	ok := checkFE(w, name+".y_plus_x", &a.YPlusX, yp)
	ok = checkFE(w, name+".y_minus_x", &a.YMinusX, ym) && ok
	ok = checkFE(w, name+".xy2d", &a.XY2d, t2) && ok
	return ok
}

func main() { mc.Main("C20", run) }

func run(c *mc.Ctx) {
	spaces := []*space{
		fieldConstants(c),
		pointConstants(c),
		basepointTables(c),
		oddTables(c),
		vectorTables(c),
		scalarConstants(c),
		latticeConstants(c),
		miscConstants(c),
	}
	sizes := map[string]int{}
	for _, s := range spaces {
		sizes[s.name] = len(s.cases)
		s.run(c)
	}
	c.Rep.Extra["sub_space_sizes"] = sizes
	c.Rep.Extra["backend"] = map[string]interface{}{"field_limbs": nl, "vector_tables": curve.VerifC20VectorPresent()}
	c.Require("field-constant", 20)
	c.Require("point-constant", 12)
	c.Require("basepoint-table-entry", 256)
	c.Require("basepoint-table-lookup", 32*17)
	c.Require("odd-table-entry", 128)
	c.Require("scalar-constant", 5)
	c.Require("lattice-constant", 2)
	c.Require("preset-flag", 20)
	if c.Config == "avx2" {
		if !curve.VerifC20VectorPresent() {
			c.Cap("avx2 configuration requested but the vector tables were not generated on this CPU")
		} else {
			c.Require("vector-basepoint-table-entry", 256)
			c.Require("vector-odd-table-entry", 128)
		}
	}
}

// ---------------------------------------------------------------------------

func fieldConstants(c *mc.Ctx) *space {
	s := &space{name: "field-constants"}
	def := refconst.Field()
	either := refconst.SquareOf()
	used := map[string]bool{}
	add := func(name string, fe field.Element) {
		if x, ok := either[name]; ok {
			used[name] = true
			s.add("field-constant", true, func(w *mc.W) {
				// defined as "a square root of x": both roots satisfy the definition
				r, ok := ref.FSqrt(x)
				if !ok {
					w.Fail(name+"/definition", "reference: not a square", nil)
					return
				}
				got := new(big.Int).Mod(feInt(field.VerifLimbs(&fe)), P)
				want := r
				if got.Cmp(r) != 0 {
					want = ref.FNeg(r)
				}
				checkFE(w, name, &fe, want)
			})
			return
		}
		want, ok := def[name]
		if !ok {
			s.add("field-constant", true, func(w *mc.W) {
				w.Fail(name+"/definition", "no definition known for constant "+name+" (harness out of date)", nil)
			})
			return
		}
		used[name] = true
		s.add("field-constant", nontrivialFE(want), func(w *mc.W) { checkFE(w, name, &fe, want) })
	}
	add("field.One", field.One)
	add("field.MinusOne", field.MinusOne)
	add("field.Two", field.Two)
	add("field.SQRT_M1", field.SQRT_M1)
	if fe, ok := field.VerifC20APlus2Over4(); ok {
		add("field.constAPLUS2_OVER_FOUR", *fe)
	} else {
		used["field.constAPLUS2_OVER_FOUR"] = true // the 64-bit backend has no such constant (immediate in Mul121666, decided by C04)
	}
	for _, n := range curve.VerifC20FieldConstants() {
		add(n.Name, n.FE)
	}
	for _, n := range elligator.VerifC20Constants() {
		add(n.Name, n.FE)
	}
	// One()/MinusOne()/Zero() constructors (literal limbs per backend)
	var o, m, z field.Element
	o.One()
	m.MinusOne()
	z.Zero()
	s.add("field-constant", false, func(w *mc.W) { checkFE(w, "Element.One()", &o, big.NewInt(1)) })
	s.add("field-constant", true, func(w *mc.W) { checkFE(w, "Element.MinusOne()", &m, ref.FNeg(one)) })
	s.add("field-constant", false, func(w *mc.W) { checkFE(w, "Element.Zero()", &z, big.NewInt(0)) })
	for name := range def {
		if !used[name] {
			c.Broken("reference defines " + name + " but the harness did not read it from the library")
		}
	}
	return s
}

func pointConstants(c *mc.Ctx) *space {
	s := &space{name: "point-constants"}
	B := ref.Base
	s.add("point-constant", true, func(w *mc.W) { checkPoint(w, "ED25519_BASEPOINT_POINT", curve.ED25519_BASEPOINT_POINT, B) })
	s.add("point-constant", true, func(w *mc.W) {
		if !bytes.Equal(curve.ED25519_BASEPOINT_COMPRESSED[:], B.Encode()) {
			w.Fail("ED25519_BASEPOINT_COMPRESSED/value", fmt.Sprintf("%x != encoding of (x, 4/5) %x", curve.ED25519_BASEPOINT_COMPRESSED[:], B.Encode()), nil)
		}
	})
	s.add("point-constant", true, func(w *mc.W) {
		u := B.ToMontgomeryU() // (1+y)/(1-y) = 9
		if !bytes.Equal(curve.X25519_BASEPOINT[:], ref.LE32(u)) || u.Cmp(big.NewInt(9)) != 0 {
			w.Fail("X25519_BASEPOINT/value", fmt.Sprintf("%x != u(B) = %x", curve.X25519_BASEPOINT[:], ref.LE32(u)), nil)
		}
	})
	s.add("point-constant", true, func(w *mc.W) {
		if want := ref.RistrettoEncode(B); !bytes.Equal(curve.RISTRETTO_BASEPOINT_COMPRESSED[:], want) {
			w.Fail("RISTRETTO_BASEPOINT_COMPRESSED/value", fmt.Sprintf("%x != RFC 9496 encoding of B %x", curve.RISTRETTO_BASEPOINT_COMPRESSED[:], want), nil)
		}
	})
	s.add("point-constant", true, func(w *mc.W) {
		checkPoint(w, "RISTRETTO_BASEPOINT_POINT", curve.VerifEdwardsFromRistretto(curve.RISTRETTO_BASEPOINT_POINT), B)
	})
	tor := ref.Torsion()
	for i := 0; i < 8; i++ {
		i := i
		s.add("point-constant", i != 0, func(w *mc.W) { checkPoint(w, fmt.Sprintf("EIGHT_TORSION[%d]", i), curve.EIGHT_TORSION[i], tor[i]) })
	}
	s.add("point-constant", true, func(w *mc.W) { checkPoint(w, "constB_SHL_128", curve.VerifC20BShl128(), refconst.BShl128()) })
	// the base point as served by the tables
	s.add("point-constant", true, func(w *mc.W) {
		checkPoint(w, "ED25519_BASEPOINT_TABLE.Basepoint()", curve.ED25519_BASEPOINT_TABLE.Basepoint(), B)
	})
	s.add("point-constant", true, func(w *mc.W) {
		checkPoint(w, "RISTRETTO_BASEPOINT_TABLE.Basepoint()", curve.VerifEdwardsFromRistretto(curve.RISTRETTO_BASEPOINT_TABLE.Basepoint()), B)
	})
	if len(curve.EIGHT_TORSION) != 8 {
		c.Broken("EIGHT_TORSION does not have 8 entries")
	}
	return s
}

// lookupWant returns the reference point for Lookup(x) on a radix-16 table over base: [x]base (identity for 0).
func lookupWant(row [8]ref.Point, x int) ref.Point {
	switch {
	case x == 0:
		return ref.Identity()
	case x > 0:
		return row[x-1]
	}
	return row[-x-1].Neg()
}

func basepointTables(c *mc.Ctx) *space {
	s := &space{name: "basepoint-table"}
	want := refconst.BasepointTable()
	// (1) packed bytes: 256 entries of 96 bytes
	packed := curve.VerifC20Packed(0)
	if len(packed) != 256 {
		c.Broken(fmt.Sprintf("packedEdwardsBasepointTable has %d entries, want 256", len(packed)))
		return s
	}
	for i := 0; i < 32; i++ {
		for j := 0; j < 8; j++ {
			i, j := i, j
			name := fmt.Sprintf("packedEdwardsBasepointTable[%d*8+%d]", i, j)
			s.add("basepoint-table-entry", true, func(w *mc.W) { checkPacked(w, name, &packed[i*8+j], want[i][j]) })
		}
	}
	// (2) the library's own unpacking, run afresh (this is the table of every non-vector configuration)
	un := curve.VerifC20UnpackBasepointTable()
	for i := 0; i < 32; i++ {
		for j := 0; j < 8; j++ {
			i, j := i, j
			name := fmt.Sprintf("unpackEdwardsBasepointTable()[%d][%d]", i, j)
			s.add("basepoint-table-entry/unpacked", true, func(w *mc.W) { checkNiels(w, name, &un[i][j], want[i][j]) })
		}
	}
	// (3) the live tables: ED25519_BASEPOINT_TABLE and the copy inside RISTRETTO_BASEPOINT_TABLE
	for _, t := range []struct {
		name string
		tbl  *curve.EdwardsBasepointTable
	}{{"ED25519_BASEPOINT_TABLE", curve.ED25519_BASEPOINT_TABLE}, {"RISTRETTO_BASEPOINT_TABLE.inner", curve.VerifC20RistrettoTable()}} {
		t := t
		live, ok := curve.VerifC20BasepointTableGeneric(t.tbl)
		if !ok {
			if _, vok := curve.VerifC20VecBasepointTable(t.tbl); !vok {
				// a table that is simply missing is a violation of the property (entry (i, j) is not [(j+1)*256^i]B), not a harness error
				c.Seq("basepoint-table-present/"+t.name, 1, func(w *mc.W, _ int) {
					w.Fail("basepoint-table/missing", t.name+" holds neither an affine nor a vector table in this configuration: all 256 entries are missing", nil)
				})
			}
			continue // vector form: see vectorTables
		}
		for i := 0; i < 32; i++ {
			for j := 0; j < 8; j++ {
				i, j := i, j
				name := fmt.Sprintf("%s[%d][%d]", t.name, i, j)
				s.add("basepoint-table-entry/live", true, func(w *mc.W) { checkNiels(w, name, &live[i][j], want[i][j]) })
			}
		}
		// every Lookup(x), x in [-8, 8], of every sub-table (Go or assembly lookup + conditional negation)
		for i := 0; i < 32; i++ {
			for x := -8; x <= 8; x++ {
				i, x := i, x
				name := fmt.Sprintf("%s[%d].Lookup(%d)", t.name, i, x)
				s.add("basepoint-table-lookup", x != 0, func(w *mc.W) {
					a, _ := curve.VerifC20AffineLookup(t.tbl, i, int8(x))
					wp := lookupWant(want[i], x)
					if checkNiels(w, name, &a, wp) {
						checkPoint(w, name+"->setAffineNiels", curve.VerifC20AffineNielsToEdwards(&a), wp)
					}
				})
			}
		}
	}
	// lookups on the freshly unpacked table (covers the affine lookup path in the avx2 configuration too)
	for i := 0; i < 32; i++ {
		for x := -8; x <= 8; x++ {
			i, x := i, x
			name := fmt.Sprintf("unpackEdwardsBasepointTable()[%d].Lookup(%d)", i, x)
			s.add("basepoint-table-lookup", x != 0, func(w *mc.W) {
				a := curve.VerifC20UnpackedLookup(i, int8(x))
				checkNiels(w, name, &a, lookupWant(want[i], x))
			})
		}
	}
	// third lookup flavour (projective Niels, built at run time): Lookup(x) of the table of B, x in [-8, 8]
	for x := -8; x <= 8; x++ {
		x := x
		s.add("projective-niels-lookup", x != 0, func(w *mc.W) {
			e := curve.VerifC20ProjectiveNielsLookup(curve.ED25519_BASEPOINT_POINT, int8(x))
			name := fmt.Sprintf("newProjectiveNielsPointLookupTable(B).Lookup(%d)", x)
			var v [4]*big.Int
			for k := range e {
				l := field.VerifLimbs(&e[k])
				v[k] = new(big.Int).Mod(feInt(l), P)
				for i, y := range l {
					if y >= headroom(i) {
						w.Fail(name+"/headroom", fmt.Sprintf("%s: component %d limb %d = %#x outside the documented input headroom", name, k, i, y), nil)
					}
				}
			}
			wp := lookupWant(want[0], x)
			yp, ym, z, t2d := v[0], v[1], v[2], v[3]
			z2 := ref.FAdd(z, z)
			switch {
			case z.Sign() == 0:
				w.Fail(name+"/value", name+": Z = 0", nil)
			case ref.FMul(wp.X, z2).Cmp(ref.FSub(yp, ym)) != 0 || ref.FMul(wp.Y, z2).Cmp(ref.FAdd(yp, ym)) != 0:
				w.Fail(name+"/value", fmt.Sprintf("%s does not denote [%d]B", name, x), nil)
			case ref.FMul(ref.FAdd(t2d, t2d), z).Cmp(ref.FMul(ref.D, ref.FSub(ref.FSq(yp), ref.FSq(ym)))) != 0:
				w.Fail(name+"/value", name+": T2d is not 2d*XY/Z", nil)
			}
		})
	}
	s.add("basepoint-table-lookup", false, func(w *mc.W) {
		id := curve.VerifC20AffineNielsIdentity()
		checkNiels(w, "affineNielsPoint.Identity()", &id, ref.Identity())
	})
	return s
}

// checkPacked: 96 packed bytes = little-endian (y+x, y-x, 2dxy), decoded exactly as the library's SetRaw/SetBytes
// decodes them (bit 255 ignored, value taken mod p).  The comparison is by value; a non-canonical byte string
// that still denotes the right element is only counted (class "packed-entry/noncanonical-bytes"), because it
// would unpack to the defined value.
func checkPacked(w *mc.W, name string, raw *[96]byte, want ref.Point) {
	yp, ym, t2 := refconst.Niels(want)
	for k, v := range []*big.Int{yp, ym, t2} {
		part := []string{"y_plus_x", "y_minus_x", "xy2d"}[k]
		got := raw[32*k : 32*k+32]
		if bytes.Equal(got, ref.LE32(v)) {
			continue
		}
		m := append([]byte{}, got...)
		m[31] &= 0x7f
		if new(big.Int).Mod(ref.FromLE(m), P).Cmp(v) == 0 {
			w.Eval("packed-entry/noncanonical-bytes", true)
			continue
		}
		w.Fail(name+"/value", fmt.Sprintf("%s.%s = %x, definition gives %x", name, part, got, ref.LE32(v)), map[string]string{"entry": name})
	}
}

func oddTables(c *mc.Ctx) *space {
	s := &space{name: "odd-multiple-tables"}
	for _, which := range []int{1, 2} {
		which := which // per-iteration copy (the module's language version predates Go 1.22 loop variables)
		base := map[int]ref.Point{1: ref.Base, 2: refconst.BShl128()}[which]
		tn := map[int]string{1: "constAFFINE_ODD_MULTIPLES_OF_BASEPOINT", 2: "constAFFINE_ODD_MULTIPLES_OF_B_SHL_128"}[which]
		pn := map[int]string{1: "packedAffineOddMultiplesOfBasepoint", 2: "packedAffineOddMultiplesOfBShl128"}[which]
		want := refconst.OddMultiples(base)
		packed := curve.VerifC20Packed(which)
		if len(packed) != 64 {
			c.Broken(fmt.Sprintf("%s has %d entries, want 64", pn, len(packed)))
			continue
		}
		live := curve.VerifC20AffineOdd(which)
		for j := 0; j < 64; j++ {
			j := j
			s.add("odd-table-entry", true, func(w *mc.W) { checkPacked(w, fmt.Sprintf("%s[%d]", pn, j), &packed[j], want[j]) })
			s.add("odd-table-entry/live", true, func(w *mc.W) { checkNiels(w, fmt.Sprintf("%s[%d]", tn, j), &live[j], want[j]) })
			s.add("odd-table-lookup", true, func(w *mc.W) {
				a := curve.VerifC20AffineOddLookup(which, uint8(2*j+1))
				checkNiels(w, fmt.Sprintf("%s.Lookup(%d)", tn, 2*j+1), &a, want[j])
			})
		}
	}
	return s
}

func scalarConstants(c *mc.Ctx) *space {
	s := &space{name: "scalar-constants"}
	l, r, rr, lf, width := scalar.VerifC20ScalarConstants()
	n := len(l)
	wr, wrr, wlf := refconst.ScalarMontgomery(width, n)
	c.Rep.Extra["scalar_backend"] = map[string]interface{}{"limb_bits": width, "limbs": n}
	chk := func(name string, got []uint64, want *big.Int) {
		s.add("scalar-constant", true, func(w *mc.W) {
			cas := map[string]string{"constant": name}
			if v := refconst.FromLimbs(got, width); v.Cmp(want) != 0 {
				w.Fail(name+"/value", fmt.Sprintf("%s: limbs %x denote %x, definition gives %x", name, got, v, want), cas)
			}
			for i, x := range got {
				if x>>width != 0 {
					w.Fail(name+"/headroom", fmt.Sprintf("%s: limb %d = %#x exceeds %d bits", name, i, x, width), cas)
				}
			}
		})
	}
	chk("constL", l, ref.L)
	chk("constR", r, wr)    // 2^(width*n) mod L
	chk("constRR", rr, wrr) // R^2 mod L
	s.add("scalar-constant", true, func(w *mc.W) {
		// L * LFACTOR = -1 (mod 2^width), LFACTOR < 2^width: unique, so equality with the reference value is the definition
		if new(big.Int).SetUint64(lf).Cmp(wlf) != 0 {
			x := new(big.Int).Mul(ref.L, new(big.Int).SetUint64(lf))
			x.Mod(x, new(big.Int).Lsh(one, width))
			w.Fail("constLFACTOR/value", fmt.Sprintf("constLFACTOR = %#x: L*LFACTOR mod 2^%d = %x, want 2^%d-1 (LFACTOR must be %x)", lf, width, x, width, wlf), nil)
		}
	})
	s.add("scalar-constant", true, func(w *mc.W) {
		var b [32]byte
		if err := scalar.BASEPOINT_ORDER.ToBytes(b[:]); err != nil || !bytes.Equal(b[:], ref.LE32(ref.L)) {
			w.Fail("BASEPOINT_ORDER/value", fmt.Sprintf("BASEPOINT_ORDER = %x, want L = %x", b, ref.LE32(ref.L)), nil)
		}
	})
	s.add("scalar-constant", true, func(w *mc.W) {
		o := scalar.VerifC20Order()
		v := new(big.Int)
		for i := 3; i >= 0; i-- {
			v.Lsh(v, 64)
			v.Add(v, new(big.Int).SetUint64(o[i]))
		}
		if v.Cmp(ref.L) != 0 {
			w.Fail("scalar.order/value", fmt.Sprintf("order = %x, want L", v), nil)
		}
	})
	return s
}

func latticeConstants(c *mc.Ctx) *space {
	s := &space{name: "lattice-constants"}
	s.add("lattice-constant", true, func(w *mc.W) {
		hi, lo := lattice.VerifC20EllLowerHalf()
		v := new(big.Int).Lsh(big.NewInt(hi), 64)
		v.Add(v, new(big.Int).SetUint64(lo))
		if v.Cmp(refconst.EllLowerHalf()) != 0 {
			w.Fail("constELL_LOWER_HALF/value", fmt.Sprintf("constELL_LOWER_HALF = %x, want L mod 2^128 = %x", v, refconst.EllLowerHalf()), nil)
		}
	})
	s.add("lattice-constant", true, func(w *mc.W) {
		ws := lattice.VerifC20EllSquared()
		v := new(big.Int)
		for i := 7; i >= 0; i-- {
			v.Lsh(v, 64)
			v.Add(v, new(big.Int).SetUint64(ws[i]))
		}
		if v.Cmp(refconst.EllSquared()) != 0 {
			w.Fail("ellSquared/value", fmt.Sprintf("ellSquared() = %x, want L^2 = %x", v, refconst.EllSquared()), nil)
		}
	})
	s.add("lattice-constant", false, func(w *mc.W) {
		o, zh, zl, oh, ol := lattice.VerifC20SmallConstants()
		if o != [8]uint64{1} || zh != 0 || zl != 0 || oh != 0 || ol != 1 {
			w.Fail("lattice.small/value", "i512One / i128Zero / i128One are not 1 / 0 / 1", nil)
		}
	})
	return s
}

func miscConstants(c *mc.Ctx) *space {
	s := &space{name: "misc-constants"}
	s.add("misc-constant", true, func(w *mc.W) {
		if len(x25519.Basepoint) != 32 || !bytes.Equal(x25519.Basepoint, ref.LE32(big.NewInt(9))) {
			w.Fail("x25519.Basepoint/value", fmt.Sprintf("x25519.Basepoint = %x, want u = 9", x25519.Basepoint), nil)
		}
	})
	nc := curve.VerifC20NoncanonicalSignBits()
	wantNC := refconst.NoncanonicalSignBits()
	if len(nc) != len(wantNC) {
		c.Broken(fmt.Sprintf("noncanonicalSignBits has %d entries, the definition has %d", len(nc), len(wantNC)))
	} else {
		for i := range nc {
			i := i
			s.add("misc-constant", true, func(w *mc.W) {
				if !bytes.Equal(nc[i][:], wantNC[i]) {
					w.Fail("noncanonicalSignBits/value", fmt.Sprintf("noncanonicalSignBits[%d] = %x, want %x (x = 0 with the sign bit set)", i, nc[i], wantNC[i]), nil)
				}
			})
		}
	}
	// Ed25519 verification presets, flag by flag, against the documented semantics
	presets := map[string]*ed25519.VerifyOptions{
		"VerifyOptionsDefault":    ed25519.VerifyOptionsDefault,
		"VerifyOptionsStdLib":     ed25519.VerifyOptionsStdLib,
		"VerifyOptionsFIPS_186_5": ed25519.VerifyOptionsFIPS_186_5,
		"VerifyOptionsZIP_215":    ed25519.VerifyOptionsZIP_215,
	}
	want := refconst.Presets()
	rt := reflect.TypeOf(ed25519.VerifyOptions{})
	wt := reflect.TypeOf(refconst.Preset{})
	if rt.NumField() != wt.NumField() {
		c.Broken(fmt.Sprintf("VerifyOptions has %d fields, the documented table has %d flags (harness out of date)", rt.NumField(), wt.NumField()))
	}
	for _, pn := range []string{"VerifyOptionsDefault", "VerifyOptionsStdLib", "VerifyOptionsFIPS_186_5", "VerifyOptionsZIP_215"} {
		for k := 0; k < wt.NumField(); k++ {
			pn, fn := pn, wt.Field(k).Name
			s.add("preset-flag", true, func(w *mc.W) {
				gv := reflect.ValueOf(*presets[pn]).FieldByName(fn)
				wv := reflect.ValueOf(want[pn]).FieldByName(fn).Bool()
				if !gv.IsValid() || gv.Kind() != reflect.Bool {
					w.Fail(pn+"/field", "VerifyOptions has no boolean field "+fn, nil)
					return
				}
				if gv.Bool() != wv {
					w.Fail(pn+"/"+fn, fmt.Sprintf("%s.%s = %v, documented semantics require %v", pn, fn, gv.Bool(), wv), nil)
				}
			})
		}
	}
	s.add("misc-constant", true, func(w *mc.W) {
		// Options.Verify == nil means VerifyOptionsDefault; the package keeps optionsDefault for that: observable only through behaviour (C01).
		if curve.CompressedPointSize != 32 || curve.MontgomeryPointSize != 32 || curve.RistrettoUniformSize != 64 ||
			field.ElementSize != 32 || field.ElementWideSize != 64 || scalar.ScalarSize != 32 || scalar.ScalarWideSize != 64 {
			w.Fail("sizes/value", "a size constant differs from its definition", nil)
		}
	})
	return s
}
