package main

import (
	"fmt"
	"math/big"

	"github.com/oasisprotocol/curve25519-voi/curve"
	"github.com/oasisprotocol/curve25519-voi/internal/verif/mc"
	"github.com/oasisprotocol/curve25519-voi/internal/verif/ref"
	"github.com/oasisprotocol/curve25519-voi/internal/verif/ref/refconst"
)

// laneInt recomputes the value of one radix-2^25.5 lane from its raw limbs.
func laneInt(l *[10]uint32) *big.Int {
	v := new(big.Int)
	for j, x := range l {
		v.Add(v, new(big.Int).Lsh(big.NewInt(int64(x)), uint((51*j+1)/2)))
	}
	return v.Mod(v, P)
}

var (
	k121666 = big.NewInt(121666)
	k121665 = big.NewInt(121665)
)

// checkCached compares a vector-form (cached) point with the reference point.
//
// A cached point stores (a, b, c, d) = (k(Y-X), k(Y+X), 2kZ, -2k'T), k = 121666, k' = 121665, for an
// extended point (X:Y:Z:T).  Independently of any library arithmetic this means, for the affine (x, y):
//
//	b - a = x*c,   b + a = y*c,   c != 0,   d*k*c = -k'*(b^2 - a^2)        (T = XY/Z)
//
// The lanes are inputs of the vector multiplication and of negate_lazy (2p - v), so each limb must
// not exceed the corresponding limb of 2p.
func checkCached(w *mc.W, name string, l *curve.VerifLanes, want ref.Point) bool {
	cas := map[string]string{"entry": name, "lanes": fmt.Sprintf("%x", *l)}
	a, b, cc, d := laneInt(&l[0]), laneInt(&l[1]), laneInt(&l[2]), laneInt(&l[3])
	ok := true
	switch {
	case cc.Sign() == 0:
		ok = false
		w.Fail(name+"/value", name+": lane C (2kZ) is zero", cas)
	case ref.FSub(b, a).Cmp(ref.FMul(want.X, cc)) != 0 || ref.FAdd(b, a).Cmp(ref.FMul(want.Y, cc)) != 0:
		ok = false
		w.Fail(name+"/value", fmt.Sprintf("%s: denotes (x, y) = (%x, %x), definition gives (%x, %x)", name,
			ref.FDiv(ref.FSub(b, a), cc), ref.FDiv(ref.FAdd(b, a), cc), want.X, want.Y), cas)
	case ref.FMul(ref.FMul(d, k121666), cc).Cmp(ref.FNeg(ref.FMul(k121665, ref.FSub(ref.FSq(b), ref.FSq(a))))) != 0:
		ok = false
		w.Fail(name+"/value", name+": lane D is not -2*121665*T with T = XY/Z", cas)
	}
	for k := range l {
		for j, x := range l[k] {
			lim := uint32(2 * (1<<26 - 1))
			if j&1 == 1 {
				lim = 2 * (1<<25 - 1)
			} else if j == 0 {
				lim = 2 * (1<<26 - 19)
			}
			if x > lim {
				ok = false
				w.Fail(name+"/headroom", fmt.Sprintf("%s: lane %c limb %d = %#x exceeds 2p (%#x): lazy negation would underflow", name, 'A'+k, j, x, lim), cas)
			}
		}
	}
	if ok {
		if f, have := curve.VerifC20Reg["cachedToEdwards"].(func(*curve.VerifLanes) *curve.EdwardsPoint); have {
			ok = checkPoint(w, name+"->setCached", f(l), want)
		} else {
			missing("curve", "setCached")
		}
	}
	return ok
}

func vectorTables(c *mc.Ctx) *space {
	s := &space{name: "vector-tables"}
	if !curve.VerifSupportsVector() {
		return s // the vector backend is not in use in this configuration: no vector tables exist
	}
	want := refconst.BasepointTable()
	for _, t := range liveTables() {
		t := t
		tbl := t.get()
		name := t.name + "(vector)"
		lanes := &lazy{f: func() interface{} {
			f, ok := curve.VerifC20Reg["vecBasepointTable"].(func(*curve.EdwardsBasepointTable) [][]curve.VerifLanes)
			if !ok {
				return nil
			}
			return f(tbl)
		}}
		for i := 0; i < 32; i++ {
			for j := 0; j < 8; j++ {
				i, j := i, j
				s.add("vector-basepoint-table-entry", true, func(w *mc.W) {
					if _, ok := curve.VerifC20Reg["vecBasepointTable"]; !ok {
						missing("curve", "EdwardsBasepointTable.innerVector")
						return
					}
					lt, _ := lanes.get().([][]curve.VerifLanes)
					en := fmt.Sprintf("%s[%d][%d]", name, i, j)
					if i >= len(lt) || j >= len(lt[i]) {
						w.Fail("vector-basepoint-table/missing", en+": the vector backend is active but the generated table has no such entry", nil)
						return
					}
					checkCached(w, en, &lt[i][j], want[i][j])
				})
			}
		}
		for i := 0; i < 32; i++ {
			for x := -8; x <= 8; x++ {
				i, x := i, x
				s.add("vector-basepoint-table-lookup", x != 0, func(w *mc.W) {
					f, ok := curve.VerifC20Reg["vecLookup"].(func(*curve.EdwardsBasepointTable, int, int8) curve.VerifLanes)
					if !ok {
						missing("curve", "cachedPointLookupTable.Lookup")
						return
					}
					l := f(tbl, i, int8(x))
					checkCached(w, fmt.Sprintf("%s[%d].Lookup(%d)", name, i, x), &l, lookupWant(want[i], x))
				})
			}
		}
	}
	for _, which := range []int{1, 2} {
		which := which
		base := map[int]ref.Point{1: ref.Base, 2: refconst.BShl128()}[which]
		tn := map[int]string{1: "constVECTOR_ODD_MULTIPLES_OF_BASEPOINT", 2: "constVECTOR_ODD_MULTIPLES_OF_B_SHL_128"}[which]
		wantOdd := refconst.OddMultiples(base)
		lanes := &lazy{f: func() interface{} {
			f, ok := curve.VerifC20Reg["vecOdd"].(func(int) []curve.VerifLanes)
			if !ok {
				return nil
			}
			return f(which)
		}}
		for j := 0; j < 64; j++ {
			j := j
			s.add("vector-odd-table-entry", true, func(w *mc.W) {
				if _, ok := curve.VerifC20Reg["vecOdd"]; !ok {
					missing("curve", tn)
					return
				}
				lt, _ := lanes.get().([]curve.VerifLanes)
				en := fmt.Sprintf("%s[%d]", tn, j)
				if j >= len(lt) {
					w.Fail("vector-odd-table/missing", en+": the vector backend is active but the generated table has no such entry", nil)
					return
				}
				checkCached(w, en, &lt[j], wantOdd[j])
			})
			s.add("vector-odd-table-lookup", true, func(w *mc.W) {
				f, ok := curve.VerifC20Reg["vecOddLookup"].(func(int, uint8) curve.VerifLanes)
				if !ok {
					missing("curve", tn+".Lookup")
					return
				}
				l := f(which, uint8(2*j+1))
				checkCached(w, fmt.Sprintf("%s.Lookup(%d)", tn, 2*j+1), &l, wantOdd[j])
			})
		}
	}
	s.add("vector-constant", false, func(w *mc.W) {
		f, ok := curve.VerifC20Reg["extendedIdentity"].(func() curve.VerifLanes)
		if !ok {
			missing("curve", "constEXTENDEDPOINT_IDENTITY")
			return
		}
		l := f()
		x, y, z, tt := laneInt(&l[0]), laneInt(&l[1]), laneInt(&l[2]), laneInt(&l[3])
		if x.Sign() != 0 || y.Cmp(one) != 0 || z.Cmp(one) != 0 || tt.Sign() != 0 {
			w.Fail("constEXTENDEDPOINT_IDENTITY/value", fmt.Sprintf("constEXTENDEDPOINT_IDENTITY = (%x, %x, %x, %x), want (0, 1, 1, 0)", x, y, z, tt), nil)
		}
	})
	return s
}
