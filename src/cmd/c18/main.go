// C18: the LRU key cache is linearizable under every interleaving; sequential
// LRU order; the caching verifier agrees with plain verification under every
// interleaving.  (The free-running -race pass is cmd/c18race.)
package main

import (
	"fmt"
	"sort"
	"strings"
	"sync/atomic"

	"github.com/oasisprotocol/curve25519-voi/curve"
	"github.com/oasisprotocol/curve25519-voi/internal/verif/mc"
	"github.com/oasisprotocol/curve25519-voi/internal/verif/sched"
	"github.com/oasisprotocol/curve25519-voi/primitives/ed25519"
	"github.com/oasisprotocol/curve25519-voi/primitives/ed25519/extra/cache"
)

const nKeys = 6

var (
	keys [nKeys]curve.CompressedEdwardsY
	exps [nKeys]*ed25519.ExpandedPublicKey
	priv [nKeys]ed25519.PrivateKey
	kidx = map[curve.CompressedEdwardsY]int{}
)

func initKeys(seed int64) {
	for i := range keys {
		sd := mc.Bytes(seed, "c18key", i, 32)
		priv[i] = ed25519.NewKeyFromSeed(sd)
		pk := priv[i].Public().(ed25519.PublicKey)
		copy(keys[i][:], pk)
		var err error
		if exps[i], err = ed25519.NewExpandedPublicKey(pk); err != nil {
			panic(err)
		}
		kidx[keys[i]] = i
	}
	// key 2 is a NON-CANONICAL encoding (y + p, y < 19) of a point: the cache must treat a key as the byte string the
	// caller supplied (index, eviction and CompressedY() all by the same bytes), whatever the point re-encodes to.
	// Its signatures (made with the unrelated priv[2]) are simply invalid, consistently for plain and cached verification.
	delete(kidx, keys[2])
	found := false
	for y := 0; y < 19 && !found; y++ {
		for _, sign := range []byte{0, 0x80} {
			var b [32]byte
			// p + y = 2^255 - 19 + y, little-endian
			for i := range b {
				b[i] = 0xff
			}
			b[0] = byte(0xed + y)
			b[31] = 0x7f | sign
			e, err := ed25519.NewExpandedPublicKey(b[:])
			if err != nil {
				continue
			}
			var pt curve.EdwardsPoint
			var re curve.CompressedEdwardsY
			if _, err := pt.SetCompressedY((*curve.CompressedEdwardsY)(&b)); err != nil {
				continue
			}
			re.SetEdwardsPoint(&pt)
			if re == curve.CompressedEdwardsY(b) {
				continue
			}
			keys[2], exps[2], found = curve.CompressedEdwardsY(b), e, true
			break
		}
	}
	if !found {
		panic("c18: no non-canonical public key encoding found")
	}
	kidx[keys[2]] = 2
	// keys 3 and 5 are NEAR-COLLIDING encodings: key 3 is key 0 with the sign bit flipped (the negated point: identical
	// in bytes 0..30 and in the low 7 bits of byte 31), key 5 is key 1 with byte 0 changed to the first value that still
	// decodes (identical in bytes 1..31).  An index keyed by a prefix, a suffix, the y-coordinate or any other part of
	// the key confuses them; the cache must treat them as four different keys.  (Their signatures, made with unrelated
	// private keys, are simply invalid - consistently for plain and cached verification.)
	delete(kidx, keys[3])
	delete(kidx, keys[5])
	keys[3] = keys[0]
	keys[3][31] ^= 0x80
	var err error
	if exps[3], err = ed25519.NewExpandedPublicKey(keys[3][:]); err != nil {
		panic(err)
	}
	found = false
	for d := 1; d < 256 && !found; d++ {
		b := keys[1]
		b[0] += byte(d)
		if e, err := ed25519.NewExpandedPublicKey(b[:]); err == nil {
			keys[5], exps[5], found = b, e, true
		}
	}
	if !found {
		panic("c18: no decodable neighbour of key 1")
	}
	kidx[keys[3]] = 3
	kidx[keys[5]] = 5
}

// withKeyOrder runs f with the key alphabet permuted (universe index i holds key perm[i]), so that the small key
// universes of the sub-spaces below (the first 2-4 indices) consist of the near-colliding keys.
func withKeyOrder(perm [nKeys]int, f func()) {
	ok, oe, op := keys, exps, priv
	set := func(k [nKeys]curve.CompressedEdwardsY, e [nKeys]*ed25519.ExpandedPublicKey, p [nKeys]ed25519.PrivateKey) {
		keys, exps, priv = k, e, p
		for q := range kidx {
			delete(kidx, q)
		}
		for i := range keys {
			kidx[keys[i]] = i
		}
	}
	var nk [nKeys]curve.CompressedEdwardsY
	var ne [nKeys]*ed25519.ExpandedPublicKey
	var np [nKeys]ed25519.PrivateKey
	for i, q := range perm {
		nk[i], ne[i], np[i] = ok[q], oe[q], op[q]
	}
	set(nk, ne, np)
	defer set(ok, oe, op)
	f()
}

// subSuffix distinguishes the sub-space names of the passes run on a permuted key alphabet.
var subSuffix string

// ---- sequential model -------------------------------------------------------

// model is the boring reference: recency-ordered key list, most recent first.
type model struct {
	cap   int
	order []int
}

func (m *model) clone() *model { return &model{m.cap, append([]int{}, m.order...)} }
func (m *model) find(k int) int {
	for i, v := range m.order {
		if v == k {
			return i
		}
	}
	return -1
}
func (m *model) touch(i int) {
	k := m.order[i]
	copy(m.order[1:i+1], m.order[:i])
	m.order[0] = k
}

// get returns the key whose expansion is returned, or -1.
func (m *model) get(k int) int {
	if i := m.find(k); i >= 0 {
		m.touch(i)
		return k
	}
	return -1
}
func (m *model) put(k int) {
	if i := m.find(k); i >= 0 {
		m.touch(i)
		return
	}
	if len(m.order) == m.cap {
		m.order = m.order[:len(m.order)-1]
	}
	m.order = append([]int{k}, m.order...)
}
func (m *model) key() string { return fmt.Sprint(m.order) }

type op struct {
	put bool
	k   int
}

func (o op) String() string {
	if o.put {
		return fmt.Sprintf("Put(k%d)", o.k)
	}
	return fmt.Sprintf("Get(k%d)", o.k)
}

// handed records every expanded key object that crossed the cache boundary in the current execution: objects the
// harness handed to Put (caller-owned: the cache may keep the pointer but must never write through it) and objects Get
// returned (they are used after the lock is released, so they must keep describing the key they were returned for).
type handedKey struct {
	p   *ed25519.ExpandedPublicKey
	k   int
	how string
}

var handed []handedKey

// checkHanded returns a description of the first object that no longer holds its key.
func checkHanded() string {
	for _, h := range handed {
		if h.p.CompressedY() != keys[h.k] {
			c := h.p.CompressedY()
			return fmt.Sprintf("the expanded key object %s for key %d now holds key %x (an object that left the cache, or caller-owned memory, was overwritten in place)", h.how, h.k, c[:4])
		}
	}
	return ""
}

// apply runs op on the real cache; returns index of the key whose expansion came back (-1 nil, -2 foreign).
func apply(c cache.Cache, o op) int {
	// the key is handed over in a scratch variable that the caller overwrites straight after the call: the cache
	// must not keep (alias) caller-owned memory
	kp := new(curve.CompressedEdwardsY)
	*kp = keys[o.k]
	defer func() {
		for i := range kp {
			kp[i] = 0xee
		}
	}()
	if o.put {
		// a private copy per call: whatever the cache does with the object cannot leak into another execution
		e := new(ed25519.ExpandedPublicKey)
		*e = *exps[o.k]
		handed = append(handed, handedKey{e, o.k, "handed to Put"})
		c.Put(kp, e)
		return -1
	}
	r := c.Get(kp)
	if r == nil {
		return -1
	}
	if i, ok := kidx[r.CompressedY()]; ok {
		if i == o.k {
			handed = append(handed, handedKey{r, o.k, "returned by Get"})
		}
		return i
	}
	return -2
}

// uninspectable is set when the hook cannot read the cache's representation (a refactoring changed it): structural
// invariants and the recency order are then not observable; results of every Get/Put are still compared with the model,
// the state key falls back to the model's state, and the evidence records the cap.
var uninspectable int32

func realState(c cache.Cache) (order []int, problems []string) {
	ord, _, _, pr := cache.VerifLRUState(c)
	if len(pr) == 1 && pr[0] == cache.VerifUninspectable {
		atomic.StoreInt32(&uninspectable, 1)
		return nil, nil
	}
	for _, k := range ord {
		if i, ok := kidx[k]; ok {
			order = append(order, i)
		} else {
			order = append(order, -2)
		}
	}
	sort.Strings(pr) // the hook walks a map: keep the observation deterministic
	return order, pr
}

func main() { mc.Main("C18", run) }

func run(c *mc.Ctx) {
	// one "case" here is the exploration of every schedule of a program (seconds to minutes in the thorough tier);
	// the scheduler has its own deadlock / livelock / horizon detection, so the engine's per-case watchdog is off
	c.CaseTimeout = 0
	initKeys(c.Seed)
	seqClosure(c)
	lruInterleavings(c)
	verifierInterleavings(c)
	// the same three explorations over the near-colliding keys: universe {k0, -k0, k1, k1', ...}
	subSuffix = "/colliding-keys"
	withKeyOrder([nKeys]int{0, 3, 1, 5, 2, 4}, func() {
		seqClosure(c)
		lruInterleavings(c)
		if c.Thorough { // (the Verifier reaches the cache only through Get/Put, which the two passes above drive directly)
			verifierInterleavings(c)
		}
	})
	subSuffix = ""
	if atomic.LoadInt32(&uninspectable) == 1 {
		c.Cap("the LRU cache's representation could not be read by the accessor (it no longer has a map keyed by the compressed key + container/list + int capacity): structural invariants and the recency order were not observed; every Get/Put result was still compared with the sequential model")
	}
}

// ---- (a) sequential closure -------------------------------------------------

func seqClosure(c *mc.Ctx) {
	type cfg struct{ cap, univ int }
	cfgs := []cfg{{1, 3}, {2, 4}, {3, 5}}
	if c.Thorough {
		cfgs = append(cfgs, cfg{4, 6}, cfg{3, 6})
	}
	c.Seq("lru-seq-closure"+subSuffix, len(cfgs), func(w *mc.W, ci int) {
		g := cfgs[ci]
		var alphabet []op
		for k := 0; k < g.univ; k++ {
			alphabet = append(alphabet, op{false, k}, op{true, k})
		}
		seen := map[string][]op{"[]": nil}
		frontier := [][]op{nil}
		states, trans := 1, 0
		for len(frontier) > 0 {
			h := frontier[0]
			frontier = frontier[1:]
			for _, o := range alphabet {
				// successor = replay of the shortest history on a fresh real cache + one operation
				real := cache.NewLRUCache(g.cap)
				m := &model{cap: g.cap}
				handed = handed[:0]
				for _, p := range h {
					got := apply(real, p)
					want := -1
					if p.put {
						m.put(p.k)
					} else {
						want = m.get(p.k)
					}
					if got != want {
						c.Broken(fmt.Sprintf("divergence while replaying a known-good prefix %v", h))
						return
					}
				}
				got := apply(real, o)
				want := -1
				if o.put {
					m.put(o.k)
				} else {
					want = m.get(o.k)
				}
				trans++
				c.Rep.Traces++
				hist := append(append([]op{}, h...), o)
				cas := map[string]interface{}{"capacity": g.cap, "history": fmt.Sprint(hist)}
				if got != want {
					w.Fail("lruCache/sequential-result", fmt.Sprintf("cap=%d history %v: %v returned key %d, model %d", g.cap, hist, o, got, want), cas)
				}
				ord, pr := realState(real)
				if len(pr) > 0 {
					w.Fail("lruCache/invariant", fmt.Sprintf("cap=%d history %v: %s", g.cap, hist, strings.Join(pr, "; ")), cas)
				}
				if msg := checkHanded(); msg != "" {
					w.Fail("lruCache/object-overwritten", fmt.Sprintf("cap=%d history %v: %s", g.cap, hist, msg), cas)
				}
				if atomic.LoadInt32(&uninspectable) == 1 {
					ord = append([]int{}, m.order...) // behavioural mode: the model's state stands in for the real one
				}
				if fmt.Sprint(ord) != m.key() {
					w.Fail("lruCache/lru-order", fmt.Sprintf("cap=%d history %v: recency order %v, model %v", g.cap, hist, ord, m.order), cas)
				}
				w.Eval(fmt.Sprintf("seq/cap=%d", g.cap), len(m.order) == g.cap)
				// the canonical state key is read from the REAL object
				k := fmt.Sprint(ord)
				if _, ok := seen[k]; !ok {
					seen[k] = hist
					states++
					frontier = append(frontier, hist)
				}
			}
		}
		c.Rep.States += int64(states)
		c.Rep.Transitions += int64(trans)
		w.Sample(map[string]interface{}{"part": "sequential closure", "capacity": g.cap, "universe": g.univ, "reachable_states": states, "transitions": trans})
	})
}

// ---- (b) interleavings on the real lruCache ---------------------------------

type rec struct {
	th, idx  int
	o        op
	res      int
	inv, ret int
}

// linearizable searches a real-time-respecting total order whose sequential
// model run reproduces every result and the final state.
func linearizable(cap int, recs []rec, final []int) (bool, []int) {
	return linearizableF(cap, recs, final, true)
}

// linearizableF: with finalKnown == false the final state is not part of the oracle (behavioural mode: the caller has
// appended sequential probe operations to recs instead).
func linearizableF(cap int, recs []rec, final []int, finalKnown bool) (bool, []int) {
	n := len(recs)
	used := make([]bool, n)
	order := make([]int, 0, n)
	finalKey := fmt.Sprint(final)
	var dfs func(m *model) bool
	dfs = func(m *model) bool {
		if len(order) == n {
			return !finalKnown || m.key() == finalKey
		}
		for i := 0; i < n; i++ {
			if used[i] {
				continue
			}
			// real-time order: i may come next only if no unused j returned before i was invoked
			ok := true
			for j := 0; j < n; j++ {
				if !used[j] && j != i && recs[j].ret < recs[i].inv {
					ok = false
					break
				}
			}
			if !ok {
				continue
			}
			m2 := m.clone()
			want := -1
			if recs[i].o.put {
				m2.put(recs[i].o.k)
			} else {
				want = m2.get(recs[i].o.k)
			}
			if want != recs[i].res {
				continue
			}
			used[i] = true
			order = append(order, i)
			if dfs(m2) {
				return true
			}
			order = order[:len(order)-1]
			used[i] = false
		}
		return false
	}
	// try critical-section order first (sorted by return time): cheap common case
	idx := make([]int, n)
	for i := range idx {
		idx[i] = i
	}
	sort.Slice(idx, func(a, b int) bool { return recs[idx[a]].ret < recs[idx[b]].ret })
	m := &model{cap: cap}
	good := true
	for _, i := range idx {
		want := -1
		if recs[i].o.put {
			m.put(recs[i].o.k)
		} else {
			want = m.get(recs[i].o.k)
		}
		if want != recs[i].res {
			good = false
			break
		}
	}
	if good && (!finalKnown || m.key() == finalKey) {
		return true, idx
	}
	if dfs(&model{cap: cap}) {
		return true, order
	}
	return false, nil
}

type shape struct{ threads, ops int }

func lruInterleavings(c *mc.Ctx) {
	const nk = 3
	alphabet := []op{}
	for k := 0; k < nk; k++ {
		alphabet = append(alphabet, op{false, k}, op{true, k})
	}
	shapes := []shape{{2, 1}, {2, 2}, {3, 1}}
	if c.Thorough {
		shapes = append(shapes, shape{3, 2}, shape{2, 3})
	}
	for _, sh := range shapes {
		for _, cp := range []int{1, 2} {
			sh, cp := sh, cp
			slots := sh.threads * sh.ops
			nprog := 1
			for i := 0; i < slots; i++ {
				nprog *= len(alphabet)
			}
			sub := fmt.Sprintf("lru-interleave/T%dx%d/cap%d", sh.threads, sh.ops, cp) + subSuffix
			outcomes := map[string]bool{}
			var schedules, unprot int64
			c.Seq(sub, nprog, func(w *mc.W, pi int) {
				prog := make([][]op, sh.threads)
				x := pi
				for t := 0; t < sh.threads; t++ {
					for j := 0; j < sh.ops; j++ {
						prog[t] = append(prog[t], alphabet[x%len(alphabet)])
						x /= len(alphabet)
					}
				}
				// thread-permutation symmetry: only programs whose thread op-lists are sorted are explored
				// (permuting whole threads permutes schedules one-to-one and changes no observation).
				for t := 1; t < sh.threads; t++ {
					if fmt.Sprint(prog[t-1]) > fmt.Sprint(prog[t]) {
						return
					}
				}
				collide := false
				kc := map[int]int{}
				for t := range prog {
					s := map[int]bool{}
					for _, o := range prog[t] {
						s[o.k] = true
					}
					for k := range s {
						kc[k]++
						if kc[k] > 1 {
							collide = true
						}
					}
				}
				n, u, tl := exploreLRU(c, w, cp, prog, outcomes, 0)
				schedules += n
				c.Rep.Programs++
				if tl > 0 {
					// the cache uses TryLock: a failed attempt needs the holder preempted inside its critical
					// section - statement-level points everywhere (preemption bound 2)
					unprot++
					n2, _, _ := exploreLRU(c, w, cp, prog, outcomes, 2)
					schedules += n2
				} else if u > 0 {
					// some statement touched the cache outside a critical section: explore statement-level
					// interleavings too (preemption bound 2)
					unprot++
					n2, _, _ := exploreLRU(c, w, cp, prog, outcomes, 1)
					schedules += n2
				}
				w.Eval(fmt.Sprintf("lru-interleave/T%dx%d/cap%d/collide=%v", sh.threads, sh.ops, cp, collide), collide)
				if pi%997 == 0 {
					w.Sample(map[string]interface{}{"part": "lru interleavings", "capacity": cp, "program": fmt.Sprint(prog), "schedules": n})
				}
			})
			c.Rep.Schedules += schedules
			c.Rep.Traces += schedules
			c.Rep.Transitions += schedules
			c.Rep.States += int64(len(outcomes))
			if !c.Replaying() {
				ex, _ := c.Rep.Extra["distinct_outcomes"].(map[string]int)
				if ex == nil {
					ex = map[string]int{}
				}
				ex[sub] = len(outcomes)
				c.Rep.Extra["distinct_outcomes"] = ex
				if unprot > 0 {
					c.Rep.Extra["programs_with_unprotected_steps/"+sub] = unprot
				}
			}
		}
	}
}

// exploreLRU explores the schedules of one program.  mode 0: points at lock operations; 1: also at every statement
// outside critical sections (preemption bound 2); 2: also at every statement INSIDE critical sections (bound 2) - used
// when the code calls TryLock, whose failure is only reachable while the holder is preempted.  Returns executions, the
// number of unprotected steps and the number of TryLock calls seen.
func exploreLRU(c *mc.Ctx, w *mc.W, cp int, prog [][]op, outcomes map[string]bool, mode int) (int64, int, int) {
	allSteps := mode >= 1
	var real cache.Cache
	var recs []rec
	unprot, trylocks := 0, 0
	runOnce := func(prefix []int) *sched.Exec {
		real = cache.NewLRUCache(cp)
		recs = recs[:0]
		handed = handed[:0]
		bodies := make([]func(e *sched.Exec), len(prog))
		for t := range prog {
			t := t
			bodies[t] = func(e *sched.Exec) {
				for j, o := range prog[t] {
					inv := e.Tick()
					res := apply(real, o)
					ret := e.Tick()
					recs = append(recs, rec{t, j, o, res, inv, ret})
				}
			}
		}
		return sched.RunOpts(prefix, allSteps, mode >= 2, bodies)
	}
	observe := func(e *sched.Exec) string {
		ord, pr := realState(real)
		rs := append([]rec{}, recs...)
		sort.Slice(rs, func(a, b int) bool {
			if rs[a].th != rs[b].th {
				return rs[a].th < rs[b].th
			}
			return rs[a].idx < rs[b].idx
		})
		s := ""
		for _, r := range rs {
			s += fmt.Sprintf("%d.%d=%d;", r.th, r.idx, r.res)
		}
		return fmt.Sprintf("%s final=%v problems=%v deadlock=%v panics=%d", s, ord, pr, e.Deadlock, len(e.Panics))
	}
	bound := -1
	if allSteps {
		bound = 2
	}
	st := sched.Explore(bound, 2_000_000, runOnce, func(e *sched.Exec) bool {
		if e.UnprotectedSteps > unprot {
			unprot = e.UnprotectedSteps
		}
		if e.TryLocks > trylocks {
			trylocks = e.TryLocks
		}
		if e.Diverged {
			c.Broken("schedule replay diverged (nondeterminism in the harness)")
			return false
		}
		obs := observe(e)
		outcomes[fmt.Sprintf("cap%d|%v|%s", cp, prog, obs)] = true
		fail := func(key, desc string) {
			// determinism before belief: the same schedule must give the same observation
			e2 := runOnce(e.Choices)
			if obs2 := observe(e2); obs2 != obs {
				c.Broken(fmt.Sprintf("schedule %v not reproducible: %q vs %q", e.Choices, obs, obs2))
				return
			}
			w.Fail(key, fmt.Sprintf("cap=%d program=%v schedule=%v allSteps=%v: %s [%s]", cp, prog, e.Choices, allSteps, desc, obs),
				map[string]interface{}{"capacity": cp, "program": fmt.Sprint(prog), "schedule": e.Choices, "all_steps": allSteps})
		}
		if len(e.Panics) > 0 {
			fail("lruCache/panic-under-interleaving", e.Panics[0])
			return true
		}
		if e.Deadlock {
			fail("lruCache/deadlock", "no enabled thread but unfinished threads")
			return true
		}
		ord, pr := realState(real)
		if len(pr) > 0 {
			fail("lruCache/invariant", strings.Join(pr, "; "))
			return true
		}
		for _, r := range recs {
			if r.res == -2 || (r.res >= 0 && r.res != r.o.k) {
				fail("lruCache/foreign-expansion", fmt.Sprintf("%v returned the expansion of key %d", r.o, r.res))
				return true
			}
		}
		if atomic.LoadInt32(&uninspectable) == 1 {
			// behavioural mode (the representation cannot be read): the final state is observed by probing - one
			// sequential Get per key of the universe after quiescence, appended to the history
			recs2 := append([]rec{}, recs...)
			t := 0
			for _, r := range recs {
				if r.ret > t {
					t = r.ret
				}
			}
			for k := 0; k < 3; k++ {
				t += 2
				recs2 = append(recs2, rec{th: 99, idx: k, o: op{false, k}, res: apply(real, op{false, k}), inv: t, ret: t + 1})
			}
			if ok, _ := linearizableF(cp, recs2, nil, false); !ok {
				fail("lruCache/not-linearizable", "no sequential LRU execution explains the call/return history followed by a probe Get of every key")
				return true
			}
		} else if ok, _ := linearizable(cp, recs, ord); !ok {
			fail("lruCache/not-linearizable", "no sequential LRU execution explains the call/return history and final state")
			return true
		}
		if msg := checkHanded(); msg != "" {
			fail("lruCache/object-overwritten", msg)
		}
		return true
	})
	if st.Capped {
		c.Cap(fmt.Sprintf("schedule cap hit for program %v", prog))
	}
	return st.Executions, unprot, trylocks
}

// ---- (c) interleavings on the caching verifier ------------------------------

type vop struct {
	kind int // 0 verify valid, 1 verify bad sig, 2 AddPublicKey, 3 verify under undecodable key, 4 batch add valid
	k    int
}

func (o vop) String() string {
	return [...]string{"Verify(ok)", "Verify(badsig)", "AddPublicKey", "Verify(badkey)", "BatchAdd"}[o.kind] + fmt.Sprintf("[k%d]", o.k)
}

type checkedCache struct {
	inner   cache.Cache
	foreign *int
}

func (c *checkedCache) Get(k *curve.CompressedEdwardsY) *ed25519.ExpandedPublicKey {
	r := c.inner.Get(k)
	if r != nil && r.CompressedY() != *k {
		*c.foreign++
	}
	return r
}
func (c *checkedCache) Put(k *curve.CompressedEdwardsY, e *ed25519.ExpandedPublicKey) {
	c.inner.Put(k, e)
}

func verifierInterleavings(c *mc.Ctx) {
	msg := []byte("c18 message")
	var sigs [nKeys][]byte
	var bad [nKeys][]byte
	for i := range sigs {
		sigs[i] = ed25519.Sign(priv[i], msg)
		bad[i] = append([]byte{}, sigs[i]...)
		bad[i][5] ^= 1
	}
	// an undecodable key: find y not on the curve
	badKey := make([]byte, 32)
	for y := byte(2); ; y++ {
		badKey[0] = y
		if _, err := ed25519.NewExpandedPublicKey(badKey); err != nil {
			break
		}
	}
	opts := &ed25519.Options{}
	plain := func(o vop) bool {
		switch o.kind {
		case 0, 4:
			return ed25519.VerifyWithOptions(keys[o.k][:], msg, sigs[o.k], opts)
		case 1:
			return ed25519.VerifyWithOptions(keys[o.k][:], msg, bad[o.k], opts)
		case 3:
			return ed25519.VerifyWithOptions(badKey, msg, sigs[o.k], opts)
		}
		return true
	}
	nk := 2
	kinds := []int{0, 1, 2, 3}
	if c.Thorough {
		nk = 3
		kinds = []int{0, 1, 2, 3, 4}
	}
	var alphabet []vop
	for k := 0; k < nk; k++ {
		for _, kd := range kinds {
			if kd == 3 && k > 0 {
				continue
			}
			alphabet = append(alphabet, vop{kd, k})
		}
	}
	expect := map[vop]bool{}
	for _, o := range alphabet {
		expect[o] = plain(o)
	}
	// explore runs every program over alph of the given shapes.  allSteps=false: scheduling points at lock operations,
	// every schedule; allSteps=true: also at every statement of the (instrumented) cache.go outside critical sections,
	// preemption bound `bound` - the Verifier's own code between its cache calls (a lock-free memo, a check-then-act on
	// two atomics) is then interleaved as well.
	explore := func(prefix string, alphabet []vop, shapes []shape, caps []int, allSteps bool, bound int) {
		for _, sh := range shapes {
			for _, cp := range caps {
				sh, cp := sh, cp
				if !c.Thorough && sh.threads*sh.ops > 3 && cp == 2 && !allSteps {
					continue
				}
				slots := sh.threads * sh.ops
				nprog := 1
				for i := 0; i < slots; i++ {
					nprog *= len(alphabet)
				}
				sub := fmt.Sprintf("%s/T%dx%d/cap%d", prefix, sh.threads, sh.ops, cp) + subSuffix
				var schedules int64
				outcomes := map[string]bool{}
				c.Seq(sub, nprog, func(w *mc.W, pi int) {
					prog := make([][]vop, sh.threads)
					x := pi
					for t := 0; t < sh.threads; t++ {
						for j := 0; j < sh.ops; j++ {
							prog[t] = append(prog[t], alphabet[x%len(alphabet)])
							x /= len(alphabet)
						}
					}
					for t := 1; t < sh.threads; t++ {
						if fmt.Sprint(prog[t-1]) > fmt.Sprint(prog[t]) {
							return
						}
					}
					var real cache.Cache
					var foreign int
					var results [][]bool
					var bv *ed25519.BatchVerifier
					var batchWant []bool
					runOnce := func(prefix []int) *sched.Exec {
						real = cache.NewLRUCache(cp)
						foreign = 0
						v := cache.NewVerifier(&checkedCache{real, &foreign})
						results = make([][]bool, sh.threads)
						bv = ed25519.NewBatchVerifier()
						batchWant = nil
						bodies := make([]func(e *sched.Exec), sh.threads)
						for t := range prog {
							t := t
							results[t] = make([]bool, len(prog[t]))
							bodies[t] = func(e *sched.Exec) {
								for j, o := range prog[t] {
									switch o.kind {
									case 0:
										results[t][j] = v.VerifyWithOptions(keys[o.k][:], msg, sigs[o.k], opts)
									case 1:
										results[t][j] = v.VerifyWithOptions(keys[o.k][:], msg, bad[o.k], opts)
									case 2:
										v.AddPublicKey(keys[o.k][:])
										results[t][j] = true
									case 3:
										results[t][j] = v.VerifyWithOptions(badKey, msg, sigs[o.k], opts)
									case 4:
										// the batch verifier itself is not shared between goroutines by contract: one thread owns it
										if t == 0 {
											v.AddWithOptions(bv, keys[o.k][:], msg, sigs[o.k], opts)
											batchWant = append(batchWant, expect[o])
										} else {
											v.AddPublicKey(keys[o.k][:])
										}
										results[t][j] = expect[o] // (no decision of its own: the batch is checked below)
									}
								}
							}
						}
						return sched.Run(prefix, allSteps, bodies)
					}
					st := sched.Explore(bound, 500_000, runOnce, func(e *sched.Exec) bool {
						cas := map[string]interface{}{"capacity": cp, "program": fmt.Sprint(prog), "schedule": e.Choices}
						desc := fmt.Sprintf("cap=%d program=%v schedule=%v", cp, prog, e.Choices)
						if e.Diverged {
							c.Broken("verifier schedule replay diverged")
							return false
						}
						if len(e.Panics) > 0 {
							w.Fail("cache.Verifier/panic-under-interleaving", desc+": "+e.Panics[0], cas)
							return true
						}
						if e.Deadlock {
							w.Fail("cache.Verifier/deadlock", desc, cas)
							return true
						}
						for t := range prog {
							for j, o := range prog[t] {
								if results[t][j] != expect[o] {
									w.Fail("cache.Verifier/decision", fmt.Sprintf("%s: %v returned %v, plain verification %v", desc, o, results[t][j], expect[o]), cas)
								}
							}
						}
						if foreign > 0 {
							w.Fail("cache.Verifier/foreign-expansion", desc+": cache returned another key's expansion", cas)
						}
						ord, pr := realState(real)
						if len(pr) > 0 {
							w.Fail("lruCache/invariant", desc+": "+strings.Join(pr, "; "), cas)
						}
						if len(batchWant) > 0 {
							all, each := bv.Verify(nil)
							wantAll := true
							for _, b := range batchWant {
								wantAll = wantAll && b
							}
							if all != wantAll || fmt.Sprint(each) != fmt.Sprint(batchWant) {
								w.Fail("cache.Verifier/batch", fmt.Sprintf("%s: batch filled through the cache: Verify = %v %v, plain verification of the members %v", desc, all, each, batchWant), cas)
							}
						}
						outcomes[fmt.Sprintf("%v|%v|%v", prog, results, ord)] = true
						return true
					})
					if st.Capped {
						c.Cap(fmt.Sprintf("schedule cap hit for verifier program %v", prog))
					}
					schedules += st.Executions
					c.Rep.Programs++
					w.Eval(sub, true)
					if pi%499 == 0 {
						w.Sample(map[string]interface{}{"part": "verifier interleavings", "capacity": cp, "program": fmt.Sprint(prog), "schedules": st.Executions})
					}
				})
				c.Rep.Schedules += schedules
				c.Rep.Traces += schedules
				c.Rep.Transitions += schedules
				c.Rep.States += int64(len(outcomes))
			}
		}
	}
	explore("verifier-interleave", alphabet, []shape{{2, 1}, {2, 2}, {3, 1}}, []int{1, 2}, false, -1)
	// statement level: verify / add-key programs over two keys (what a memo in front of the cache can confuse)
	var small, tiny []vop
	for _, o := range alphabet {
		if o.k < 2 && (o.kind == 0 || o.kind == 2) {
			small = append(small, o)
		}
		if o.k < 2 && o.kind == 0 {
			tiny = append(tiny, o)
		}
	}
	explore("verifier-statements", small, []shape{{2, 1}, {3, 1}}, []int{1, 2}, true, 2)
	explore("verifier-statements", tiny, []shape{{2, 2}}, []int{1, 2}, true, 2)
	if c.Thorough {
		explore("verifier-statements", tiny, []shape{{3, 2}, {2, 3}}, []int{1, 2}, true, 2)
	}
}
