//go:build !verifmin

package main

import (
	"encoding/binary"
	"fmt"

	"github.com/oasisprotocol/curve25519-voi/internal/strobe"
	"github.com/oasisprotocol/curve25519-voi/internal/verif/mc"
	"github.com/oasisprotocol/curve25519-voi/internal/verif/ref/refstrobe"
)

// ---------------------------------------------------------------------------
// The Keccak permutation of this build vs the plain-loop reference
// ---------------------------------------------------------------------------

func keccakCheck(c *mc.Ctx) {
	nGen := c.Pick(2000, 50000)
	n := 1600 + 4 + nGen
	c.Par("keccak", n, func(w *mc.W, i int) {
		var st [200]byte
		class := "keccak/generic"
		switch {
		case i < 1600:
			st[i/8] = 1 << (uint(i) % 8)
			class = "keccak/single-bit"
		case i == 1600:
			class = "keccak/fixed"
		case i == 1601:
			for k := range st {
				st[k] = 0xff
			}
			class = "keccak/fixed"
		case i == 1602:
			for k := range st {
				st[k] = 0x55
			}
			class = "keccak/fixed"
		case i == 1603:
			for k := range st {
				st[k] = byte(k)
			}
			class = "keccak/fixed"
		default:
			copy(st[:], mc.Bytes(c.Seed, "keccak", i, 200))
			if i%3 == 0 { // sparse states
				for k := range st {
					if k%7 != i%7 {
						st[k] = 0
					}
				}
			}
		}
		in := st
		want := st
		refstrobe.KeccakF1600(&want)
		got := st
		strobe.VerifKeccakF1600Bytes(&got)
		w.Eval(class, true)
		if got != want {
			w.Fail("keccak/permutation", fmt.Sprintf("keccakF1600Bytes(%x) differs from the FIPS 202 reference (first bytes %x want %x)", in, got[:16], want[:16]), map[string]string{"state": mc.Hex(in[:])})
		}
		var lanes [25]uint64
		for k := range lanes {
			lanes[k] = binary.LittleEndian.Uint64(in[8*k:])
		}
		strobe.VerifKeccakF1600Lanes(&lanes)
		for k := range lanes {
			if lanes[k] != binary.LittleEndian.Uint64(want[8*k:]) {
				w.Fail("keccak/permutation-lanes", fmt.Sprintf("keccakF1600(%x) lane %d differs from the FIPS 202 reference", in, k), map[string]string{"state": mc.Hex(in[:])})
				break
			}
		}
		// iterating the permutation (the state of a long squeeze)
		if i%50 == 0 {
			a, b := in, in
			for k := 0; k < 8; k++ {
				refstrobe.KeccakF1600(&a)
				strobe.VerifKeccakF1600Bytes(&b)
			}
			if a != b {
				w.Fail("keccak/permutation", fmt.Sprintf("8-fold iteration from %x differs", in), map[string]string{"state": mc.Hex(in[:])})
			}
		}
		if i%701 == 0 {
			w.Sample(map[string]string{"op": "keccak-f[1600]", "state_prefix": mc.Hex(in[:24])})
		}
	})
	c.Require("keccak/single-bit", 1600)
}
