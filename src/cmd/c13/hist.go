package main

import (
	"bytes"
	"crypto/sha256"
	"encoding/binary"
	"errors"
	"fmt"
	"io"
	"strings"

	"github.com/oasisprotocol/curve25519-voi/internal/strobe"
	"github.com/oasisprotocol/curve25519-voi/internal/verif/mc"
	"github.com/oasisprotocol/curve25519-voi/internal/verif/ref/refstrobe"
	"github.com/oasisprotocol/curve25519-voi/primitives/merlin"
)

// ---------------------------------------------------------------------------
// Operation alphabet
// ---------------------------------------------------------------------------

type opKind uint8

const (
	kAppend   opKind = iota // AppendMessage(label, n bytes)
	kExtract                // ExtractBytes(label, n)
	kCloneA                 // Clone; the history continues on the CLONE, the origin is retained
	kCloneB                 // Clone; the history continues on the ORIGIN, the clone is retained
	kBuildRng               // BuildRng; continues on the builder, the transcript is retained
	kRekey                  // RekeyWithWitnessBytes(label, n bytes)
	kFinalize               // Finalize(reader)
	kRead                   // Read(n) on the transcript RNG
)

var kindName = [...]string{"AppendMessage", "ExtractBytes", "Clone>clone", "Clone>origin", "BuildRng", "RekeyWithWitnessBytes", "Finalize", "Read"}

// Object types a history can be "on".
const (
	tTranscript = 0
	tBuilder    = 1
	tRng        = 2
)

// Entropy readers for Finalize.
const (
	rdZero    = iota // 32 zero bytes
	rdFF             // 32 0xff bytes
	rdGeneric        // seed-derived stream
	rdByte           // the same seed-derived stream, delivered one byte per Read call
	rdFail31         // delivers 31 bytes, then fails
	rdEmpty          // fails immediately
	rdChunk7         // the generic stream, 7 bytes per Read call (short reads with a nil error)
	rdChunk16        // 16 bytes per Read call
	rdChunk31        // 31 bytes per Read call
	nReaders
)

var readerName = [...]string{"zero", "ff", "generic", "generic-1-byte-reads", "fails-after-31", "empty", "generic-7-byte-reads", "generic-16-byte-reads", "generic-31-byte-reads"}

// op is one operation instance.  Labels and data are constant-filled strings
// ('a' unless fill says otherwise), so that histories which split the same
// bytes differently between labels, messages and calls differ ONLY in framing.
type op struct {
	kind   opKind
	label  int  // label length
	n      int  // data / output length
	fill   byte // data fill byte (0 = 'a')
	reader int  // Finalize only
}

func (o op) on() int {
	switch o.kind {
	case kRekey, kFinalize:
		return tBuilder
	case kRead:
		return tRng
	}
	return tTranscript
}

func (o op) fails() bool { return o.kind == kFinalize && (o.reader == rdFail31 || o.reader == rdEmpty) }

// yields is the type of the object the history continues on.
func (o op) yields() int {
	switch {
	case o.kind == kBuildRng:
		return tBuilder
	case o.kind == kFinalize && !o.fails():
		return tRng
	}
	return o.on()
}

func (o op) String() string {
	switch o.kind {
	case kAppend, kRekey:
		return fmt.Sprintf("%s(label='a'*%d, %d bytes of 0x%02x)", kindName[o.kind], o.label, o.n, o.fillByte())
	case kExtract:
		return fmt.Sprintf("ExtractBytes(label='a'*%d, %d)", o.label, o.n)
	case kFinalize:
		return fmt.Sprintf("Finalize(%s reader)", readerName[o.reader])
	case kRead:
		return fmt.Sprintf("Read(%d)", o.n)
	}
	return kindName[o.kind]
}

func (o op) fillByte() byte {
	if o.fill == 0 {
		return 'a'
	}
	return o.fill
}

var aaa = strings.Repeat("a", 1024)

func labelOf(n int) string { return aaa[:n] }

func dataOf(o op) []byte {
	return bytes.Repeat([]byte{o.fillByte()}, o.n)
}

// hist is a creation followed by operations.
type hist struct {
	create int // NewTranscript label length
	ops    []op
}

func (h hist) String() string {
	var sb strings.Builder
	fmt.Fprintf(&sb, "NewTranscript('a'*%d)", h.create)
	for _, o := range h.ops {
		sb.WriteString("; ")
		sb.WriteString(o.String())
	}
	return sb.String()
}

// ---------------------------------------------------------------------------
// Entropy readers
// ---------------------------------------------------------------------------

type byteReader struct{ b []byte }

func (r *byteReader) Read(p []byte) (int, error) {
	if len(p) == 0 {
		return 0, nil
	}
	if len(r.b) == 0 {
		return 0, io.EOF
	}
	p[0] = r.b[0]
	r.b = r.b[1:]
	return 1, nil
}

// chunkReader delivers at most n bytes per call, with a nil error.
type chunkReader struct {
	b []byte
	n int
}

func (r *chunkReader) Read(p []byte) (int, error) {
	if len(p) == 0 {
		return 0, nil
	}
	if len(r.b) == 0 {
		return 0, io.EOF
	}
	n := r.n
	if n > len(p) {
		n = len(p)
	}
	if n > len(r.b) {
		n = len(r.b)
	}
	copy(p, r.b[:n])
	r.b = r.b[n:]
	return n, nil
}

type failReader struct {
	b   []byte
	err error
}

func (r *failReader) Read(p []byte) (int, error) {
	if len(r.b) == 0 {
		return 0, r.err
	}
	n := copy(p, r.b)
	r.b = r.b[n:]
	return n, nil
}

var genericEntropy []byte

func entropy(kind int) []byte {
	switch kind {
	case rdZero:
		return make([]byte, 32)
	case rdFF:
		return bytes.Repeat([]byte{0xff}, 32)
	case rdGeneric, rdByte, rdChunk7, rdChunk16, rdChunk31:
		return genericEntropy[:32]
	}
	return nil
}

func mkReader(kind int) io.Reader {
	switch kind {
	case rdZero, rdFF, rdGeneric:
		// hand out more than 32 bytes: Finalize must consume exactly the first 32
		return bytes.NewReader(append(append([]byte{}, entropy(kind)...), genericEntropy[32:64]...))
	case rdByte:
		return &byteReader{b: append([]byte{}, genericEntropy[:64]...)}
	case rdChunk7, rdChunk16, rdChunk31:
		return &chunkReader{b: append([]byte{}, genericEntropy[:64]...), n: map[int]int{rdChunk7: 7, rdChunk16: 16, rdChunk31: 31}[kind]}
	case rdFail31:
		return &failReader{b: append([]byte{}, genericEntropy[:31]...), err: errors.New("verif: entropy source failed")}
	}
	return &failReader{err: io.EOF}
}

// ---------------------------------------------------------------------------
// Tracked objects: a real object, its reference twin, its normalised history
// ---------------------------------------------------------------------------

type tracked struct {
	typ int
	// real
	t *merlin.Transcript
	b *merlin.TranscriptRngBuilder
	r io.Reader
	// reference (always a fresh, un-cloned replay of h)
	rt *refstrobe.Transcript
	rb *refstrobe.RngBuilder
	rr *refstrobe.Rng
	// normalised history of this object: clone operations and failed Finalize calls dropped
	h    hist
	role string
	key  uint64    // canonical key of the last observed real state
	snap [208]byte // the last observed real state itself
}

func (o *tracked) realStrobe() *strobe.Strobe {
	switch o.typ {
	case tTranscript:
		return merlin.VerifStrobe(o.t)
	case tBuilder:
		return merlin.VerifBuilderStrobe(o.b)
	}
	return merlin.VerifRngStrobe(o.r)
}

func (o *tracked) refStrobe() *refstrobe.Strobe {
	switch o.typ {
	case tTranscript:
		return o.rt.S
	case tBuilder:
		return o.rb.S
	}
	return o.rr.S
}

// refReplay builds a fresh reference object by replaying a normalised history
// (no clone is involved: this is the "un-cloned replay").
func refReplay(h hist) *tracked {
	o := &tracked{typ: tTranscript, rt: refstrobe.NewTranscript([]byte(labelOf(h.create)))}
	for _, p := range h.ops {
		refApply(o, p)
	}
	return o
}

func refApply(o *tracked, p op) (out []byte) {
	switch p.kind {
	case kAppend:
		o.rt.AppendMessage([]byte(labelOf(p.label)), dataOf(p))
	case kExtract:
		out = o.rt.ChallengeBytes([]byte(labelOf(p.label)), p.n)
	case kBuildRng:
		o.rb = o.rt.BuildRng()
		o.rt = nil
		o.typ = tBuilder
	case kRekey:
		o.rb.RekeyWithWitnessBytes([]byte(labelOf(p.label)), dataOf(p))
	case kFinalize:
		if !p.fails() {
			o.rr = o.rb.Finalize(entropy(p.reader))
			o.rb = nil
			o.typ = tRng
		}
	case kRead:
		out = o.rr.FillBytes(p.n)
	default:
		panic("refApply: clone operations are not part of a normalised history")
	}
	return out
}

// ---------------------------------------------------------------------------
// Execution of one history on the implementation, step-compared with the reference
// ---------------------------------------------------------------------------

type failure struct{ key, desc string }

type chalRec struct {
	key [16]byte // first 16 bytes of a challenge / RNG output of >= 16 bytes
	dig uint64   // digest of the normalised history that produced it
}

type result struct {
	fails  []failure
	chals  []chalRec
	states []uint64 // canonical keys of every real state observed
	trans  []uint64 // keys of every (state, operation) pair executed
	stat   refstrobe.Stats
	nobj   int
	last   []byte // the closing output of the object the history ended on
}

type exec struct {
	res  *result
	full hist // the history as enumerated (with clone operations), for messages
	all  []*tracked
}

func (x *exec) fail(key, format string, a ...interface{}) {
	if len(x.res.fails) < 4 {
		x.res.fails = append(x.res.fails, failure{key, fmt.Sprintf(format, a...) + " | history: " + x.full.String()})
	}
}

// fieldsOf serialises every field of the real object (the whole state).
func fieldsOf(typ int, s *strobe.Strobe) (buf [208]byte) {
	st, pos, pb, cf, r, ini := strobe.VerifFields(s)
	copy(buf[:200], st[:])
	buf[200] = byte(pos)
	buf[201] = byte(pos >> 8)
	buf[202] = byte(pb)
	buf[203] = byte(pb >> 8)
	buf[204] = cf
	buf[205] = byte(r)
	if ini {
		buf[206] = 1
	}
	buf[207] = byte(typ)
	return buf
}

func stateKey(buf *[208]byte) uint64 {
	d := sha256.Sum256(buf[:])
	return binary.LittleEndian.Uint64(d[:8])
}

func opRecord(buf []byte, p op) []byte {
	buf = append(buf, byte(p.kind), byte(p.label), byte(p.label>>8), byte(p.n), byte(p.n>>8), byte(p.n>>16), byte(p.n>>24), p.fillByte())
	if p.kind == kFinalize {
		buf = append(buf, entropy(p.reader)...)
	}
	return buf
}

func histDigest(h hist) uint64 {
	buf := make([]byte, 0, 16+len(h.ops)*12)
	buf = append(buf, byte(h.create), byte(h.create>>8))
	for _, p := range h.ops {
		buf = opRecord(buf, p)
	}
	d := sha256.Sum256(buf)
	return binary.LittleEndian.Uint64(d[:8])
}

// stateHook is false when the STROBE state can no longer be read from the tree under test through the
// reflection hooks; state comparisons are then skipped (outputs are still compared, the run is capped).
var stateHook = true

// missingField names the components (pos, posBegin, curFlags) that cannot be read any more; they are not compared.
var missingField = map[string]bool{}

// observe compares the real state of o with its reference twin and records the state key.
func (x *exec) observe(o *tracked, after string) {
	if !stateHook {
		return
	}
	s := o.realStrobe()
	if s == nil {
		x.fail("merlin/"+after+"/object", "%s: the %s has no STROBE state after %s", o.role, [...]string{"transcript", "builder", "rng"}[o.typ], after)
		return
	}
	st, pos, pb, cf, r, ini := strobe.VerifFields(s)
	rs := o.refStrobe()
	if missingField["pos"] {
		pos = rs.Pos
	}
	if missingField["posBegin"] {
		pb = rs.PosBegin
	}
	if missingField["curFlags"] {
		cf = rs.CurFlags
	}
	if *st != rs.St || pos != rs.Pos || pb != rs.PosBegin || cf != rs.CurFlags || r != rs.R || !ini {
		what := "sponge bytes"
		switch {
		case pos != rs.Pos:
			what = fmt.Sprintf("pos=%d want %d", pos, rs.Pos)
		case pb != rs.PosBegin:
			what = fmt.Sprintf("posBegin=%d want %d", pb, rs.PosBegin)
		case cf != rs.CurFlags:
			what = fmt.Sprintf("curFlags=%#x want %#x", cf, rs.CurFlags)
		case r != rs.R || !ini:
			what = fmt.Sprintf("rate=%d initialized=%v", r, ini)
		}
		x.fail("merlin/"+after+"/state", "%s: state after %s differs from the STROBE reference (%s)", o.role, after, what)
	}
	o.snap = fieldsOf(o.typ, s)
	o.key = stateKey(&o.snap)
	x.res.states = append(x.res.states, o.key)
}

func (x *exec) transition(pre uint64, p op) {
	var b [64]byte
	buf := b[:0]
	buf = append(buf, byte(pre), byte(pre>>8), byte(pre>>16), byte(pre>>24), byte(pre>>32), byte(pre>>40), byte(pre>>48), byte(pre>>56))
	buf = opRecord(buf, p)
	d := sha256.Sum256(buf)
	x.res.trans = append(x.res.trans, binary.LittleEndian.Uint64(d[:8]))
}

func (x *exec) output(o *tracked, p op, got, want []byte) {
	if !bytes.Equal(got, want) {
		x.fail("merlin/"+kindName[p.kind]+"/output", "%s: %s returned %s want %s", o.role, p, clip(got), clip(want))
	}
	if len(want) >= 16 {
		var k [16]byte
		copy(k[:], got)
		x.res.chals = append(x.res.chals, chalRec{k, histDigest(o.h)})
	}
}

func clip(b []byte) string {
	if len(b) > 40 {
		return fmt.Sprintf("%x..(%d bytes)", b[:40], len(b))
	}
	return mc.Hex(b)
}

func garbage(n int) []byte { return bytes.Repeat([]byte{0xa5}, n) }

// Caller memory (theme T1): every byte-slice argument is handed over as a sub-slice of a larger buffer,
// with guard bytes in front of it and, inside its spare CAPACITY, behind it.  Inputs must be unchanged and
// the guards intact after the call (an append to the argument, an off-by-one write, a wipe of the caller's
// buffer would show).
const (
	guardLen  = 24
	guardByte = 0xc3
)

type guarded struct {
	buf  []byte
	n    int
	fill byte
}

func newGuarded(n int, fill byte) *guarded {
	g := &guarded{buf: make([]byte, n+2*guardLen), n: n, fill: fill}
	for i := range g.buf {
		g.buf[i] = guardByte
	}
	for i := 0; i < n; i++ {
		g.buf[guardLen+i] = fill
	}
	return g
}

// slice has length n and capacity n+guardLen (the trailing guard lies in the spare capacity).
func (g *guarded) slice() []byte { return g.buf[guardLen : guardLen+g.n] }

func (g *guarded) guardsIntact() bool {
	for i := 0; i < guardLen; i++ {
		if g.buf[i] != guardByte || g.buf[guardLen+g.n+i] != guardByte {
			return false
		}
	}
	return true
}

// scribble overwrites the whole buffer (argument and guards).
func (g *guarded) scribble() {
	for i := range g.buf {
		g.buf[i] ^= 0x5a
	}
}

func (g *guarded) dataIntact() bool {
	for _, b := range g.slice() {
		if b != g.fill {
			return false
		}
	}
	return true
}

// apply executes p on the real object cur and on its reference twin and
// returns the object the history continues on.  step is used to alternate
// nil / empty slices for zero-length arguments.
func (x *exec) apply(cur *tracked, p op, step int) *tracked {
	if cur.typ != p.on() {
		panic("ill-typed history")
	}
	pre := cur.key
	x.transition(pre, p)
	name := kindName[p.kind]
	switch p.kind {
	case kAppend, kRekey:
		g := newGuarded(p.n, p.fillByte())
		d := g.slice()
		if p.n == 0 && step%2 == 1 {
			d = nil
		}
		if p.kind == kAppend {
			cur.t.AppendMessage(labelOf(p.label), d)
		} else {
			if ret := cur.b.RekeyWithWitnessBytes(labelOf(p.label), d); ret != cur.b {
				x.fail("merlin/RekeyWithWitnessBytes/return", "RekeyWithWitnessBytes did not return its receiver")
			}
		}
		if !g.dataIntact() || !g.guardsIntact() {
			x.fail("merlin/"+name+"/caller-memory", "%s modified the caller's buffer (data intact: %v, guard bytes around it intact: %v)", p, g.dataIntact(), g.guardsIntact())
		}
		// (T11/T12) the buffer is the caller's again: it is overwritten at once, so a transcript that kept a
		// reference into it instead of absorbing a copy goes wrong in every later state / output comparison
		g.scribble()
		refApply(cur, p)
		cur.h.ops = append(cur.h.ops, p)
		x.observe(cur, name)
	case kExtract:
		g := newGuarded(p.n, 0xa5)
		dest := g.slice()
		cur.t.ExtractBytes(dest, labelOf(p.label))
		if !g.guardsIntact() {
			x.fail("merlin/ExtractBytes/caller-memory", "%s wrote outside its destination", p)
		}
		want := refApply(cur, p)
		cur.h.ops = append(cur.h.ops, p)
		x.output(cur, p, dest, want)
		g.scribble() // the bytes handed out belong to the caller: overwriting them must not reach the transcript
		x.observe(cur, name)
	case kRead:
		g := newGuarded(p.n, 0xa5)
		dest := g.slice()
		n, err := cur.r.Read(dest)
		if n != p.n || err != nil {
			x.fail("merlin/Read/return", "Read(%d) returned (%d, %v)", p.n, n, err)
		}
		if !g.guardsIntact() {
			x.fail("merlin/Read/caller-memory", "%s wrote outside its destination", p)
		}
		want := refApply(cur, p)
		cur.h.ops = append(cur.h.ops, p)
		x.output(cur, p, dest, want)
		g.scribble()
		x.observe(cur, name)
	case kCloneA, kCloneB:
		c := &tracked{typ: tTranscript, t: cur.t.Clone(), h: hist{cur.h.create, append([]op{}, cur.h.ops...)}}
		twin := refReplay(c.h) // un-cloned replay
		c.rt = twin.rt
		if c.t == cur.t {
			x.fail("merlin/Clone/alias", "Clone returned its receiver")
		}
		x.all = append(x.all, c)
		if p.kind == kCloneA {
			c.role, cur.role = "clone (continued)", cur.role+", origin of a clone"
			x.observe(c, name)
			x.observe(cur, name)
			return c
		}
		c.role = fmt.Sprintf("clone taken at step %d (retained)", step)
		x.observe(c, name)
		x.observe(cur, name)
	case kBuildRng:
		bo := &tracked{typ: tBuilder, b: cur.t.BuildRng(), h: hist{cur.h.create, append(append([]op{}, cur.h.ops...), p)}, role: "rng builder"}
		twin := refReplay(bo.h)
		bo.rb = twin.rb
		cur.role += ", origin of an rng builder"
		x.all = append(x.all, bo)
		x.observe(bo, name)
		x.observe(cur, name)
		return bo
	case kFinalize:
		rd := mkReader(p.reader)
		b := cur.b
		r, err := b.Finalize(rd)
		if p.fails() {
			if err == nil || r != nil {
				x.fail("merlin/Finalize/failing-reader", "Finalize with a %s reader returned (%v, %v); want an error and no reader", readerName[p.reader], r, err)
				return cur
			}
			// the builder must be untouched (the reference did nothing)
			if merlin.VerifBuilderStrobe(b) != nil {
				x.observe(cur, name)
			}
			return cur
		}
		if err != nil || r == nil {
			x.fail("merlin/Finalize/return", "Finalize(%s reader) returned (%v, %v)", readerName[p.reader], r, err)
			return cur
		}
		// Finalize must have consumed exactly 32 bytes of the source.
		var rest [64]byte
		left, _ := io.ReadFull(rd, rest[:])
		if left != 32 {
			x.fail("merlin/Finalize/entropy-consumed", "Finalize consumed %d bytes of entropy, want 32", 64-left)
		}
		refApply(cur, p)
		cur.r, cur.b, cur.typ = r, nil, tRng
		cur.h.ops = append(cur.h.ops, p)
		cur.role = "transcript rng"
		x.observe(cur, name)
	}
	return cur
}

// Closing operations (applied to every object alive at the end of a history).
var (
	closeExtract  = op{kind: kExtract, label: 9, n: 32}
	closeFinalize = op{kind: kFinalize, reader: rdGeneric}
	closeRead     = op{kind: kRead, n: 32}
)

func (x *exec) close(o *tracked, step int) {
	x.observe(o, "end-of-history")
	switch o.typ {
	case tTranscript:
		x.apply(o, closeExtract, step)
	case tBuilder:
		x.apply(o, closeFinalize, step)
		if o.typ == tRng {
			x.apply(o, closeRead, step)
		}
	case tRng:
		x.apply(o, closeRead, step)
	}
}

// runHistory executes h on fresh real objects.  After EVERY step the state of
// the object operated on and of every other live object (origins of clones,
// retained clones, transcripts an RNG was built from) is compared with its
// reference twin.
func runHistory(h hist) *result {
	res := &result{}
	x := &exec{res: res, full: h}
	cur := &tracked{typ: tTranscript, t: merlin.NewTranscript(labelOf(h.create)), rt: refstrobe.NewTranscript([]byte(labelOf(h.create))), h: hist{create: h.create}, role: "transcript"}
	x.all = append(x.all, cur)
	// creation is a transition from the (virtual) empty state
	x.transition(0, op{kind: 255, label: h.create})
	x.observe(cur, "NewTranscript")
	for i, p := range h.ops {
		cur = x.apply(cur, p, i)
		for _, o := range x.all {
			if o != cur && o.realStrobe() != nil {
				x.observeQuiet(o, kindName[p.kind])
			}
		}
	}
	// closing: the object the history ended on first, then every other live object
	x.close(cur, len(h.ops))
	if n := len(res.chals); n > 0 {
		res.last = append([]byte{}, res.chals[n-1].key[:]...)
	}
	for _, q := range x.all {
		if q != cur && q.realStrobe() != nil {
			x.observeQuiet(q, "closing operations")
		}
	}
	for _, o := range x.all {
		if o == cur {
			continue
		}
		x.close(o, len(h.ops))
		for _, q := range x.all {
			if q != o && q.realStrobe() != nil {
				x.observeQuiet(q, "closing operations")
			}
		}
	}
	for _, o := range x.all {
		s := o.refStrobe().Stat
		res.stat.FullF += s.FullF
		res.stat.ForcedF += s.ForcedF
		res.stat.ForcedSkipped += s.ForcedSkipped
		res.stat.BeginAtRm1 += s.BeginAtRm1
		res.stat.BeginAtRm2 += s.BeginAtRm2
	}
	res.nobj = len(x.all)
	return res
}

// observeQuiet checks that an object that was NOT operated on is bit-identical to
// its last observed state (independence of clones / builders); it records no new state.
func (x *exec) observeQuiet(o *tracked, after string) {
	if !stateHook {
		return
	}
	if now := fieldsOf(o.typ, o.realStrobe()); now != o.snap {
		x.fail("merlin/independence", "%s: real state changed by %s performed on ANOTHER object", o.role, after)
		o.snap = now
	}
}

// runLockstep drives two real objects through the same history in lock-step
// (A then B at every step) and requires identical outputs and states:
// "identical histories give identical outputs", including under interleaving.
func runLockstep(h hist) []failure {
	var fails []failure
	type side struct {
		t *merlin.Transcript
		b *merlin.TranscriptRngBuilder
		r io.Reader
	}
	var s [2]side
	for k := range s {
		s[k].t = merlin.NewTranscript(labelOf(h.create))
	}
	str := func(k int) *strobe.Strobe {
		switch {
		case s[k].r != nil:
			return merlin.VerifRngStrobe(s[k].r)
		case s[k].b != nil:
			return merlin.VerifBuilderStrobe(s[k].b)
		}
		return merlin.VerifStrobe(s[k].t)
	}
	ops := append(append([]op{}, h.ops...), op{kind: 254})
	for i, p := range ops {
		var outs [2][]byte
		for k := range s {
			switch p.kind {
			case kAppend:
				s[k].t.AppendMessage(labelOf(p.label), dataOf(p))
			case kExtract:
				outs[k] = garbage(p.n)
				s[k].t.ExtractBytes(outs[k], labelOf(p.label))
			case kCloneA:
				s[k].t = s[k].t.Clone()
			case kCloneB:
				_ = s[k].t.Clone()
			case kBuildRng:
				s[k].b = s[k].t.BuildRng()
			case kRekey:
				s[k].b.RekeyWithWitnessBytes(labelOf(p.label), dataOf(p))
			case kFinalize:
				if r, err := s[k].b.Finalize(mkReader(p.reader)); err == nil {
					s[k].r = r
				}
			case kRead:
				outs[k] = garbage(p.n)
				_, _ = s[k].r.Read(outs[k])
			case 254: // closing
				outs[k] = garbage(32)
				switch {
				case s[k].r != nil:
					_, _ = s[k].r.Read(outs[k])
				case s[k].b != nil:
					r, _ := s[k].b.Finalize(mkReader(rdGeneric))
					_, _ = r.Read(outs[k])
					s[k].r = r
				default:
					s[k].t.ExtractBytes(outs[k], labelOf(9))
				}
			}
		}
		same := true
		if stateHook {
			a, ap, ab, af, _, _ := strobe.VerifFields(str(0))
			b, bp, bb, bf, _, _ := strobe.VerifFields(str(1))
			same = *a == *b && ap == bp && ab == bb && af == bf
		}
		if !bytes.Equal(outs[0], outs[1]) || !same {
			fails = append(fails, failure{"merlin/determinism", fmt.Sprintf("two objects driven in lock-step through the same history diverge at step %d | history: %s", i, h)})
			break
		}
	}
	return fails
}
