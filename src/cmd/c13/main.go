// C13: Merlin/STROBE transcripts follow the specification for every operation
// history (explicit-state exploration of operation histories on the real
// objects; the state of every live object is compared with the byte-at-a-time
// STROBE reference after every step).
package main

import (
	"bytes"
	"fmt"
	"os"
	"runtime"
	"runtime/pprof"
	"sort"
	"strings"
	"sync"
	"sync/atomic"

	"github.com/oasisprotocol/curve25519-voi/internal/strobe"
	"github.com/oasisprotocol/curve25519-voi/internal/verif/mc"
	"github.com/oasisprotocol/curve25519-voi/internal/verif/ref/refstrobe"
	"github.com/oasisprotocol/curve25519-voi/primitives/merlin"
)

const rate = 166

func main() { mc.Main("C13", run) }

// ---------------------------------------------------------------------------
// Alphabets
// ---------------------------------------------------------------------------

var (
	labelLens = []int{0, 1, 165}
	dataLens  = []int{0, 1, 2, 163, 164, 165, 166, 167, 168, 169, 331, 332, 333, 334, 335}
)

// fullAlphabet: every (label, length) instance of every operation (about 160 instances).
func fullAlphabet() []op {
	var a []op
	for _, k := range []opKind{kAppend, kExtract} {
		for _, l := range labelLens {
			for _, n := range dataLens {
				a = append(a, op{kind: k, label: l, n: n})
			}
		}
	}
	a = append(a, op{kind: kCloneA}, op{kind: kCloneB}, op{kind: kBuildRng})
	for _, l := range labelLens {
		for _, n := range dataLens {
			a = append(a, op{kind: kRekey, label: l, n: n})
		}
	}
	for r := 0; r < nReaders; r++ {
		a = append(a, op{kind: kFinalize, reader: r})
	}
	for _, n := range dataLens {
		a = append(a, op{kind: kRead, n: n})
	}
	return a
}

// midAlphabet: the quick tier's alphabet for two further operations after the sweep.
func midAlphabet() []op {
	var a []op
	lens := []int{0, 1, 166, 167, 333}
	for _, k := range []opKind{kAppend, kExtract} {
		for _, l := range []int{0, 165} { // the one-byte label is in sweep1, lengths and depth (cost: five configurations)
			for _, n := range lens {
				a = append(a, op{kind: k, label: l, n: n})
			}
		}
	}
	a = append(a, op{kind: kCloneA}, op{kind: kCloneB}, op{kind: kBuildRng})
	for _, l := range []int{0, 1} {
		for _, n := range []int{0, 32, 166} {
			a = append(a, op{kind: kRekey, label: l, n: n})
		}
	}
	a = append(a, op{kind: kFinalize, reader: rdZero}, op{kind: kFinalize, reader: rdByte}, op{kind: kFinalize, reader: rdFail31})
	for _, n := range []int{0, 32, 166, 167} {
		a = append(a, op{kind: kRead, n: n})
	}
	return a
}

// coreAlphabet: the instances used for the depth-bounded exploration from a fresh transcript.
// It contains framing-only variants of the same bytes (label "a"/"" x message ""/"a"/"aa",
// label "aa"), a content variant (fill 'b'), block-crossing instances and every RNG operation.
func coreAlphabet() []op {
	return []op{
		{kind: kAppend, label: 0, n: 0},
		{kind: kAppend, label: 0, n: 1},
		{kind: kAppend, label: 0, n: 2},
		{kind: kAppend, label: 1, n: 0},
		{kind: kAppend, label: 1, n: 1},
		{kind: kAppend, label: 2, n: 0},
		{kind: kAppend, label: 0, n: 1, fill: 'b'},
		{kind: kAppend, label: 165, n: 166},
		{kind: kExtract, label: 0, n: 0},
		{kind: kExtract, label: 0, n: 1},
		{kind: kExtract, label: 1, n: 32},
		{kind: kExtract, label: 0, n: 167},
		{kind: kCloneA},
		{kind: kCloneB},
		{kind: kBuildRng},
		{kind: kRekey, label: 0, n: 0},
		{kind: kRekey, label: 1, n: 32},
		{kind: kRekey, label: 0, n: 167},
		{kind: kFinalize, reader: rdZero},
		{kind: kFinalize, reader: rdGeneric},
		{kind: kFinalize, reader: rdFail31},
		{kind: kFinalize, reader: rdChunk31},
		{kind: kRead, n: 0},
		{kind: kRead, n: 32},
		{kind: kRead, n: 167},
	}
}

// ---------------------------------------------------------------------------
// History spaces (built up front, sequentially: index-stable)
// ---------------------------------------------------------------------------

type packed struct {
	sweep  int16 // >= 0: the first operation is AppendMessage("", sweep bytes)
	create uint8 // index into space.creates
	n      uint8
	ops    [6]uint8
}

type space struct {
	name    string
	creates []int
	alpha   []op
	list    []packed
	last    func(op) bool
	// computed spaces (no packed list): n histories produced by gen
	n   int
	gen func(i int) hist
}

func (s *space) size() int {
	if s.gen != nil {
		return s.n
	}
	return len(s.list)
}

func (s *space) decode(i int) hist {
	if s.gen != nil {
		return s.gen(i)
	}
	p := s.list[i]
	h := hist{create: s.creates[p.create]}
	if p.sweep >= 0 {
		h.ops = append(h.ops, op{kind: kAppend, label: 0, n: int(p.sweep)})
	}
	for k := 0; k < int(p.n); k++ {
		h.ops = append(h.ops, s.alpha[p.ops[k]])
	}
	return h
}

// extend appends to s.list every well-typed sequence of exactly `length`
// operations over s.alpha (lexicographic), for the given prefix.
func (s *space) extend(base packed, typ int, length int) {
	if length == 0 {
		s.list = append(s.list, base)
		return
	}
	for i, o := range s.alpha {
		if o.on() != typ || (length == 1 && s.last != nil && !s.last(o)) {
			continue
		}
		b := base
		b.ops[b.n] = uint8(i)
		b.n++
		s.extend(b, o.yields(), length-1)
	}
}

// sweepSpace: creation, AppendMessage("", n) for EVERY n in 0..2*166+3, then `further` operations.
// last, when non-nil, restricts the LAST of several further operations to a sub-alphabet.
func sweepSpace(name string, alpha []op, further int, last func(op) bool) *space {
	s := &space{name: name, creates: []int{13}, alpha: alpha}
	if further > 1 {
		s.last = last
	}
	for n := 0; n <= 2*rate+3; n++ {
		s.extend(packed{sweep: int16(n)}, tTranscript, further)
	}
	return s
}

// secondOp is the thorough tier's sub-alphabet for the second operation after the sweep: every
// operation kind and label, lengths {0, 1, 166, 167, 333}, readers {zero, 1-byte reads, failing}.
func secondOp(o op) bool {
	switch o.kind {
	case kAppend, kExtract, kRekey, kRead:
		return o.n == 0 || o.n == 1 || o.n == 166 || o.n == 167 || o.n == 333
	case kFinalize:
		return o.reader == rdZero || o.reader == rdByte || o.reader == rdFail31
	}
	return true
}

// depthSpace: all histories of length 0..depth from a fresh transcript, shortest first.
func depthSpace(name string, alpha []op, creates []int, depth int) *space {
	s := &space{name: name, creates: creates, alpha: alpha}
	for d := 0; d <= depth; d++ {
		for c := range creates {
			s.extend(packed{sweep: -1, create: uint8(c)}, tTranscript, d)
		}
	}
	return s
}

// rngSpace: BuildRng at every swept cursor position, then an optional rekey, Finalize with each
// reader and two reads.
func rngSpace(name string, thorough bool) *space {
	s := &space{name: name, creates: []int{13}}
	add := func(o op) uint8 { s.alpha = append(s.alpha, o); return uint8(len(s.alpha) - 1) }
	build := add(op{kind: kBuildRng})
	var rekeys, fins []uint8
	rl := []int{0, 1, 32, 165, 166}
	if thorough {
		rl = dataLens
	}
	for _, l := range labelLens {
		for _, n := range rl {
			rekeys = append(rekeys, add(op{kind: kRekey, label: l, n: n}))
		}
	}
	rds := []int{rdZero, rdGeneric, rdByte, rdChunk31, rdFail31}
	if thorough {
		rds = []int{rdZero, rdFF, rdGeneric, rdByte, rdChunk7, rdChunk16, rdChunk31, rdFail31, rdEmpty}
	}
	for _, r := range rds {
		fins = append(fins, add(op{kind: kFinalize, reader: r}))
	}
	reads := map[int]uint8{}
	pairs := [][2]int{{64, 32}, {0, 166}, {166, 1}, {167, 0}}
	if thorough {
		pairs = nil
		for _, a := range []int{0, 32, 166, 167} {
			for _, b := range []int{0, 32} {
				pairs = append(pairs, [2]int{a, b})
			}
		}
	}
	rd := func(n int) uint8 {
		if _, ok := reads[n]; !ok {
			reads[n] = add(op{kind: kRead, n: n})
		}
		return reads[n]
	}
	for n := 0; n <= 2*rate+3; n++ {
		for rk := -1; rk < len(rekeys); rk++ {
			for _, f := range fins {
				for _, pr := range pairs {
					p := packed{sweep: int16(n)}
					put := func(i uint8) { p.ops[p.n] = i; p.n++ }
					put(build)
					if rk >= 0 {
						put(rekeys[rk])
					}
					put(f)
					if !s.alpha[f].fails() {
						put(rd(pr[0]))
						put(rd(pr[1]))
					} else if pr != pairs[0] {
						continue // a failed Finalize has no reads: one history per (n, rekey, reader)
					}
					s.list = append(s.list, p)
				}
			}
		}
	}
	return s
}

// lengthSweep (theme T4): EVERY data / output length 0..400 of every variable-length operation, from several
// (quick) or all 166 (thorough) cursor residues, with an empty and a one-byte label:
//
//	AppendMessage(l, n); ExtractBytes(l, n); BuildRng, RekeyWithWitnessBytes(l, n), Finalize, Read(32);
//	BuildRng, Finalize, Read(n)
//
// (a fast path with a fixed-size buffer is wrong at exactly one length or one length residue).
func lengthSweep(thorough bool) *space {
	starts := []int{0, 100, 163, 164, 165}
	if thorough {
		starts = nil
		for p := 0; p < rate; p++ {
			starts = append(starts, p)
		}
	}
	const maxLen = 400
	// quick: both labels from 5 residues; thorough: the empty label from every residue, the one-byte label from the same 5
	five := []int{0, 100, 163, 164, 165}
	prod := mc.Product{Radix: []int{len(starts), 4, 1, maxLen + 1}}
	prod2 := mc.Product{Radix: []int{len(five), 4, 1, maxLen + 1}}
	s := &space{name: "lengths", creates: []int{13}, n: prod.Size() + prod2.Size()}
	s.gen = func(i int) hist {
		var d [4]int
		if i < prod.Size() {
			prod.Decode(i, d[:])
		} else {
			prod2.Decode(i-prod.Size(), d[:])
			d[2] = 1
			return lengthHist(five[d[0]], d)
		}
		return lengthHist(starts[d[0]], d)
	}
	return s
}

// lengthHist: d = (start index, operation, label length, data length).
func lengthHist(start int, d [4]int) hist {
	h := hist{create: 13, ops: []op{{kind: kAppend, label: 0, n: start}}}
	l, n := d[2], d[3]
	switch d[1] {
	case 0:
		h.ops = append(h.ops, op{kind: kAppend, label: l, n: n})
	case 1:
		h.ops = append(h.ops, op{kind: kExtract, label: l, n: n})
	case 2:
		h.ops = append(h.ops, op{kind: kBuildRng}, op{kind: kRekey, label: l, n: n}, op{kind: kFinalize, reader: rdZero}, op{kind: kRead, n: 32})
	default:
		h.ops = append(h.ops, op{kind: kBuildRng}, op{kind: kFinalize, reader: []int{rdZero, rdGeneric}[l]}, op{kind: kRead, n: n})
	}
	return h
}

// largeSpace: lengths whose LE32 framing uses the 2nd, 3rd (and, thorough, 4th) byte.
func largeSpace(thorough bool) *space {
	s := &space{name: "large", creates: []int{13}}
	lens := []int{255, 256, 257, 1024, 65535, 65536, 65537}
	if thorough {
		lens = append(lens, 1<<24-1, 1<<24, 1<<24+1)
	}
	for _, n := range lens {
		for _, k := range []opKind{kAppend, kExtract} {
			s.alpha = append(s.alpha, op{kind: k, label: 1, n: n})
			s.list = append(s.list, packed{sweep: -1, n: 1, ops: [6]uint8{uint8(len(s.alpha) - 1)}})
		}
		// BuildRng; Rekey(n); Finalize; Read(n)
		s.alpha = append(s.alpha, op{kind: kBuildRng}, op{kind: kRekey, label: 1, n: n}, op{kind: kFinalize, reader: rdGeneric}, op{kind: kRead, n: n})
		k := uint8(len(s.alpha))
		s.list = append(s.list, packed{sweep: -1, n: 4, ops: [6]uint8{k - 4, k - 3, k - 2, k - 1}})
	}
	// long labels (labels are not length-framed, but they do cross several blocks)
	for _, l := range []int{166, 167, 333, 1000} {
		s.alpha = append(s.alpha, op{kind: kAppend, label: l, n: 3}, op{kind: kExtract, label: l, n: 3})
		k := uint8(len(s.alpha))
		s.list = append(s.list, packed{sweep: -1, n: 2, ops: [6]uint8{k - 2, k - 1}})
	}
	return s
}

// ---------------------------------------------------------------------------
// Global accounting: canonical-state set, transition set, challenge table
// ---------------------------------------------------------------------------

const nShards = 1024

type keySet struct {
	sh [nShards]struct {
		mu sync.Mutex
		m  map[uint64]struct{}
		_  [40]byte
	}
	n int64
}

func newKeySet() *keySet {
	s := &keySet{}
	for i := range s.sh {
		s.sh[i].m = map[uint64]struct{}{}
	}
	return s
}

func (s *keySet) add(k uint64) {
	sh := &s.sh[k%nShards]
	sh.mu.Lock()
	if _, ok := sh.m[k]; !ok {
		sh.m[k] = struct{}{}
		atomic.AddInt64(&s.n, 1)
	}
	sh.mu.Unlock()
}

type chalTable struct {
	sh [256]struct {
		mu sync.Mutex
		r  []chalRec
	}
}

func (t *chalTable) add(r chalRec) {
	sh := &t.sh[r.key[0]]
	sh.mu.Lock()
	sh.r = append(sh.r, r)
	sh.mu.Unlock()
}

type acct struct {
	states, trans                                     *keySet
	chals                                             chalTable
	visits, steps, traces, objects                    int64
	fullF, forcedF, forcedSkipped, beginRm1, beginRm2 int64
}

func (a *acct) absorb(r *result) {
	for _, k := range r.states {
		a.states.add(k)
	}
	for _, k := range r.trans {
		a.trans.add(k)
	}
	for _, c := range r.chals {
		a.chals.add(c)
	}
	atomic.AddInt64(&a.visits, int64(len(r.states)))
	atomic.AddInt64(&a.steps, int64(len(r.trans)))
	atomic.AddInt64(&a.traces, 1)
	atomic.AddInt64(&a.objects, int64(r.nobj))
	atomic.AddInt64(&a.fullF, int64(r.stat.FullF))
	atomic.AddInt64(&a.forcedF, int64(r.stat.ForcedF))
	atomic.AddInt64(&a.forcedSkipped, int64(r.stat.ForcedSkipped))
	atomic.AddInt64(&a.beginRm1, int64(r.stat.BeginAtRm1))
	atomic.AddInt64(&a.beginRm2, int64(r.stat.BeginAtRm2))
}

// ---------------------------------------------------------------------------

func replayTarget() string {
	for i, a := range os.Args {
		if (a == "-only" || a == "--only") && i+1 < len(os.Args) {
			return os.Args[i+1]
		}
		if strings.HasPrefix(a, "-only=") || strings.HasPrefix(a, "--only=") {
			return a[strings.Index(a, "=")+1:]
		}
	}
	return ""
}

func run(c *mc.Ctx) {
	if m := strings.Trim(strobe.VerifMissing()+","+merlin.VerifMissing(), ","); m != "" {
		for _, f := range strings.Split(m, ",") {
			missingField[f] = true
		}
		if missingField["st"] || missingField["Transcript.s"] {
			stateHook = false
		}
		c.Cap("STROBE state components that can no longer be read from this tree: " + m + " (their comparison is skipped; every output and every readable component is still compared with the reference)")
	}
	if pf := os.Getenv("VERIF_CPUPROFILE"); pf != "" { // developer aid only
		if f, err := os.Create(pf); err == nil {
			_ = pprof.StartCPUProfile(f)
			defer pprof.StopCPUProfile()
		}
	}
	genericEntropy = mc.Bytes(c.Seed, "c13-entropy", 0, 64)
	keccakCheck(c)

	full, core := fullAlphabet(), coreAlphabet()
	var spaces []*space
	spaces = append(spaces, depthSpace("depth", core, []int{0, 1, 165}, c.Pick(3, 4)))
	spaces = append(spaces, sweepSpace("sweep1", full, 1, nil))
	if c.Thorough {
		spaces = append(spaces, sweepSpace("sweep2", full, 2, secondOp))
	} else {
		spaces = append(spaces, sweepSpace("sweep2", midAlphabet(), 2, nil))
	}
	spaces = append(spaces, rngSpace("rng", c.Thorough))
	spaces = append(spaces, largeSpace(c.Thorough))
	spaces = append(spaces, lengthSweep(c.Thorough))

	sizes := map[string]int{"alphabet_full": len(full), "alphabet_core": len(core), "alphabet_mid": len(midAlphabet())}
	for _, s := range spaces {
		sizes["histories_"+s.name] = s.size()
	}
	c.Rep.Extra["sizes"] = sizes

	a := &acct{states: newKeySet(), trans: newKeySet()}

	// When the driver replays an injectivity violation the challenge table has to be
	// rebuilt first: run every space silently with private workers.
	if strings.HasPrefix(replayTarget(), "injective:") {
		for _, s := range spaces {
			s := s
			parFor(s.size(), func(i int) {
				defer func() { _ = recover() }()
				a.absorb(runHistory(s.decode(i)))
			})
		}
	}

	for _, s := range spaces {
		s := s
		c.Par(s.name, s.size(), func(w *mc.W, i int) {
			h := s.decode(i)
			counted := false
			defer guard(w, h, &counted, "history/"+s.name)
			r := runHistory(h)
			a.absorb(r)
			// reference-side class: does the specification run F because a data or framing
			// byte reaches the rate boundary (as opposed to only forced F's)?
			w.Eval("history/"+s.name, r.stat.FullF > 0)
			counted = true
			for _, f := range r.fails {
				w.Fail(f.key, f.desc, map[string]string{"history": h.String()})
			}
			if i%20011 == 0 {
				w.Sample(map[string]string{"space": s.name, "history": h.String(), "closing_output_prefix": mc.Hex(r.last)})
			}
		})
	}

	nilRandCheck(c)

	// Identical histories give identical outputs, also when two objects are interleaved.
	det := spaces[0]
	c.Par("determinism", det.size(), func(w *mc.W, i int) {
		h := det.decode(i)
		counted := true
		w.Eval("lockstep", len(h.ops) >= 2)
		defer guard(w, h, &counted, "lockstep")
		for _, f := range runLockstep(h) {
			w.Fail(f.key, f.desc, map[string]string{"history": h.String()})
		}
	})

	// Injectivity of challenge -> normalised history over the whole run.
	var recs int64
	var collide []string
	var cmu sync.Mutex
	parFor(256, func(b int) {
		r := a.chals.sh[b].r
		sort.Slice(r, func(i, j int) bool {
			for k := 0; k < 16; k++ {
				if r[i].key[k] != r[j].key[k] {
					return r[i].key[k] < r[j].key[k]
				}
			}
			return r[i].dig < r[j].dig
		})
		atomic.AddInt64(&recs, int64(len(r)))
		for i := 1; i < len(r); i++ {
			if r[i].key == r[i-1].key && r[i].dig != r[i-1].dig {
				cmu.Lock()
				collide = append(collide, fmt.Sprintf("output %x.. produced by two different normalised histories (digests %016x, %016x)", r[i].key, r[i-1].dig, r[i].dig))
				cmu.Unlock()
			}
		}
	})
	sort.Strings(collide)
	distinct := int64(0)
	for b := range a.chals.sh {
		r := a.chals.sh[b].r
		for i := range r {
			if i == 0 || r[i].key != r[i-1].key {
				distinct++
			}
		}
	}
	c.Seq("injective", 1, func(w *mc.W, i int) {
		w.Eval("injectivity-pass", distinct > 0)
		for _, d := range collide {
			w.Fail("merlin/injectivity", d, nil)
		}
	})

	c.Rep.States = atomic.LoadInt64(&a.states.n)
	c.Rep.Transitions = atomic.LoadInt64(&a.trans.n)
	c.Rep.Traces = a.traces
	c.Rep.Extra["state_visits"] = a.visits
	c.Rep.Extra["operation_steps_executed"] = a.steps
	c.Rep.Extra["objects_tracked"] = a.objects
	c.Rep.Extra["challenge_records"] = recs
	c.Rep.Extra["distinct_challenges"] = distinct
	ev := map[string]int64{"F_at_rate_boundary": a.fullF, "forced_F": a.forcedF, "forced_F_skipped_cursor_0": a.forcedSkipped,
		"begin_op_on_last_byte": a.beginRm1, "begin_op_two_bytes_left": a.beginRm2}
	c.Rep.Extra["reference_events"] = ev
	if !c.Replaying() && atomic.LoadInt64(&abortedHistories) == 0 {
		// vacuity guards on reference-side counts (the events of a history are only known once it has run to
		// its end, so the guards are not applied when the library panicked somewhere: that is a violation already)
		for k, v := range ev {
			if v < 50 {
				c.Broken(fmt.Sprintf("vacuity guard: reference event %q occurred only %d times", k, v))
			}
		}
		if recs < 1000 { // records are created per reference output of >= 16 bytes
			c.Broken("vacuity guard: fewer than 1000 challenge records")
		}
	}
	c.Require("history/depth", 1000)
	c.Require("history/sweep1", 10000)
	c.Require("history/sweep2", 10000)
	c.Require("history/rng", 10000)
	c.Require("history/lengths", 10000)
}

// guard turns a panic of the implementation into a violation of this case (also when a
// single case is replayed, where the engine does not recover), after making sure the case
// was counted in its reference-side class, so that a crashing library cannot trip a vacuity guard.
var abortedHistories int64 // histories cut short by a panic of the library: their reference events are not counted

func guard(w *mc.W, h hist, counted *bool, class string) {
	if r := recover(); r != nil {
		if !*counted {
			w.Eval(class, false)
		}
		atomic.AddInt64(&abortedHistories, 1)
		buf := make([]byte, 2048)
		buf = buf[:runtime.Stack(buf, false)]
		w.Fail("merlin/panic", fmt.Sprintf("panic: %v | history: %s\n%s", r, h, buf), map[string]string{"history": h.String()})
	}
}

// nilRandCheck (theme T12): Finalize(nil) uses crypto/rand, the documented default.  No byte drawn from the
// operating system is compared for EQUALITY with anything: the call must succeed, leave the transcript it was
// built from untouched, end in the same cursor layout as a finalisation with supplied entropy, and its output
// must differ from the output for all-zero entropy and from a second default finalisation (each fails with
// probability 2^-256 for a correct library; a nil reader silently replaced by a constant one fails always).
func nilRandCheck(c *mc.Ctx) {
	step := c.Pick(4, 1)
	c.Par("nil-rand", (2*rate+4)/step, func(w *mc.W, i int) {
		n := i * step
		h := hist{create: 13, ops: []op{{kind: kAppend, n: n}, {kind: kBuildRng}, {kind: kRekey, label: 1, n: 32}, {kind: kFinalize, reader: rdZero}, {kind: kRead, n: 32}}}
		counted := false
		defer guard(w, h, &counted, "nil-rand")
		w.Eval("nil-rand", true)
		counted = true
		fail := func(msg string) {
			w.Fail("merlin/Finalize/nil-rand", fmt.Sprintf("%s | NewTranscript('a'*13); AppendMessage('', %d bytes); BuildRng; RekeyWithWitnessBytes('a', 32 bytes); Finalize(nil); Read(32)", msg, n), nil)
		}
		ref := refReplay(h) // the same history with all-zero entropy (state after Read(32))
		refOut := refReplayOutput(h)
		t := merlin.NewTranscript(labelOf(13))
		t.AppendMessage("", dataOf(h.ops[0]))
		var before [208]byte
		if stateHook {
			before = fieldsOf(tTranscript, merlin.VerifStrobe(t))
		}
		var outs [2][]byte
		for k := 0; k < 2; k++ {
			r, err := t.BuildRng().RekeyWithWitnessBytes(labelOf(1), dataOf(h.ops[2])).Finalize(nil)
			if err != nil || r == nil {
				fail(fmt.Sprintf("Finalize(nil) returned (%v, %v)", r, err))
				return
			}
			outs[k] = make([]byte, 32)
			if m, err := r.Read(outs[k]); m != 32 || err != nil {
				fail(fmt.Sprintf("Read returned (%d, %v)", m, err))
			}
			if s := merlin.VerifRngStrobe(r); stateHook && s != nil {
				_, pos, pb, cf, _, _ := strobe.VerifFields(s)
				rs := ref.rr.S
				if (!missingField["pos"] && pos != rs.Pos) || (!missingField["posBegin"] && pb != rs.PosBegin) || (!missingField["curFlags"] && cf != rs.CurFlags) {
					fail(fmt.Sprintf("cursor layout after Finalize(nil); Read(32) is (pos=%d, posBegin=%d, flags=%#x), with supplied entropy it is (%d, %d, %#x)", pos, pb, cf, rs.Pos, rs.PosBegin, rs.CurFlags))
				}
			}
		}
		if bytes.Equal(outs[0], refOut) || bytes.Equal(outs[1], refOut) {
			fail("the output equals the output for all-zero entropy: the default entropy source is not used")
		}
		if bytes.Equal(outs[0], outs[1]) {
			fail("two finalisations with the default entropy source give the same output")
		}
		if stateHook && fieldsOf(tTranscript, merlin.VerifStrobe(t)) != before {
			fail("building and finalising an RNG modified the transcript")
		}
	})
	c.Require("nil-rand", 80)
}

// refReplayOutput replays h on the reference and returns the output of its last operation.
func refReplayOutput(h hist) []byte {
	o := &tracked{typ: tTranscript, rt: refstrobe.NewTranscript([]byte(labelOf(h.create)))}
	var out []byte
	for _, p := range h.ops {
		out = refApply(o, p)
	}
	return out
}

func parFor(n int, f func(i int)) {
	workers := runtime.GOMAXPROCS(0)
	var wg sync.WaitGroup
	var next int64
	for k := 0; k < workers; k++ {
		wg.Add(1)
		go func() {
			defer wg.Done()
			for {
				i := int(atomic.AddInt64(&next, 1)) - 1
				if i >= n {
					return
				}
				f(i)
			}
		}()
	}
	wg.Wait()
}
