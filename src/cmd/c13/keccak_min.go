//go:build verifmin

package main

import "github.com/oasisprotocol/curve25519-voi/internal/verif/mc"

// keccakCheck, reduced variant: a hook file did not compile against the tree under test and was dropped by
// the driver, so the permutation cannot be called directly.  It is still exercised by every history (each
// state comparison after an F is a comparison of the permutation); the run is reported as capped.
func keccakCheck(c *mc.Ctx) {
	c.Cap("direct Keccak-f[1600] sub-space skipped: the accessor of the permutation is not available for this tree (verifmin build)")
}
