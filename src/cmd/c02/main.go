// C02: Ed25519 key generation and signing are RFC 8032-exact (== Go crypto/ed25519),
// every produced signature verifies under every preset (singly and in a batch) and
// fails after any change; added randomness depends on the entropy and never reuses the
// deterministic nonce; invalid options / lengths yield exactly an error.
package main

import (
	"bytes"
	"crypto"
	stded "crypto/ed25519"
	"crypto/sha512"
	"errors"
	"fmt"
	"io"
	"math/big"
	"strings"

	"github.com/oasisprotocol/curve25519-voi/internal/verif/alph"
	"github.com/oasisprotocol/curve25519-voi/internal/verif/mc"
	"github.com/oasisprotocol/curve25519-voi/internal/verif/ref"
	"github.com/oasisprotocol/curve25519-voi/internal/verif/ref/refed"
	ed "github.com/oasisprotocol/curve25519-voi/primitives/ed25519"
	"github.com/oasisprotocol/curve25519-voi/primitives/ed25519/extra/cache"
)

func main() { mc.Main("C02", run) }

// ---- readers ---------------------------------------------------------------

type constReader byte

func (c constReader) Read(p []byte) (int, error) {
	for i := range p {
		p[i] = byte(c)
	}
	return len(p), nil
}

// streamReader serves a fixed byte string, then io.EOF.
type streamReader struct {
	buf []byte
	pos int
}

func (s *streamReader) Read(p []byte) (int, error) {
	if s.pos >= len(s.buf) {
		return 0, io.EOF
	}
	n := copy(p, s.buf[s.pos:])
	s.pos += n
	return n, nil
}

// oneByteReader hands out at most one byte per call (short reads).
type oneByteReader struct{ in io.Reader }

func (o *oneByteReader) Read(p []byte) (int, error) {
	if len(p) == 0 {
		return 0, nil
	}
	return o.in.Read(p[:1])
}

// chunkReader hands out at most n bytes per call with a nil error (short reads of 7 / 16 / 31 bytes).
type chunkReader struct {
	in io.Reader
	n  int
}

func (o *chunkReader) Read(p []byte) (int, error) {
	if len(p) > o.n {
		p = p[:o.n]
	}
	return o.in.Read(p)
}

var errInjected = errors.New("verif: injected reader failure")

// failReader delivers n bytes in total (possibly over several calls), then fails.
type failReader struct {
	in   io.Reader
	left int
}

func (f *failReader) Read(p []byte) (int, error) {
	if f.left <= 0 {
		return 0, errInjected
	}
	if len(p) > f.left {
		p = p[:f.left]
	}
	n, err := f.in.Read(p)
	f.left -= n
	return n, err
}

func stream(seed int64, name string, i int) []byte { return mc.Bytes(seed, name, i, 256) }

// ---- helpers ---------------------------------------------------------------

type presetT struct {
	name string
	vo   *ed.VerifyOptions
	fl   refed.Flags
}

var presets = []presetT{
	{"Default", ed.VerifyOptionsDefault, refed.PresetDefault},
	{"StdLib", ed.VerifyOptionsStdLib, refed.PresetStdLib},
	{"FIPS_186_5", ed.VerifyOptionsFIPS_186_5, refed.PresetFIPS},
	{"ZIP_215", ed.VerifyOptionsZIP_215, refed.PresetZIP215},
}

var incompatible = &ed.VerifyOptions{AllowSmallOrderR: true, AllowNonCanonicalR: true, CofactorlessVerify: true}

// ---------------------------------------------------------------------------
// Argument immutability (T12): the library never writes to an *Options, a *VerifyOptions or an exported preset.

var presetPtrs = [4]*ed.VerifyOptions{ed.VerifyOptionsDefault, ed.VerifyOptionsStdLib, ed.VerifyOptionsFIPS_186_5, ed.VerifyOptionsZIP_215}
var presetNames = [4]string{"VerifyOptionsDefault", "VerifyOptionsStdLib", "VerifyOptionsFIPS_186_5", "VerifyOptionsZIP_215"}
var presetSpec = [4]refed.Flags{refed.PresetDefault, refed.PresetStdLib, refed.PresetFIPS, refed.PresetZIP215}

func voOf(fl refed.Flags) ed.VerifyOptions {
	return ed.VerifyOptions{AllowSmallOrderA: fl.AllowSmallOrderA, AllowSmallOrderR: fl.AllowSmallOrderR, AllowNonCanonicalA: fl.AllowNonCanonicalA,
		AllowNonCanonicalR: fl.AllowNonCanonicalR, CofactorlessVerify: fl.Cofactorless}
}

// presetsIntact compares the exported presets (pointer and contents) with the specification flag sets; a changed preset
// is reported and put back, so that one write does not turn every later case into a failure.
func presetsIntact(w *mc.W, after string) {
	cur := [4]*ed.VerifyOptions{ed.VerifyOptionsDefault, ed.VerifyOptionsStdLib, ed.VerifyOptionsFIPS_186_5, ed.VerifyOptionsZIP_215}
	for i := range cur {
		if cur[i] != presetPtrs[i] {
			w.Fail("VerifyOptions-preset/mutated", fmt.Sprintf("exported variable %s points to another object after %s", presetNames[i], after), nil)
			continue
		}
		if want := voOf(presetSpec[i]); *cur[i] != want {
			w.Fail("VerifyOptions-preset/mutated", fmt.Sprintf("exported preset %s is %+v after %s, it was %+v", presetNames[i], *cur[i], after, want), map[string]string{"preset": presetNames[i], "after": after})
			*cur[i] = want
		}
	}
}

type optGuard struct {
	o  *ed.Options
	so ed.Options
	sv ed.VerifyOptions
}

func guardOpts(o *ed.Options) optGuard {
	g := optGuard{o: o, so: *o}
	if o.Verify != nil {
		g.sv = *o.Verify
	}
	return g
}

// check reports any write to the caller's Options / VerifyOptions (and to the presets) and undoes it.
func (g optGuard) check(w *mc.W, after string) {
	if *g.o != g.so {
		w.Fail("Options/mutated", fmt.Sprintf("%s wrote to the caller's Options: before %+v, after %+v", after, g.so, *g.o), map[string]string{"after": after})
		*g.o = g.so
	}
	if g.so.Verify != nil && *g.so.Verify != g.sv {
		w.Fail("VerifyOptions/mutated", fmt.Sprintf("%s wrote to the caller's VerifyOptions: before %+v, after %+v", after, g.sv, *g.so.Verify), map[string]string{"after": after})
		*g.so.Verify = g.sv
	}
	presetsIntact(w, after)
}

// ---------------------------------------------------------------------------
// Reference-side classes of a scalar as a fixed-base multiplication sees it (signed radix-16 recoding: digits in
// [-8, 8) with carry, the last digit keeps the carry and is not recentred).

func radix16(v *big.Int) [64]int {
	b := ref.LE32(v)
	var d [64]int
	for i := 0; i < 32; i++ {
		d[2*i] = int(b[i] & 15)
		d[2*i+1] = int(b[i] >> 4)
	}
	for i := 0; i < 63; i++ {
		carry := (d[i] + 8) >> 4
		d[i] -= carry << 4
		d[i+1] += carry
	}
	return d
}

// scalarClasses names the classes v belongs to; top is "a" (clamped secret: top byte ranges 0x40-0x47 ... 0x78-0x7f) or
// "r" (nonce mod L: top byte 0x00 ... 0x0f).
func scalarClasses(kind string, v *big.Int) []string {
	b := ref.LE32(v)
	var out []string
	if kind == "a" {
		out = append(out, fmt.Sprintf("a/top-byte-0x%02x-0x%02x", b[31]&0xf8, b[31]|7))
	} else {
		out = append(out, fmt.Sprintf("r/top-byte-0x%02x", b[31]))
	}
	d := radix16(v)
	raw := func(i int) int {
		if i%2 == 0 {
			return int(b[i/2] & 15)
		}
		return int(b[i/2] >> 4)
	}
	has := map[string]bool{}
	for i := 0; i < 63; i++ {
		if d[i] == -8 {
			has["digit -8"] = true
		}
		if d[i] == 7 {
			has["digit +7"] = true
		}
		if raw(i) == 7 && i > 0 && d[i] == -8 {
			has["nibble 7 + carry-in -> -8 with carry-out"] = true
		}
		if d[i] == 0 {
			has["digit 0"] = true
		}
	}
	for _, n := range []string{"digit -8", "digit +7", "nibble 7 + carry-in -> -8 with carry-out", "digit 0"} {
		if has[n] {
			out = append(out, kind+"/"+n)
		}
	}
	out = append(out, fmt.Sprintf("%s/digit63=%+d", kind, d[63]))
	return out
}

func callB(f func() bool) (ok, panicked bool) {
	defer func() {
		if r := recover(); r != nil {
			ok, panicked = false, true
		}
	}()
	return f(), false
}

func callSign(f func() ([]byte, error)) (sig []byte, err error, panicked bool) {
	defer func() {
		if r := recover(); r != nil {
			sig, err, panicked = nil, fmt.Errorf("panic: %v", r), true
		}
	}()
	sig, err = f()
	return sig, err, false
}

type sigRec struct {
	pub, m, sig []byte
	hash        crypto.Hash
	ctx         string
	norep       bool // made with OS entropy (nil reader): not reproducible by index
}

type harness struct {
	c *mc.Ctx
}

func variantOf(hash crypto.Hash, ctx string) refed.Variant {
	return refed.Variant{Ph: hash == crypto.SHA512, Context: []byte(ctx)}
}

// verifySuite: a signature the library produced must be canonical, accepted by every preset through
// every entry point, by the reference predicate under all 24 admissible flag sets, and by the std-lib.
func (h *harness) verifySuite(w *mc.W, what string, pub, m, sig []byte, hash crypto.Hash, ctx string) {
	cas := map[string]string{"what": what, "public_key": mc.Hex(pub), "message": mc.Hex(m), "signature": mc.Hex(sig), "context": mc.Hex([]byte(ctx)), "hash": fmt.Sprint(hash)}
	desc := func(s string) string {
		return fmt.Sprintf("%s: %s pub=%x sig=%x ctx=%x hash=%v msg=%x", what, s, pub, sig, ctx, hash, m)
	}
	// a signature made with entropy from the operating system (nil reader) cannot be reproduced by index: the concrete
	// signature is in every description and the violation is reported without replay
	fail := w.Fail
	if strings.Contains(what, "crypto/rand") {
		fail = w.FailNoReplay
	}
	w.Eval("verification-suite-on-produced-signature", true)
	if len(sig) != 64 {
		fail("Sign/length", desc("signature is not 64 bytes"), cas)
		return
	}
	if _, ok, canon := ref.Decode(sig[:32]); !ok || !canon {
		fail("Sign/R-not-canonical", desc("R is not a canonical point encoding"), cas)
	}
	if ref.FromLE(sig[32:]).Cmp(ref.L) >= 0 {
		fail("Sign/S-not-reduced", desc("S >= L"), cas)
	}
	va := variantOf(hash, ctx)
	f := refed.Analyse(pub, m, sig, va)
	for mask := 0; mask < 32; mask++ {
		fl := refed.FlagsFromMask(mask)
		if !fl.Admissible() {
			continue
		}
		if ok, why := f.Verdict(fl); !ok {
			fail("Sign/rejected-by-reference-predicate", desc("reference predicate rejects under {"+fl.Name()+"}: "+why), cas)
			break
		}
	}
	if stded.VerifyWithOptions(pub, m, sig, &stded.Options{Hash: hash, Context: ctx}) != nil {
		fail("Sign/rejected-by-crypto/ed25519", desc("Go crypto/ed25519 rejects"), cas)
	}
	epk, err := ed.NewExpandedPublicKey(pub)
	if err != nil {
		fail("NewExpandedPublicKey/honest-key", desc("NewExpandedPublicKey failed: "+err.Error()), cas)
	}
	for _, p := range presets {
		o := &ed.Options{Hash: hash, Context: ctx, Verify: p.vo}
		og := guardOpts(o)
		if ok, pan := callB(func() bool { return ed.VerifyWithOptions(pub, m, sig, o) }); !ok {
			fail("VerifyWithOptions/rejects-own-signature/"+p.name, desc(fmt.Sprintf("rejected (panic=%v) under preset %s", pan, p.name)), cas)
		}
		if epk != nil {
			if ok, pan := callB(func() bool { return ed.VerifyExpandedWithOptions(epk, m, sig, o) }); !ok {
				fail("VerifyExpandedWithOptions/rejects-own-signature/"+p.name, desc(fmt.Sprintf("rejected (panic=%v) under preset %s", pan, p.name)), cas)
			}
		}
		og.check(w, "VerifyWithOptions / VerifyExpandedWithOptions")
		w.EvalN("verify-own-signature/"+p.name, 2, true)
	}
	// documented default: Verify == nil in every twin (plain, expanded, batch)
	no := &ed.Options{Hash: hash, Context: ctx}
	ng := guardOpts(no)
	if ok, _ := callB(func() bool { return ed.VerifyWithOptions(pub, m, sig, no) }); !ok {
		fail("VerifyWithOptions/rejects-own-signature/Verify=nil", desc("rejected with Verify=nil"), cas)
	}
	ng.check(w, "VerifyWithOptions(Verify=nil)")
	if epk != nil {
		if ok, _ := callB(func() bool { return ed.VerifyExpandedWithOptions(epk, m, sig, no) }); !ok {
			fail("VerifyExpandedWithOptions/rejects-own-signature/Verify=nil", desc("rejected with Verify=nil"), cas)
		}
		ng.check(w, "VerifyExpandedWithOptions(Verify=nil)")
		bv := ed.NewBatchVerifier()
		bv.AddWithOptions(pub, m, sig, no)
		ng.check(w, "BatchVerifier.AddWithOptions(Verify=nil)")
		bv.AddExpandedWithOptions(epk, m, sig, no)
		ng.check(w, "BatchVerifier.AddExpandedWithOptions(Verify=nil)")
		if all, each := bv.Verify(constReader(sig[0])); !all || len(each) != 2 || !each[0] || !each[1] {
			fail("BatchVerifier.Verify/rejects-own-signature/Verify=nil", desc(fmt.Sprintf("batch with Verify=nil: all=%v each=%v", all, each)), cas)
		}
		presetsIntact(w, "BatchVerifier.Verify")
	}
	if hash == 0 && ctx == "" {
		if ok, _ := callB(func() bool { return ed.Verify(pub, m, sig) }); !ok {
			fail("Verify/rejects-own-signature", desc("rejected by Verify"), cas)
		}
	}
}

// batchSuite: all signatures together in one batch per preset.
func (h *harness) batchSuite(w *mc.W, what string, recs []sigRec, salt int) {
	if len(recs) == 0 {
		return
	}
	fail := w.Fail
	for _, r := range recs {
		if r.norep {
			fail = w.FailNoReplay
			what += fmt.Sprintf(" [contains the OS-entropy signature %x on message %x]", r.sig, r.m)
		}
	}
	for pi, p := range presets {
		for mode := 0; mode < 2; mode++ { // 0: Add (auto-expansion), 1: ForceNoPublicKeyExpansion
			bv := ed.NewBatchVerifier()
			if mode == 1 {
				bv.ForceNoPublicKeyExpansion()
			}
			for j, r := range recs {
				bo := &ed.Options{Hash: r.hash, Context: r.ctx, Verify: p.vo}
				if p.name == "Default" && j%2 == 1 {
					bo.Verify = nil // the documented default, mixed with its explicit form
				}
				og := guardOpts(bo)
				bv.AddWithOptions(r.pub, r.m, r.sig, bo)
				og.check(w, "BatchVerifier.AddWithOptions")
			}
			rd := &streamReader{buf: mc.Bytes(h.c.Seed, "c02-batch-rand", salt*8+pi*2+mode, 64+16*len(recs))}
			all, each := bv.Verify(rd)
			w.EvalN("batch/"+p.name, int64(len(recs)), true)
			bad := !all || len(each) != len(recs)
			for _, e := range each {
				bad = bad || !e
			}
			if bad {
				fail("BatchVerifier.Verify/rejects-valid-signatures/"+p.name, fmt.Sprintf("%s: batch of %d valid signatures under preset %s (mode %d): all=%v each=%v", what, len(recs), p.name, mode, all, each),
					map[string]string{"first_sig": mc.Hex(recs[0].sig), "first_pub": mc.Hex(recs[0].pub), "n": fmt.Sprint(len(recs))})
			}
			// the same verifier object after a FAILED batch (one signature bit flipped) and Reset, then after Reset again
			if len(recs) <= 8 && (salt+pi+mode)%4 == 0 { // one (preset, mode) pair per group, rotating
				bv.Reset()
				if mode == 1 {
					bv.ForceNoPublicKeyExpansion()
				}
				flip := append([]byte{}, recs[0].sig...)
				flip[(salt+5)%64] ^= 1 << uint(salt%8)
				bv.AddWithOptions(recs[0].pub, recs[0].m, flip, &ed.Options{Hash: recs[0].hash, Context: recs[0].ctx, Verify: p.vo})
				for _, r := range recs {
					bv.AddWithOptions(r.pub, r.m, r.sig, &ed.Options{Hash: r.hash, Context: r.ctx, Verify: p.vo})
				}
				all, each := bv.Verify(&streamReader{buf: mc.Bytes(h.c.Seed, "c02-batch-rand3", salt*8+pi*2+mode, 64)})
				w.EvalN("batch-reuse/"+p.name, int64(len(recs)+1), true)
				bad := all || len(each) != len(recs)+1 || each[0]
				for j := 1; j < len(each); j++ {
					bad = bad || !each[j]
				}
				if bad {
					fail("BatchVerifier.Verify/after-Reset/"+p.name, fmt.Sprintf("%s: after Reset, [changed signature, %d valid] gives all=%v each=%v (mode %d)", what, len(recs), all, each, mode),
						map[string]string{"first_sig": mc.Hex(recs[0].sig), "first_pub": mc.Hex(recs[0].pub)})
				}
				bv.Reset()
				if mode == 1 {
					bv.ForceNoPublicKeyExpansion()
				}
				for j := len(recs) - 1; j >= 0; j-- {
					r := recs[j]
					bv.AddWithOptions(r.pub, r.m, r.sig, &ed.Options{Hash: r.hash, Context: r.ctx, Verify: p.vo})
				}
				all, each = bv.Verify(&streamReader{buf: mc.Bytes(h.c.Seed, "c02-batch-rand4", salt*8+pi*2+mode, 64)})
				bad = !all || len(each) != len(recs)
				for _, e := range each {
					bad = bad || !e
				}
				if bad {
					fail("BatchVerifier.Verify/after-Reset/"+p.name, fmt.Sprintf("%s: after a failed batch and Reset, %d valid signatures give all=%v each=%v (mode %d)", what, len(recs), all, each, mode),
						map[string]string{"first_sig": mc.Hex(recs[0].sig), "first_pub": mc.Hex(recs[0].pub)})
				}
			}
			rd2 := &streamReader{buf: mc.Bytes(h.c.Seed, "c02-batch-rand2", salt*8+pi*2+mode, 64+16*len(recs))}
			only := bv.VerifyBatchOnly(rd2)
			presetsIntact(w, "BatchVerifier.Verify / VerifyBatchOnly")
			// documented: a batch containing cofactor-less entries returns false from VerifyBatchOnly
			if only != !p.fl.Cofactorless {
				fail("BatchVerifier.VerifyBatchOnly/"+p.name, fmt.Sprintf("%s: VerifyBatchOnly=%v on %d valid signatures under preset %s", what, only, len(recs), p.name),
					map[string]string{"first_sig": mc.Hex(recs[0].sig), "n": fmt.Sprint(len(recs))})
			}
		}
	}
}

func mustErr(w *mc.W, key, desc string, sig []byte, err error, panicked bool) {
	if panicked {
		w.Fail(key+"/panic", "panic instead of an error: "+desc+": "+err.Error(), nil)
		return
	}
	if err == nil || sig != nil {
		w.Fail(key+"/no-error", fmt.Sprintf("expected exactly an error, got sig=%x err=%v: %s", sig, err, desc), nil)
	}
}

func run(c *mc.Ctx) {
	h := &harness{c: c}

	// ---- seeds ----
	var seeds [][]byte
	one := make([]byte, 32)
	one[0] = 1
	seeds = append(seeds, make([]byte, 32), bytes.Repeat([]byte{0xff}, 32), one)
	for i := 0; i < c.Pick(5, 48); i++ {
		seeds = append(seeds, mc.Bytes(c.Seed, "c02-seed", i, 32))
	}
	rkeys := make([]*refed.Key, len(seeds)) // reference keys (RFC 8032 5.1.5), derived once
	for i, s := range seeds {
		rkeys[i] = refed.NewKey(s)
	}
	// ---- class seeds: the clamped secret scalar a = clamp(SHA-512(seed)[:32]) (reference side) must cover every class a
	// fixed-base multiplication can distinguish.  Deterministic search over mc.Bytes(seed, "c02-seed", i), i = 0, 1, ...:
	// a seed is taken while one of its classes still needs members; then the list is padded with the next seeds.
	aNeed := map[string]int{"a/digit -8": 2, "a/digit +7": 2, "a/nibble 7 + carry-in -> -8 with carry-out": 2, "a/digit 0": 2,
		"a/digit63=+4": 2, "a/digit63=+5": 1, "a/digit63=+6": 1, "a/digit63=+7": 1, "a/digit63=+8": 2}
	for t := 0x40; t < 0x80; t += 8 {
		aNeed[fmt.Sprintf("a/top-byte-0x%02x-0x%02x", t, t+7)] = 2
	}
	classCount := map[string]int{}
	var classSeeds [][]byte
	seenSeed := map[string]bool{}
	takeSeed := func(sd []byte) {
		seenSeed[string(sd)] = true
		for _, cl := range scalarClasses("a", ref.ClampedScalarFromSeed(sd)) {
			classCount[cl]++
		}
	}
	for _, sd := range seeds {
		takeSeed(sd)
	}
	missing := func() bool {
		for cl, n := range aNeed {
			if classCount[cl] < n {
				return true
			}
		}
		return false
	}
	for i := 0; i < 4096 && (missing() || len(classSeeds) < c.Pick(40, 120)); i++ {
		sd := mc.Bytes(c.Seed, "c02-seed", i, 32)
		if seenSeed[string(sd)] {
			continue
		}
		useful := !missing()
		for _, cl := range scalarClasses("a", ref.ClampedScalarFromSeed(sd)) {
			if classCount[cl] < aNeed[cl] {
				useful = true
			}
		}
		if useful {
			classSeeds = append(classSeeds, sd)
			takeSeed(sd)
		}
	}
	keySeeds := append(append([][]byte{}, seeds...), classSeeds...)
	for cl, n := range classCount {
		c.Rep.Classes["seed-class/"+cl] = int64(n) // reference-side membership counts (guarded below)
	}
	c.Rep.Extra["class_seeds"] = len(classSeeds)
	contexts := []string{"", "\x00", string(bytes.Repeat([]byte{0xfe}, 255)), string(bytes.Repeat([]byte{0x01}, 256))}
	hashes := []crypto.Hash{crypto.Hash(0), crypto.SHA512, crypto.SHA256}
	c.Rep.Extra["seeds"] = len(seeds)
	c.Rep.Extra["message_lengths"] = alph.Lengths

	// ---- sub-space "keys": derivation, GenerateKey, accessors ----
	c.Par("keys", len(keySeeds), func(w *mc.W, i int) {
		seed := keySeeds[i]
		cas := map[string]string{"seed": mc.Hex(seed), "clamped_scalar_classes": strings.Join(scalarClasses("a", ref.ClampedScalarFromSeed(seed)), "; ")}
		want := stded.NewKeyFromSeed(seed)
		var rk *refed.Key
		if i < len(seeds) {
			rk = rkeys[i]
		} else {
			rk = refed.NewKey(seed)
		}
		if !bytes.Equal(want[32:], rk.Pub) {
			c.Broken(fmt.Sprintf("oracles disagree on the public key of seed %x", seed))
		}
		priv := ed.NewKeyFromSeed(seed)
		w.Eval("NewKeyFromSeed", true)
		if !bytes.Equal(priv, want) {
			w.Fail("NewKeyFromSeed", fmt.Sprintf("NewKeyFromSeed(%x)=%x want %x", seed, []byte(priv), []byte(want)), cas)
		}
		if pub, ok := priv.Public().(ed.PublicKey); !ok || !bytes.Equal(pub, want[32:]) {
			w.Fail("PrivateKey.Public", "Public() is not the RFC public key", cas)
		}
		if !bytes.Equal(priv.Seed(), seed) {
			w.Fail("PrivateKey.Seed", "Seed() is not the seed", cas)
		}
		if !priv.Equal(ed.PrivateKey(append([]byte{}, want...))) || priv.Equal(ed.PrivateKey(append(append([]byte{}, want[:63]...), want[63]^1))) {
			w.Fail("PrivateKey.Equal", "Equal misjudges", cas)
		}
		// GenerateKey(reader) = NewKeyFromSeed(first 32 bytes) (= std-lib GenerateKey on the same stream)
		tail := mc.Bytes(c.Seed, "c02-tail", i, 64)
		full := append(append([]byte{}, seed...), tail...)
		mk := []struct {
			name string
			rd   func() io.Reader
			fail bool
		}{
			{"stream", func() io.Reader { return &streamReader{buf: full} }, false},
			{"exactly-32", func() io.Reader { return &streamReader{buf: full[:32]} }, false},
			{"one-byte", func() io.Reader { return &oneByteReader{&streamReader{buf: full}} }, false},
			{"7-byte-reads", func() io.Reader { return &chunkReader{&streamReader{buf: full}, 7} }, false},
			{"16-byte-reads", func() io.Reader { return &chunkReader{&streamReader{buf: full}, 16} }, false},
			{"31-byte-reads", func() io.Reader { return &chunkReader{&streamReader{buf: full}, 31} }, false},
			{"fail-after-0", func() io.Reader { return &failReader{&streamReader{buf: full}, 0} }, true},
			{"stream-after-failure", func() io.Reader { return &streamReader{buf: full} }, false},
			{"fail-after-1", func() io.Reader { return &failReader{&streamReader{buf: full}, 1} }, true},
			{"fail-after-31", func() io.Reader { return &failReader{&oneByteReader{&streamReader{buf: full}}, 31} }, true},
			{"eof-after-31", func() io.Reader { return &streamReader{buf: full[:31]} }, true},
		}
		for _, r := range mk {
			w.Eval("GenerateKey/"+r.name, true)
			pub, pk, err := ed.GenerateKey(r.rd())
			spub, spk, serr := stded.GenerateKey(r.rd())
			if (serr != nil) != r.fail {
				c.Broken("std-lib GenerateKey reader expectation wrong for " + r.name)
			}
			if r.fail {
				if err == nil || pub != nil || pk != nil {
					w.Fail("GenerateKey/reader-failure", fmt.Sprintf("reader %s: expected an error and no key, got err=%v pub=%x", r.name, err, []byte(pub)), cas)
				}
				continue
			}
			if err != nil || !bytes.Equal(pk, spk) || !bytes.Equal(pub, spub) || !bytes.Equal(pk, want) {
				w.Fail("GenerateKey", fmt.Sprintf("reader %s: GenerateKey gives priv=%x err=%v, want %x", r.name, []byte(pk), err, []byte(want)), cas)
			}
		}
		// memory handed out (T11): the public key returned by GenerateKey is not the tail of the private key
		if pub, pk, err := ed.GenerateKey(&streamReader{buf: full}); err == nil && len(pub) == 32 && len(pk) == 64 {
			pub[0] ^= 0xff
			pub[31] ^= 0xff
			if !bytes.Equal(pk, want) {
				w.Fail("GenerateKey/public-key-aliases-private-key", "overwriting the returned public key changed the returned private key", cas)
			}
		}
		// documented default (T12): a nil reader means crypto/rand - a valid, fresh key pair each time
		if i < 4 {
			w.Eval("GenerateKey/nil-reader", true)
			pub1, pk1, err1 := ed.GenerateKey(nil)
			_, pk2, err2 := ed.GenerateKey(nil)
			if err1 != nil || err2 != nil || len(pk1) != 64 || len(pk2) != 64 || !bytes.Equal(pub1, pk1[32:]) || !bytes.Equal(pk1, stded.NewKeyFromSeed(pk1[:32])) || bytes.Equal(pk1, pk2) {
				// the input came from the operating system: not replayable by index, so the concrete key goes into the report
				w.FailNoReplay("GenerateKey/nil-reader", fmt.Sprintf("GenerateKey(nil) gives priv=%x err=%v and priv=%x err=%v (must be two different RFC 8032 key pairs)", []byte(pk1), err1, []byte(pk2), err2),
					map[string]string{"generated_private_key_1": mc.Hex(pk1), "generated_private_key_2": mc.Hex(pk2)})
			}
			// the deterministic oracle on the very seeds the OS produced
			for _, pk := range [][]byte{pk1, pk2} {
				if len(pk) != 64 {
					continue
				}
				sd := append([]byte{}, pk[:32]...)
				wantK := stded.NewKeyFromSeed(sd)
				got, _, pan := callSign(func() ([]byte, error) { return ed.NewKeyFromSeed(sd), nil })
				if pan || !bytes.Equal(got, wantK) {
					w.FailNoReplay("NewKeyFromSeed", fmt.Sprintf("NewKeyFromSeed(%x)=%x want %x (seed produced by GenerateKey(nil); clamped scalar classes: %s)", sd, got, []byte(wantK),
						strings.Join(scalarClasses("a", ref.ClampedScalarFromSeed(sd)), "; ")), map[string]string{"seed": mc.Hex(sd)})
				}
			}
		}
		if i < 3 {
			for _, n := range []int{0, 31, 33, 64} {
				w.Eval("NewKeyFromSeed/bad-length", false)
				_, _, pan := callSign(func() ([]byte, error) { return ed.NewKeyFromSeed(full[:n]), nil })
				if !pan {
					w.Fail("NewKeyFromSeed/length", fmt.Sprintf("documented panic missing for seed length %d", n), nil)
				}
			}
		}
	})

	// ---- sub-space "sign": seeds x message lengths x contexts x hashes, and inside every option/reader combination ----
	rad := mc.Product{Radix: []int{len(seeds), len(alph.Lengths), len(contexts), len(hashes)}}
	verifyChoices := []*ed.VerifyOptions{nil, ed.VerifyOptionsDefault, ed.VerifyOptionsStdLib, ed.VerifyOptionsFIPS_186_5, ed.VerifyOptionsZIP_215, incompatible}
	verifyNames := []string{"nil", "Default", "StdLib", "FIPS_186_5", "ZIP_215", "incompatible"}
	c.Par("sign", rad.Size(), func(w *mc.W, i int) {
		var d [4]int
		rad.Decode(i, d[:])
		seed, mlen, ctx, hash := seeds[d[0]], alph.Lengths[d[1]], contexts[d[2]], hashes[d[3]]
		msg := mc.Bytes(c.Seed, "c02-msg", i, mlen)
		m := msg
		if hash == crypto.SHA512 {
			dg := sha512.Sum512(msg)
			m = dg[:]
		}
		valid := len(ctx) <= 255 && hash != crypto.SHA256
		priv := ed.PrivateKey(append(append([]byte{}, seed...), rkeys[d[0]].Pub...)) // RFC key, independent of the library's derivation
		pub := []byte(priv[32:])
		stdPriv := stded.NewKeyFromSeed(seed)
		var det []byte
		if valid {
			var err error
			det, err = stdPriv.Sign(nil, m, &stded.Options{Hash: hash, Context: ctx})
			if err != nil {
				c.Broken("std-lib refused a valid signing request: " + err.Error())
				return
			}
			if mine := rkeys[d[0]].Sign(variantOf(hash, ctx), m); !bytes.Equal(mine, det) {
				c.Broken(fmt.Sprintf("oracles disagree: refed signature %x, crypto/ed25519 %x", mine, det))
				return
			}
		}
		base := fmt.Sprintf("seed=%x msglen=%d ctxlen=%d hash=%s", seed, mlen, len(ctx), hashName(hash))
		cas := func(extra string) map[string]string {
			return map[string]string{"seed": mc.Hex(seed), "message": mc.Hex(m), "context": mc.Hex([]byte(ctx)), "hash": fmt.Sprint(hash), "options": extra}
		}
		gA, gB := stream(c.Seed, "c02-entropyA", i), stream(c.Seed, "c02-entropyB", i)
		var prevA []byte
		produced := map[string]string{} // sig -> what (distinct signatures to run the verification suite on)
		var order []string
		note := func(sig []byte, what string) {
			if _, ok := produced[string(sig)]; !ok {
				produced[string(sig)] = what
				order = append(order, string(sig))
			}
		}
		for ar := 0; ar < 2; ar++ {
			for sv := 0; sv < 2; sv++ {
				for vi, vo := range verifyChoices {
					o := func() *ed.Options {
						return &ed.Options{Hash: hash, Context: ctx, AddedRandomness: ar == 1, SelfVerify: sv == 1, Verify: vo}
					}
					od := fmt.Sprintf("%s AddedRandomness=%v SelfVerify=%v Verify=%s", base, ar == 1, sv == 1, verifyNames[vi])
					okOpts := valid && vo != incompatible
					sign := func(rd io.Reader) ([]byte, error, bool) {
						so := o()
						og := guardOpts(so)
						sig, err, pan := callSign(func() ([]byte, error) { return priv.Sign(rd, m, so) })
						og.check(w, "PrivateKey.Sign("+od+")")
						return sig, err, pan
					}
					if !okOpts {
						// invalid combination: exactly an error, whatever the reader
						for ri, rd := range []io.Reader{&streamReader{buf: gA}, constReader(0), &failReader{constReader(0), 0}} {
							w.Eval("invalid-options/error", false)
							sig, err, pan := sign(rd)
							mustErr(w, "PrivateKey.Sign/invalid-options", fmt.Sprintf("%s reader#%d", od, ri), sig, err, pan)
						}
						continue
					}
					if ar == 0 {
						// deterministic: RFC 8032 bytes, the reader is irrelevant
						for ri, rd := range []io.Reader{nil, &failReader{constReader(0), 0}, &streamReader{buf: gA}} {
							w.Eval("deterministic/"+variantName(hash, ctx), true)
							sig, err, pan := sign(rd)
							if pan || err != nil || !bytes.Equal(sig, det) {
								w.Fail("PrivateKey.Sign/deterministic", fmt.Sprintf("%s reader#%d: got sig=%x err=%v, RFC 8032 / crypto/ed25519 signature is %x", od, ri, sig, err, det), cas(od))
							}
							if sig != nil {
								note(sig, "deterministic")
							}
						}
						continue
					}
					// added randomness
					get := func(name string, rd io.Reader) []byte {
						w.Eval("randomised/"+name, true)
						sig, err, pan := sign(rd)
						if pan || err != nil || len(sig) != 64 {
							w.Fail("PrivateKey.Sign/randomised", fmt.Sprintf("%s reader=%s: sig=%x err=%v", od, name, sig, err), cas(od))
							return nil
						}
						note(sig, "randomised("+name+")")
						if bytes.Equal(sig[:32], det[:32]) {
							w.Fail("PrivateKey.Sign/randomised-reuses-deterministic-nonce", fmt.Sprintf("%s reader=%s: R equals the deterministic R %x", od, name, det[:32]), cas(od))
						}
						return sig
					}
					sA := get("streamA", &streamReader{buf: gA})
					if vi != 0 && vi != 1+i%4 {
						// the Verify choice only feeds SelfVerify: for the remaining choices one stream is enough,
						// the full reader alphabet runs for Verify=nil and one rotating preset
						if prevA != nil && sA != nil && !bytes.Equal(sA, prevA) {
							w.Fail("PrivateKey.Sign/randomised-not-a-function-of-entropy", fmt.Sprintf("%s: signature %x differs from %x obtained with other SelfVerify/Verify settings", od, sA, prevA), cas(od))
						}
						continue
					}
					prevA = sA
					sZero := get("zero", constReader(0))
					sFF := get("ff", constReader(0xff))
					sA2 := get("streamA-again", &streamReader{buf: gA})
					sA1 := get("streamA-one-byte-reads", &oneByteReader{&streamReader{buf: gA}})
					sB := get("streamB", &streamReader{buf: gB})
					if sZero != nil && sFF != nil && sA != nil && sA2 != nil && sA1 != nil && sB != nil {
						if !bytes.Equal(sA, sA2) {
							w.Fail("PrivateKey.Sign/randomised-not-a-function-of-entropy", fmt.Sprintf("%s: same entropy stream gave %x and %x", od, sA, sA2), cas(od))
						}
						if !bytes.Equal(sA, sA1) {
							w.Fail("PrivateKey.Sign/randomised-short-reads", fmt.Sprintf("%s: one-byte-at-a-time reader gave %x, whole reads %x", od, sA1, sA), cas(od))
						}
						rs := [][]byte{sZero[:32], sFF[:32], sA[:32], sB[:32]}
						for x := 0; x < len(rs); x++ {
							for y := x + 1; y < len(rs); y++ {
								if bytes.Equal(rs[x], rs[y]) {
									w.Fail("PrivateKey.Sign/randomised-ignores-entropy", fmt.Sprintf("%s: entropy streams #%d and #%d give the same R %x", od, x, y, rs[x]), cas(od))
								}
							}
						}
					}
					for _, cn := range []int{7, 16, 31} {
						if sc := get(fmt.Sprintf("streamA-%d-byte-reads", cn), &chunkReader{&streamReader{buf: gA}, cn}); sc != nil && sA != nil && !bytes.Equal(sc, sA) {
							w.Fail("PrivateKey.Sign/randomised-short-reads", fmt.Sprintf("%s: %d-byte reads gave %x, whole reads %x", od, cn, sc, sA), cas(od))
						}
					}
					// failing readers: an error, never a signature (n < 32); for n >= 32 a signature, if any, is the streamA one.
					// Immediately after each failure the SAME key object is used again (error paths must leave nothing behind):
					// the randomised request with stream A and the deterministic request must give their usual bytes.
					for _, n := range []int{0, 1, 31, 32, 40} {
						w.Eval("randomised/failing-reader", true)
						sig, err, pan := sign(&failReader{&streamReader{buf: gA}, n})
						if n < 32 {
							mustErr(w, "PrivateKey.Sign/reader-failure", fmt.Sprintf("%s reader fails after %d bytes", od, n), sig, err, pan)
							w.Eval("randomised/retry-after-failure", true)
							rs, rerr, rpan := sign(&streamReader{buf: gA})
							if rpan || rerr != nil || (sA != nil && !bytes.Equal(rs, sA)) {
								w.Fail("PrivateKey.Sign/after-reader-failure", fmt.Sprintf("%s: after a reader failure (%d bytes) the same request with stream A gives sig=%x err=%v, before the failure %x", od, n, rs, rerr, sA), cas(od))
							}
							ds, derr, dpan := callSign(func() ([]byte, error) {
								return priv.Sign(nil, m, &ed.Options{Hash: hash, Context: ctx, SelfVerify: sv == 1, Verify: vo})
							})
							if dpan || derr != nil || !bytes.Equal(ds, det) {
								w.Fail("PrivateKey.Sign/after-reader-failure", fmt.Sprintf("%s: after a reader failure (%d bytes) the deterministic request gives sig=%x err=%v, RFC signature %x", od, n, ds, derr, det), cas(od))
							}
						} else if pan || (err == nil) == (sig == nil) || (sig != nil && sA != nil && !bytes.Equal(sig, sA)) {
							w.Fail("PrivateKey.Sign/reader-failure-late", fmt.Sprintf("%s reader fails after %d bytes: sig=%x err=%v", od, n, sig, err), cas(od))
						}
					}
					sig, err, pan := sign(&oneByteReader{&failReader{&streamReader{buf: gA}, 31}})
					mustErr(w, "PrivateKey.Sign/reader-failure", od+" one-byte reader failing after 31", sig, err, pan)
					if vi == 0 && sv == 0 {
						// nil reader = crypto/rand: only verifiability and nonce freshness can be checked
						w.Eval("randomised/crypto-rand", true)
						sig, err, pan := sign(nil)
						if pan || err != nil || len(sig) != 64 {
							w.FailNoReplay("PrivateKey.Sign/randomised", fmt.Sprintf("%s reader=nil (crypto/rand) failed: sig=%x err=%v panic=%v", od, sig, err, pan), cas(od))
						} else {
							if bytes.Equal(sig[:32], det[:32]) {
								w.FailNoReplay("PrivateKey.Sign/randomised-reuses-deterministic-nonce", fmt.Sprintf("%s reader=nil (crypto/rand): signature %x has the deterministic R", od, sig), cas(od))
							}
							note(sig, "randomised(crypto/rand)")
						}
					}
				}
			}
		}
		// other entry points and key lengths
		if ctx == "" {
			w.Eval("SignerOpts=crypto.Hash", true)
			sig, err, pan := callSign(func() ([]byte, error) { return priv.Sign(nil, m, hash) })
			if !valid {
				mustErr(w, "PrivateKey.Sign/invalid-options", base+" opts=crypto.Hash", sig, err, pan)
			} else if pan || err != nil || !bytes.Equal(sig, det) {
				w.Fail("PrivateKey.Sign/deterministic", fmt.Sprintf("%s opts=crypto.Hash(%v): sig=%x err=%v want %x", base, hash, sig, err, det), cas("crypto.Hash"))
			}
			if hash == 0 {
				w.Eval("Sign()", true)
				sig, _, pan := callSign(func() ([]byte, error) { return ed.Sign(priv, m), nil })
				if pan || !bytes.Equal(sig, det) {
					w.Fail("Sign", fmt.Sprintf("%s: Sign()=%x want %x", base, sig, det), cas("Sign()"))
				}
			}
		}
		for _, n := range []int{0, 31, 63, 65} {
			bad := ed.PrivateKey(append(append([]byte{}, priv...), 0x42)[:n])
			for ar := 0; ar < 2; ar++ {
				w.Eval("bad-private-key-length", false)
				sig, err, pan := callSign(func() ([]byte, error) {
					return bad.Sign(constReader(7), m, &ed.Options{Hash: hash, Context: ctx, AddedRandomness: ar == 1})
				})
				mustErr(w, "PrivateKey.Sign/key-length", fmt.Sprintf("%s keylen=%d AddedRandomness=%v", base, n, ar == 1), sig, err, pan)
			}
			if hash == 0 && ctx == "" && d[1] == 0 {
				_, _, pan := callSign(func() ([]byte, error) { return ed.Sign(bad, m), nil })
				if !pan {
					w.Fail("Sign/key-length", fmt.Sprintf("documented panic missing for key length %d", n), nil)
				}
			}
		}
		// SelfVerify is documented to verify the signature after signing: a private key whose public half was corrupted
		// (the simplest stand-in for a fault) yields signatures that cannot verify, so SelfVerify must turn them into an error.
		if valid {
			for _, bit := range []int{0, 255, 77} {
				bad := ed.PrivateKey(append([]byte{}, priv...))
				bad[32+bit/8] ^= 1 << uint(bit%8)
				for ar := 0; ar < 2; ar++ {
					w.Eval("selfverify/corrupted-public-half", true)
					sig, err, pan := callSign(func() ([]byte, error) {
						return bad.Sign(constReader(9), m, &ed.Options{Hash: hash, Context: ctx, AddedRandomness: ar == 1, SelfVerify: true, Verify: verifyChoices[(i+bit)%5]})
					})
					mustErr(w, "PrivateKey.Sign/self-verify", fmt.Sprintf("%s SelfVerify=true with public half bit %d flipped (signature cannot verify)", base, bit), sig, err, pan)
				}
			}
		}
		// Ed25519ph with a digest of the wrong length
		if hash == crypto.SHA512 && len(ctx) <= 255 && d[1] < 3 {
			for _, n := range []int{0, 63, 65} {
				mm := append(append([]byte{}, m...), 0)[:n]
				for _, so := range []crypto.SignerOpts{&ed.Options{Hash: crypto.SHA512, Context: ctx}, &ed.Options{Hash: crypto.SHA512, Context: ctx, AddedRandomness: true, SelfVerify: true}, crypto.SHA512} {
					w.Eval("ph-digest-length", false)
					sig, err, pan := callSign(func() ([]byte, error) { return priv.Sign(constReader(1), mm, so) })
					mustErr(w, "PrivateKey.Sign/ph-digest-length", fmt.Sprintf("%s digest length %d", base, n), sig, err, pan)
				}
			}
		}
		// every distinct signature that was produced must verify everywhere
		var recs []sigRec
		for _, s := range order {
			h.verifySuite(w, produced[s], pub, m, []byte(s), hash, ctx)
			recs = append(recs, sigRec{pub, m, []byte(s), hash, ctx, strings.Contains(produced[s], "crypto/rand")})
		}
		h.batchSuite(w, base, recs, i)
		if valid && i%211 == 0 {
			w.Sample(map[string]string{"sub": "sign", "seed": mc.Hex(seed), "msg_len": fmt.Sprint(mlen), "context_len": fmt.Sprint(len(ctx)), "hash": fmt.Sprint(hash),
				"distinct_signatures_verified": fmt.Sprint(len(order)), "deterministic_signature": mc.Hex(det)})
		}
	})

	// signAndCheck: one deterministic request compared with crypto/ed25519 byte for byte, the result verified by the
	// library (two presets, expanded key, one-entry batch) and by the std-lib.  Used by the collision and sweep sub-spaces.
	type vr struct {
		hash crypto.Hash
		ctx  string
		name string
	}
	stdKeys := make([]stded.PrivateKey, len(seeds))
	for i, s := range seeds {
		stdKeys[i] = stded.NewKeyFromSeed(s)
	}
	signAndCheck := func(w *mc.W, class string, ki int, v vr, m []byte, selfVerify bool) []byte {
		priv := ed.PrivateKey(append(append([]byte{}, seeds[ki]...), rkeys[ki].Pub...))
		pub := rkeys[ki].Pub
		want, err := stdKeys[ki].Sign(nil, m, &stded.Options{Hash: v.hash, Context: v.ctx})
		if err != nil {
			c.Broken("std-lib refused a valid signing request: " + err.Error())
			return nil
		}
		what := fmt.Sprintf("%s: seed=%x variant=%s ctxlen=%d msglen=%d SelfVerify=%v", class, seeds[ki], v.name, len(v.ctx), len(m), selfVerify)
		cas := map[string]string{"seed": mc.Hex(seeds[ki]), "message": mc.Hex(m), "context": mc.Hex([]byte(v.ctx)), "hash": hashName(v.hash), "want": mc.Hex(want)}
		w.Eval(class+"/sign", true)
		so := &ed.Options{Hash: v.hash, Context: v.ctx, SelfVerify: selfVerify, Verify: presets[(len(m)+len(v.ctx))%4].vo}
		if (len(m)+len(v.ctx))%5 == 4 {
			so.Verify = nil
		}
		sg := guardOpts(so)
		sig, serr, pan := callSign(func() ([]byte, error) { return priv.Sign(nil, m, so) })
		sg.check(w, "PrivateKey.Sign")
		if pan || serr != nil || !bytes.Equal(sig, want) {
			w.Fail("PrivateKey.Sign/deterministic", fmt.Sprintf("%s: got sig=%x err=%v, RFC 8032 / crypto/ed25519 signature is %x", what, sig, serr, want), cas)
		}
		// the RFC signature must verify through every hashing path of the library
		for _, p := range presets[:2] {
			o := &ed.Options{Hash: v.hash, Context: v.ctx, Verify: p.vo}
			if p.name == "Default" && len(m)%2 == 1 {
				o.Verify = nil
			}
			vg := guardOpts(o)
			defer vg.check(w, "VerifyWithOptions / VerifyExpandedWithOptions")
			w.EvalN(class+"/verify", 2, true)
			ok1, _ := callB(func() bool { return ed.VerifyWithOptions(pub, m, want, o) })
			ok2 := false
			if epk, err := ed.NewExpandedPublicKey(pub); err == nil {
				ok2, _ = callB(func() bool { return ed.VerifyExpandedWithOptions(epk, m, want, o) })
			}
			if !ok1 || !ok2 {
				w.Fail("Verify/rejects-RFC-signature/"+p.name, fmt.Sprintf("%s: VerifyWithOptions=%v VerifyExpandedWithOptions=%v on the RFC signature %x", what, ok1, ok2, want), cas)
			}
		}
		w.Eval(class+"/batch", true)
		bv := ed.NewBatchVerifier()
		o := &ed.Options{Hash: v.hash, Context: v.ctx}
		bv.AddWithOptions(pub, m, want, o)
		bv.AddWithOptions(pub, m, want, o)
		if all, each := bv.Verify(&streamReader{buf: mc.Bytes(c.Seed, "c02-sweep-batch", len(m)*256+len(v.ctx), 64)}); !all || len(each) != 2 || !each[0] || !each[1] {
			w.Fail("BatchVerifier.Verify/rejects-valid-signatures/Default", fmt.Sprintf("%s: batch of two copies: all=%v each=%v", what, all, each), cas)
		}
		return want
	}
	mustReject := func(w *mc.W, class, what string, ki int, v vr, m, sig []byte) {
		pub := rkeys[ki].Pub
		if stded.VerifyWithOptions(pub, m, sig, &stded.Options{Hash: v.hash, Context: v.ctx}) == nil {
			c.Broken("std-lib accepts a signature made for another variant/key: " + what)
			return
		}
		for _, p := range presets {
			w.Eval(class+"/reject", true)
			o := &ed.Options{Hash: v.hash, Context: v.ctx, Verify: p.vo}
			if ok, _ := callB(func() bool { return ed.VerifyWithOptions(pub, m, sig, o) }); ok {
				w.Fail("Verify/accepts-after-change", fmt.Sprintf("%s (preset %s): accepted; pub=%x sig=%x ctx=%x hash=%s msg=%x", what, p.name, pub, sig, v.ctx, hashName(v.hash), m),
					map[string]string{"public_key": mc.Hex(pub), "signature": mc.Hex(sig), "message": mc.Hex(m), "context": mc.Hex([]byte(v.ctx)), "hash": hashName(v.hash), "change": what})
			}
		}
	}

	// ---- sub-space "class-sign": every class seed signs (pure, ctx, ph) == crypto/ed25519, and the result verifies ----
	classVars := []vr{{0, "", "pure"}, {0, "class ctx", "ctx"}, {crypto.SHA512, "", "ph"}}
	signClass := func(w *mc.W, class string, sd, m []byte, v vr) {
		sp := stded.NewKeyFromSeed(sd)
		priv := ed.PrivateKey(append([]byte{}, sp...)) // the RFC key pair from the std-lib: signing is judged independently of the library's key derivation
		want, err := sp.Sign(nil, m, &stded.Options{Hash: v.hash, Context: v.ctx})
		if err != nil {
			c.Broken("std-lib refused a valid signing request: " + err.Error())
			return
		}
		what := fmt.Sprintf("%s: seed=%x variant=%s msg=%x", class, sd, v.name, m)
		cas := map[string]string{"seed": mc.Hex(sd), "message": mc.Hex(m), "context": mc.Hex([]byte(v.ctx)), "hash": hashName(v.hash), "want": mc.Hex(want)}
		w.Eval(class+"/sign", true)
		so := &ed.Options{Hash: v.hash, Context: v.ctx}
		sg := guardOpts(so)
		sig, serr, pan := callSign(func() ([]byte, error) { return priv.Sign(nil, m, so) })
		sg.check(w, "PrivateKey.Sign")
		if pan || serr != nil || !bytes.Equal(sig, want) {
			w.Fail("PrivateKey.Sign/deterministic", fmt.Sprintf("%s: got sig=%x err=%v, RFC 8032 / crypto/ed25519 signature is %x", what, sig, serr, want), cas)
		}
		w.EvalN(class+"/verify", 2, true)
		pub := []byte(sp[32:])
		ok1, _ := callB(func() bool { return ed.VerifyWithOptions(pub, m, want, so) })
		ok2 := false
		if epk, err := ed.NewExpandedPublicKey(pub); err == nil {
			ok2, _ = callB(func() bool { return ed.VerifyExpandedWithOptions(epk, m, want, so) })
		}
		if !ok1 || !ok2 {
			w.Fail("Verify/rejects-RFC-signature/Default", fmt.Sprintf("%s: VerifyWithOptions=%v VerifyExpandedWithOptions=%v on the RFC signature %x", what, ok1, ok2, want), cas)
		}
	}
	c.Par("class-sign", len(classSeeds)*len(classVars), func(w *mc.W, i int) {
		v := classVars[i%len(classVars)]
		m := mc.Bytes(c.Seed, "c02-class-msg", i, 48)
		if v.hash == crypto.SHA512 {
			m = refed.Prehash(m)
		}
		signClass(w, "class-sign", classSeeds[i/len(classVars)], m, v)
	})

	// ---- sub-space "nonce-classes": messages chosen (deterministic search) so that the nonce r = SHA-512(prefix || M) mod L,
	// computed by the reference, covers every top byte 0x00..0x0f and the radix-16 digit extremes ----
	var nonceMsgs [][]byte
	{
		rNeed := map[string]int{"r/digit -8": 2, "r/digit +7": 2, "r/nibble 7 + carry-in -> -8 with carry-out": 2, "r/digit 0": 2, "r/digit63=+0": 1, "r/digit63=+1": 1}
		for t := 0; t < 16; t++ {
			rNeed[fmt.Sprintf("r/top-byte-0x%02x", t)] = 1
		}
		rCount := map[string]int{}
		miss := func() bool {
			for cl, n := range rNeed {
				if rCount[cl] < n {
					return true
				}
			}
			return false
		}
		prefix := rkeys[3%len(rkeys)].Prefix
		for j := 0; j < 4096 && miss(); j++ {
			m := mc.Bytes(c.Seed, "c02-nonce-msg", j, 40)
			r := ref.SMod(ref.FromLE(ref.SHA512(prefix, m)))
			cls := scalarClasses("r", r)
			useful := false
			for _, cl := range cls {
				if rCount[cl] < rNeed[cl] {
					useful = true
				}
			}
			if useful {
				nonceMsgs = append(nonceMsgs, m)
				for _, cl := range cls {
					rCount[cl]++
				}
			}
		}
		for cl, n := range rCount {
			c.Rep.Classes["nonce-class/"+cl] = int64(n)
		}
		c.Rep.Extra["nonce_class_messages"] = len(nonceMsgs)
		if !c.Replaying() {
			for cl, n := range rNeed {
				c.Require("nonce-class/"+cl, int64(n))
			}
			for cl, n := range aNeed {
				c.Require("seed-class/"+cl, int64(n))
			}
		}
	}
	c.Par("nonce-classes", len(nonceMsgs), func(w *mc.W, i int) {
		signClass(w, "nonce-classes", seeds[3%len(seeds)], nonceMsgs[i], classVars[0])
	})

	// ---- sub-space "caller-memory": every byte-slice argument is a sub-slice of ONE caller buffer with spare capacity ----
	// private key, message and seed live in one arena between guard bytes (capacity of every slice reaches the end of
	// the arena).  Results must equal those for tight copies (= crypto/ed25519), the arena must be bit-identical after
	// every call, results must not alias caller memory.  Shapes: separate regions; the message IS the public half of
	// the private key; the message IS the seed half; the public key handed to Verify is a sub-slice of the private key.
	memRad := mc.Product{Radix: []int{c.Pick(4, len(seeds)), 4, 3, 4}} // key, variant, alias shape, message length
	c.Par("caller-memory", memRad.Size(), func(w *mc.W, i int) {
		var d [4]int
		memRad.Decode(i, d[:])
		ki := (d[0] * 7) % len(seeds)
		v := []vr{{0, "", "pure"}, {0, "caller-memory ctx", "ctx"}, {crypto.SHA512, "", "ph"}, {crypto.SHA512, "caller-memory ctx", "ph+ctx"}}[d[1]]
		mlen := []int{0, 33, 64, 200}[d[3]]
		if v.hash == crypto.SHA512 {
			mlen = 64
		}
		alias := d[2]
		if alias > 0 {
			mlen = 32
			if v.hash == crypto.SHA512 {
				return // a 64-byte digest cannot alias a 32-byte half
			}
			if d[3] > 0 {
				return
			}
		}
		const g = 24
		arena := make([]byte, g+64+g+mlen+g+32+g+16)
		for j := range arena {
			arena[j] = 0x5a ^ byte(j*11)
		}
		oPriv, oM, oSeed := g, g+64+g, g+64+g+mlen+g
		priv := ed.PrivateKey(arena[oPriv : oPriv+64])
		copy(priv, seeds[ki])
		copy(priv[32:], rkeys[ki].Pub)
		seed := arena[oSeed : oSeed+32]
		copy(seed, seeds[ki])
		var m []byte
		switch alias {
		case 0:
			m = arena[oM : oM+mlen]
			copy(m, mc.Bytes(c.Seed, "c02-mem-msg", i, mlen))
		case 1:
			m = priv[32:64:64]
		case 2:
			m = priv[:32]
		}
		snap := append([]byte{}, arena...)
		what := fmt.Sprintf("caller-memory: seed=%x variant=%s msglen=%d alias-shape=%d", seeds[ki], v.name, len(m), alias)
		intact := func(after string) {
			if !bytes.Equal(arena, snap) {
				w.Fail("caller-memory/modified", fmt.Sprintf("%s: caller buffer modified by %s: before %x after %x", what, after, snap, arena), nil)
				copy(arena, snap)
			}
		}
		tightM := append([]byte{}, m...)
		want, err := stdKeys[ki].Sign(nil, tightM, &stded.Options{Hash: v.hash, Context: v.ctx})
		if err != nil {
			c.Broken("std-lib refused a valid signing request: " + err.Error())
			return
		}
		for _, sv := range []bool{false, true} {
			w.Eval("caller-memory/sign", true)
			sig, serr, pan := callSign(func() ([]byte, error) {
				return priv.Sign(nil, m, &ed.Options{Hash: v.hash, Context: v.ctx, SelfVerify: sv})
			})
			intact("PrivateKey.Sign")
			if pan || serr != nil || !bytes.Equal(sig, want) {
				w.Fail("PrivateKey.Sign/deterministic", fmt.Sprintf("%s SelfVerify=%v: sig=%x err=%v, crypto/ed25519 on tight copies %x", what, sv, sig, serr, want), nil)
			}
		}
		// memory handed out (T11): a returned signature is the caller's - a later Sign must not write into it, and writing
		// into it must not influence a later Sign
		{
			o := &ed.Options{Hash: v.hash, Context: v.ctx}
			s1, _, _ := callSign(func() ([]byte, error) { return priv.Sign(nil, m, o) })
			other := append([]byte{}, tightM...)
			if len(other) > 0 {
				other[0] ^= 1
			}
			s2, _, _ := callSign(func() ([]byte, error) { return tightPriv0(priv).Sign(nil, other, o) })
			if len(s1) == 64 && !bytes.Equal(s1, want) {
				w.Fail("PrivateKey.Sign/result-overwritten", fmt.Sprintf("%s: the first signature changed to %x when another message was signed (was %x)", what, s1, want), nil)
			}
			for j := range s2 {
				s2[j] = 0xff
			}
			s3, _, _ := callSign(func() ([]byte, error) { return priv.Sign(nil, m, o) })
			if !bytes.Equal(s3, want) {
				w.Fail("PrivateKey.Sign/result-aliases-state", fmt.Sprintf("%s: after the caller overwrote an earlier result, Sign gives %x want %x", what, s3, want), nil)
			}
			intact("PrivateKey.Sign")
		}
		// randomised: the same entropy with arena arguments and with tight copies
		ent := stream(c.Seed, "c02-mem-entropy", i)
		tightPriv := ed.PrivateKey(append([]byte{}, priv...))
		w.Eval("caller-memory/sign-randomised", true)
		r1, e1, p1 := callSign(func() ([]byte, error) {
			return priv.Sign(&streamReader{buf: ent}, m, &ed.Options{Hash: v.hash, Context: v.ctx, AddedRandomness: true})
		})
		intact("PrivateKey.Sign(AddedRandomness)")
		r2, e2, p2 := callSign(func() ([]byte, error) {
			return tightPriv.Sign(&streamReader{buf: ent}, tightM, &ed.Options{Hash: v.hash, Context: v.ctx, AddedRandomness: true})
		})
		if p1 || p2 || e1 != nil || e2 != nil || !bytes.Equal(r1, r2) {
			w.Fail("PrivateKey.Sign/randomised-caller-buffer", fmt.Sprintf("%s: arena arguments give %x (err %v), tight copies %x (err %v)", what, r1, e1, r2, e2), nil)
		}
		if v.hash == 0 && v.ctx == "" {
			sig, _, pan := callSign(func() ([]byte, error) { return ed.Sign(priv, m), nil })
			intact("Sign")
			if pan || !bytes.Equal(sig, want) {
				w.Fail("Sign", fmt.Sprintf("%s: Sign()=%x want %x", what, sig, want), nil)
			}
		}
		// verification with the public key being a sub-slice of the private key and the message possibly inside it too
		pub := ed.PublicKey(priv[32:])
		for _, p := range presets {
			o := &ed.Options{Hash: v.hash, Context: v.ctx, Verify: p.vo}
			w.EvalN("caller-memory/verify", 2, true)
			ok1, _ := callB(func() bool { return ed.VerifyWithOptions(pub, m, want, o) })
			intact("VerifyWithOptions")
			ok2 := false
			if epk, err := ed.NewExpandedPublicKey(pub); err == nil {
				intact("NewExpandedPublicKey")
				ok2, _ = callB(func() bool { return ed.VerifyExpandedWithOptions(epk, m, want, o) })
				intact("VerifyExpandedWithOptions")
			}
			if !ok1 || !ok2 {
				w.Fail("Verify/rejects-RFC-signature/"+p.name, fmt.Sprintf("%s: VerifyWithOptions=%v VerifyExpandedWithOptions=%v on the RFC signature %x", what, ok1, ok2, want), nil)
			}
		}
		bv := ed.NewBatchVerifier()
		bv.AddWithOptions(pub, m, want, &ed.Options{Hash: v.hash, Context: v.ctx})
		bv.AddWithOptions(pub, m, want, &ed.Options{Hash: v.hash, Context: v.ctx, Verify: ed.VerifyOptionsStdLib})
		intact("BatchVerifier.AddWithOptions")
		w.Eval("caller-memory/batch", true)
		if all, each := bv.Verify(&streamReader{buf: ent}); !all || len(each) != 2 || !each[0] || !each[1] {
			w.Fail("BatchVerifier.Verify/rejects-valid-signatures/Default", fmt.Sprintf("%s: all=%v each=%v", what, all, each), nil)
		}
		intact("BatchVerifier.Verify")
		// accessors return copies; NewKeyFromSeed copies the seed
		w.Eval("caller-memory/accessors", true)
		if pb, ok := priv.Public().(ed.PublicKey); ok && len(pb) == 32 {
			pb[0] ^= 0xff
		}
		intact("modifying the result of PrivateKey.Public()")
		if sd := priv.Seed(); len(sd) == 32 {
			sd[0] ^= 0xff
		}
		intact("modifying the result of PrivateKey.Seed()")
		nk, _, pan := callSign(func() ([]byte, error) { return ed.NewKeyFromSeed(seed), nil })
		intact("NewKeyFromSeed")
		if pan || !bytes.Equal(nk, stdKeys[ki]) {
			w.Fail("NewKeyFromSeed", fmt.Sprintf("%s: NewKeyFromSeed(slice with spare capacity)=%x want %x", what, nk, []byte(stdKeys[ki])), nil)
		} else {
			for j := range seed {
				seed[j] = 0
			}
			if !bytes.Equal(nk, stdKeys[ki]) {
				w.Fail("NewKeyFromSeed/aliases-caller-memory", what+": the returned key changed when the caller overwrote its seed buffer", nil)
			}
			nk[0] ^= 1
			nk[40] ^= 1
			copy(seed, seeds[ki])
			intact("modifying the result of NewKeyFromSeed")
		}
	})

	// ---- sub-space "arg-lengths": every length of the fixed-size arguments ----
	c.Par("arg-lengths", c.Pick(4, 16), func(w *mc.W, i int) {
		ki := (i * 5) % len(seeds)
		v := []vr{{0, "", "pure"}, {0, "arg-lengths", "ctx"}, {crypto.SHA512, "", "ph"}, {crypto.SHA512, "arg-lengths", "ph+ctx"}}[i%4]
		priv := ed.PrivateKey(append(append([]byte{}, seeds[ki]...), rkeys[ki].Pub...))
		m := mc.Bytes(c.Seed, "c02-arglen-msg", i, 64)
		long := bytes.Repeat(priv, 3)
		for n := 0; n <= 130; n++ {
			if n != 64 {
				for ar := 0; ar < 2; ar++ {
					w.Eval("arg-lengths/private-key", false)
					sig, err, pan := callSign(func() ([]byte, error) {
						return ed.PrivateKey(long[:n]).Sign(constReader(3), m, &ed.Options{Hash: v.hash, Context: v.ctx, AddedRandomness: ar == 1})
					})
					mustErr(w, "PrivateKey.Sign/key-length", fmt.Sprintf("variant=%s keylen=%d AddedRandomness=%v", v.name, n, ar == 1), sig, err, pan)
				}
				if v.hash == crypto.SHA512 {
					w.Eval("arg-lengths/ph-digest", false)
					sig, err, pan := callSign(func() ([]byte, error) {
						return priv.Sign(nil, long[:n], &ed.Options{Hash: v.hash, Context: v.ctx})
					})
					mustErr(w, "PrivateKey.Sign/ph-digest-length", fmt.Sprintf("variant=%s digest length %d", v.name, n), sig, err, pan)
				}
			}
			if n <= 70 && n != 32 {
				w.Eval("arg-lengths/seed", false)
				if _, _, pan := callSign(func() ([]byte, error) { return ed.NewKeyFromSeed(long[:n]), nil }); !pan {
					w.Fail("NewKeyFromSeed/length", fmt.Sprintf("documented panic missing for seed length %d", n), nil)
				}
			}
		}
		for cl := 256; cl <= 300; cl++ {
			w.Eval("arg-lengths/context", false)
			sig, err, pan := callSign(func() ([]byte, error) {
				return priv.Sign(nil, m, &ed.Options{Hash: v.hash, Context: string(bytes.Repeat([]byte{7}, cl))})
			})
			mustErr(w, "PrivateKey.Sign/invalid-options", fmt.Sprintf("variant=%s context length %d", v.name, cl), sig, err, pan)
		}
	})

	// ---- sub-space "collisions": force collisions on anything state could be keyed by ----
	// Every index owns a context nobody else uses (so the order of first use is fixed and the case replays alone): the
	// same context under ctx then ph (odd indices: ph then ctx), the same 64-byte message under pure/ctx/ph/ph+ctx, each
	// signature offered under the next variant (must be rejected), the same message and context under a second key, a
	// randomised and a self-verified request in between, and every variant once more at the end.
	collLens := []int{4, 32, 95, 100, 158, 255}
	c.Par("collisions", c.Pick(48, 240), func(w *mc.W, i int) {
		ctx := string(mc.Bytes(c.Seed, "c02-collision-context", i, collLens[i%len(collLens)]))
		m := mc.Bytes(c.Seed, "c02-collision-message", i, 64)
		vs := []vr{{0, ctx, "ctx"}, {crypto.SHA512, ctx, "ph+ctx"}, {0, "", "pure"}, {crypto.SHA512, "", "ph"}}
		if i%2 == 1 {
			vs[0], vs[1] = vs[1], vs[0]
			vs[2], vs[3] = vs[3], vs[2]
		}
		k0, k1 := i%len(seeds), (i+1)%len(seeds)
		sigs := make([][]byte, len(vs))
		for j, v := range vs {
			sigs[j] = signAndCheck(w, "collision", k0, v, m, j%2 == 1)
			if j > 0 && sigs[j-1] != nil {
				mustReject(w, "collision", "signature of variant "+vs[j-1].name+" offered as "+v.name+" (same key, message, context)", k0, v, m, sigs[j-1])
			}
			if j == 0 {
				// a randomised request with the same key / context / message in between
				priv := ed.PrivateKey(append(append([]byte{}, seeds[k0]...), rkeys[k0].Pub...))
				w.Eval("collision/randomised-in-between", true)
				rs, err, pan := callSign(func() ([]byte, error) {
					return priv.Sign(constReader(byte(i)), m, &ed.Options{Hash: v.hash, Context: v.ctx, AddedRandomness: true})
				})
				if pan || err != nil || len(rs) != 64 || stded.VerifyWithOptions(rkeys[k0].Pub, m, rs, &stded.Options{Hash: v.hash, Context: v.ctx}) != nil {
					w.Fail("PrivateKey.Sign/randomised", fmt.Sprintf("collision index %d: randomised signature %x err=%v is not valid for crypto/ed25519", i, rs, err), nil)
				}
			}
		}
		other := signAndCheck(w, "collision", k1, vs[0], m, false)
		if other != nil && sigs[0] != nil {
			mustReject(w, "collision", "signature of another key on the same message and context", k0, vs[0], m, other)
			mustReject(w, "collision", "signature of another key on the same message and context", k1, vs[0], m, sigs[0])
		}
		for _, v := range vs {
			signAndCheck(w, "collision-revisit", k0, v, m, false)
		}
	})

	// ---- sub-space "length-sweep": EVERY message length 0..300 x context lengths {0,1,32,95,100,158,254,255}; every context
	// length 0..255 for ph (64-byte digest) and for ctx with message lengths 0 and 64 — sign == crypto/ed25519 and the RFC
	// signature verifies (plain, expanded, batch).  Contexts and messages are prefixes of two fixed strings, so ctx and
	// ph share every context and all contexts share every message.
	type sweepCase struct {
		v  vr
		n  int
		ki int
	}
	var sweep []sweepCase
	{
		ctxBase := string(mc.Bytes(c.Seed, "c02-sweep-context", 0, 255))
		for _, ki := range []int{3 % len(seeds), 1} {
			for _, cl := range []int{0, 1, 32, 95, 100, 158, 254, 255} {
				for n := 0; n <= 300; n++ {
					sweep = append(sweep, sweepCase{vr{0, ctxBase[:cl], "pure/ctx"}, n, ki})
				}
			}
			for cl := 0; cl <= 255; cl++ {
				sweep = append(sweep, sweepCase{vr{crypto.SHA512, ctxBase[:cl], "ph"}, 64, ki})
				if cl > 0 {
					sweep = append(sweep, sweepCase{vr{0, ctxBase[:cl], "ctx"}, 0, ki}, sweepCase{vr{0, ctxBase[:cl], "ctx"}, 64, ki})
				}
			}
		}
	}
	c.Rep.Extra["length_sweep_cases"] = len(sweep)
	sweepMsg := mc.Bytes(c.Seed, "c02-sweep-message", 0, 300)
	c.Par("length-sweep", len(sweep), func(w *mc.W, i int) {
		sc := sweep[i]
		m := sweepMsg[:sc.n]
		if sc.v.hash == crypto.SHA512 {
			m = refed.Prehash(sweepMsg[:sc.n+i%7])
		}
		signAndCheck(w, "length-sweep", sc.ki, sc.v, m, i%3 == 0)
	})

	// ---- sub-space "cache-twin": RFC signatures of many keys through a cache.Verifier with a small LRU ----
	// every key twice in a row (a miss that may evict, then a hit on the entry just inserted), more keys than the cache
	// holds; the RFC signature must verify, a changed one must not, directly and through a batch filled via the cache.
	c.Par("cache-twin", c.Pick(6, 24), func(w *mc.W, i int) {
		cv := cache.NewVerifier(cache.NewLRUCache(1 + i%3))
		v := []vr{{0, "", "pure"}, {0, "cache ctx", "ctx"}, {crypto.SHA512, "", "ph"}, {crypto.SHA512, "cache ctx", "ph+ctx"}}[i%4]
		for step := 0; step < 32; step++ {
			ki := ((step/2)*(1+i%2) + i) % len(seeds)
			m := mc.Bytes(c.Seed, "c02-cache-msg", i*64+step, 64)
			sig, err := stdKeys[ki].Sign(nil, m, &stded.Options{Hash: v.hash, Context: v.ctx})
			if err != nil {
				c.Broken("std-lib refused a valid signing request: " + err.Error())
				return
			}
			pub := rkeys[ki].Pub
			bad := append([]byte{}, sig...)
			bad[(step*5)%64] ^= 1 << uint(step%8)
			o := &ed.Options{Hash: v.hash, Context: v.ctx, Verify: verifyChoices[(step+i)%5]}
			og := guardOpts(o)
			w.EvalN("cache-twin/verify", 2, true)
			ok1, _ := callB(func() bool { return cv.VerifyWithOptions(pub, m, sig, o) })
			ok2, _ := callB(func() bool { return cv.VerifyWithOptions(pub, m, bad, o) })
			bv := ed.NewBatchVerifier()
			cv.AddWithOptions(bv, pub, m, sig, o)
			cv.AddWithOptions(bv, pub, m, bad, o)
			_, each := bv.Verify(constReader(byte(step)))
			og.check(w, "cache.Verifier.VerifyWithOptions / AddWithOptions")
			if !ok1 || ok2 || len(each) != 2 || !each[0] || each[1] {
				w.Fail("cache.Verifier/disagrees", fmt.Sprintf("step %d, key %x (%s): RFC signature -> %v, changed signature -> %v, batch [RFC, changed] -> %v", step, pub, v.name, ok1, ok2, each),
					map[string]string{"public_key": mc.Hex(pub), "message": mc.Hex(m), "signature": mc.Hex(sig)})
			}
		}
	})

	// ---- sub-space "mutations": a produced signature stops verifying after ANY change ----
	type mcase struct {
		seed      []byte
		mlen      int
		ctx       string
		hash      crypto.Hash
		randomise bool
	}
	var mcases []mcase
	nm := c.Pick(8, 64)
	for j := 0; j < nm; j++ {
		mcases = append(mcases, mcase{seeds[(3+j)%len(seeds)], []int{33, 0, 64, 129, 1, 255}[j%6], contexts[j%3], hashes[(j/3)%2], j%2 == 1})
	}
	const nSig, nKey, nOther = 512, 256, 40
	per := nSig + nKey + nOther
	type prepared struct {
		pub, m, sig []byte
	}
	prep := make([]prepared, len(mcases))
	for j, mcs := range mcases {
		msg := mc.Bytes(c.Seed, "c02-mut-msg", j, mcs.mlen)
		if mcs.hash == crypto.SHA512 {
			msg = refed.Prehash(msg)
		}
		// the deterministic signature comes from the reference (independent of the library); the randomised one can only
		// come from the library - if that fails (reported by the "sign" sub-space) the deterministic one is used instead.
		rk := refed.NewKey(mcs.seed)
		sig := rk.Sign(variantOf(mcs.hash, mcs.ctx), msg)
		if mcs.randomise {
			priv := ed.PrivateKey(append(append([]byte{}, mcs.seed...), rk.Pub...))
			rs, err, _ := callSign(func() ([]byte, error) {
				return priv.Sign(&streamReader{buf: stream(c.Seed, "c02-mut-entropy", j)}, msg, &ed.Options{Hash: mcs.hash, Context: mcs.ctx, AddedRandomness: true})
			})
			if err == nil && len(rs) == 64 {
				sig = rs
			}
		}
		prep[j] = prepared{rk.Pub, msg, sig}
	}
	c.Par("mutations", len(mcases)*per, func(w *mc.W, i int) {
		mcs, p := mcases[i/per], prep[i/per]
		j := i % per
		pub, m, sig := append([]byte{}, p.pub...), append([]byte{}, p.m...), append([]byte{}, p.sig...)
		hash, ctx := mcs.hash, mcs.ctx
		what := ""
		switch {
		case j < nSig:
			sig[j/8] ^= 1 << uint(j%8)
			what = fmt.Sprintf("signature bit %d flipped", j)
		case j < nSig+nKey:
			b := j - nSig
			pub[b/8] ^= 1 << uint(b%8)
			what = fmt.Sprintf("public key bit %d flipped", b)
		default:
			o := j - nSig - nKey
			switch {
			case o == 0:
				what = "unmodified"
			case o >= 1 && o <= 16: // message bit flips: bits of the first and last byte
				if len(m) == 0 {
					return
				}
				if o <= 8 {
					m[0] ^= 1 << uint(o-1)
				} else {
					m[len(m)-1] ^= 1 << uint(o-9)
				}
				what = fmt.Sprintf("message bit flip #%d", o)
			case o == 17:
				if hash == crypto.SHA512 {
					return
				}
				m = append(m, 0)
				what = "message extended by 0x00"
			case o == 18:
				if hash == crypto.SHA512 || len(m) == 0 {
					return
				}
				m = m[:len(m)-1]
				what = "message truncated"
			case o == 19:
				if hash == crypto.SHA512 {
					return
				}
				m = append([]byte{0}, m...)
				what = "message prefixed"
			case o == 20:
				if ctx == "" {
					ctx = "\x00"
				} else {
					b := []byte(ctx)
					b[0] ^= 1
					ctx = string(b)
				}
				what = "context changed"
			case o == 21:
				if ctx == "" {
					ctx = "ctx"
				} else {
					ctx = ctx[:len(ctx)-1]
				}
				what = "context length changed"
			case o == 22:
				if len(m) != 64 {
					return
				}
				if hash == crypto.SHA512 {
					hash = 0
				} else {
					hash = crypto.SHA512
				}
				what = "ph toggled"
			case o == 23: // S + L
				copy(sig[32:], ref.LE32(new(big.Int).Add(ref.FromLE(sig[32:]), ref.L)))
				what = "S replaced by S+L"
			case o == 24: // -R
				sig[31] ^= 0x80
				what = "R negated"
			case o == 25: // signature of the other half: (R, L - S)
				copy(sig[32:], ref.LE32(ref.SNeg(ref.FromLE(sig[32:]))))
				what = "S negated"
			default:
				return
			}
		}
		expect := what == "unmodified"
		for _, pr := range presets {
			o := &ed.Options{Hash: hash, Context: ctx, Verify: pr.vo}
			w.EvalN("after-change/"+pr.name, 2, true)
			got, pan := callB(func() bool { return ed.VerifyWithOptions(pub, m, sig, o) })
			gotE := expect
			if epk, err := ed.NewExpandedPublicKey(pub); err == nil {
				gotE, _ = callB(func() bool { return ed.VerifyExpandedWithOptions(epk, m, sig, o) })
			} else if expect {
				gotE = false
			}
			if got != expect || gotE != expect || pan {
				w.Fail("Verify/accepts-after-change", fmt.Sprintf("%s (randomised=%v, preset %s): VerifyWithOptions=%v VerifyExpandedWithOptions=%v panic=%v, expected %v; pub=%x sig=%x ctx=%x hash=%v msg=%x",
					what, mcs.randomise, pr.name, got, gotE, pan, expect, pub, sig, ctx, hash, m),
					map[string]string{"public_key": mc.Hex(pub), "signature": mc.Hex(sig), "message": mc.Hex(m), "context": mc.Hex([]byte(ctx)), "hash": fmt.Sprint(hash), "change": what})
			}
		}
		if j == 100 {
			w.Sample(map[string]string{"sub": "mutations", "change": what, "randomised": fmt.Sprint(mcs.randomise), "signature": mc.Hex(sig)})
		}
	})

	// ---- sub-space "bigbatch": RFC 8032 signatures (std-lib generated, so independent of the library) in batches
	// of sizes around the expansion / Pippenger thresholds ----
	{
		var pool []sigRec
		for j := 0; j < 420; j++ {
			seed := seeds[j%len(seeds)]
			hash, ctx := hashes[(j/3)%2], contexts[j%3]
			m := mc.Bytes(c.Seed, "c02-pool-msg", j, alph.Lengths[j%len(alph.Lengths)])
			if hash == crypto.SHA512 {
				m = refed.Prehash(m)
			}
			sp := stded.NewKeyFromSeed(seed)
			sig, err := sp.Sign(nil, m, &stded.Options{Hash: hash, Context: ctx})
			if err != nil {
				c.Broken("bigbatch: std-lib could not sign: " + err.Error())
				return
			}
			pool = append(pool, sigRec{pub: []byte(sp[32:]), m: m, sig: sig, hash: hash, ctx: ctx})
		}
		sizes := []int{1, 2, 3, 8, 64, 93, 94, 95, 128, 190, 191}
		c.Par("bigbatch", len(sizes), func(w *mc.W, i int) {
			n := sizes[i]
			off := (i * 131) % (len(pool) - n + 1)
			h.batchSuite(w, fmt.Sprintf("batch of %d RFC 8032 signatures", n), pool[off:off+n], 1000000+i)
			// the same sizes with ONE invalid member (first / last position): the batch must fail and the per-entry
			// answers must single out exactly that member, on both sides of every dispatch threshold (T14)
			for _, pos := range []int{0, n - 1} {
				for pi, p := range []presetT{presets[0], presets[3]} {
					for mode := 0; mode < 2; mode++ {
						bv := ed.NewBatchVerifier()
						if mode == 1 {
							bv.ForceNoPublicKeyExpansion()
						}
						for j, r := range pool[off : off+n] {
							sig := r.sig
							if j == pos {
								sig = append([]byte{}, r.sig...)
								sig[(i*7+pos)%64] ^= 1 << uint((i+pi)%8)
							}
							bv.AddWithOptions(r.pub, r.m, sig, &ed.Options{Hash: r.hash, Context: r.ctx, Verify: p.vo})
						}
						all, each := bv.Verify(&streamReader{buf: mc.Bytes(c.Seed, "c02-bigbatch-invalid", i*16+pi*4+mode*2+pos%2, 64)})
						w.EvalN("bigbatch-one-invalid/"+p.name, int64(n), true)
						bad := all || len(each) != n
						for j, e := range each {
							bad = bad || e != (j != pos)
						}
						if bad {
							w.Fail("BatchVerifier.Verify/one-invalid-member/"+p.name, fmt.Sprintf("batch of %d with a changed signature at position %d (preset %s, mode %d): all=%v, wrong per-entry answers: %v", n, pos, p.name, mode, all, each), nil)
						}
						if only := bv.VerifyBatchOnly(&streamReader{buf: mc.Bytes(c.Seed, "c02-bigbatch-invalid2", i*16+pi*4+mode*2+pos%2, 64)}); only {
							w.Fail("BatchVerifier.VerifyBatchOnly/one-invalid-member/"+p.name, fmt.Sprintf("batch of %d with a changed signature at position %d accepted by VerifyBatchOnly", n, pos), nil)
						}
						presetsIntact(w, "BatchVerifier.Verify")
					}
				}
			}
		})
	}

	for _, p := range presets {
		c.Require("after-change/"+p.name, 1000)
	}
	for _, v := range []string{"pure", "ctx", "ph", "ph+ctx"} {
		c.Require("deterministic/"+v, 50)
	}
	c.Require("randomised/streamA", 50)
	c.Require("randomised/failing-reader", 50)
	c.Require("invalid-options/error", 50)
	c.Require("selfverify/corrupted-public-half", 50)
	c.Require("collision/sign", 100)
	c.Require("class-sign/sign", 60)
	c.Require("cache-twin/verify", 100)
	c.Require("caller-memory/sign", 40)
	c.Require("arg-lengths/private-key", 500)
	c.Require("randomised/retry-after-failure", 50)
	c.Require("collision/reject", 100)
	c.Require("length-sweep/sign", 3000)
	c.Require("randomised/zero", 50)
	c.Require("randomised/streamB", 50)
	c.Require("randomised/streamA-one-byte-reads", 50)
	hashIdentifiers(c)
}

func tightPriv0(p ed.PrivateKey) ed.PrivateKey { return ed.PrivateKey(append([]byte{}, p...)) }

func hashName(h crypto.Hash) string {
	if h == 0 {
		return "0"
	}
	return h.String()
}

func variantName(hash crypto.Hash, ctx string) string {
	switch {
	case hash == crypto.SHA512 && ctx != "":
		return "ph+ctx"
	case hash == crypto.SHA512:
		return "ph"
	case ctx != "":
		return "ctx"
	}
	return "pure"
}
