package main

// hash-identifiers: the complete domain of crypto.Hash identifiers (0..31: every identifier the standard library
// defines, and unassigned ones) as Options.Hash and as a bare crypto.Hash SignerOpts, in a binary that LINKS every
// 64-byte hash available to the module (SHA-512, SHA3-512, BLAKE2b-512 - whether an identifier is "available" depends
// on what the program imports, and a library that derives its Ed25519ph test from Hash.Size()/Available() behaves
// differently in such a binary).  The only valid requests are Hash == 0 (pure / ctx) and Hash == SHA-512 with a 64-byte
// message (ph); everything else must yield an error and no signature, and VerifyWithOptions must never accept.

import (
	"bytes"
	"crypto"
	stded "crypto/ed25519"
	_ "crypto/md5"
	_ "crypto/sha1"
	_ "crypto/sha256"
	"crypto/sha512"
	"fmt"

	_ "golang.org/x/crypto/blake2b"
	_ "golang.org/x/crypto/blake2s"
	_ "golang.org/x/crypto/sha3"

	"github.com/oasisprotocol/curve25519-voi/internal/verif/mc"
	ed "github.com/oasisprotocol/curve25519-voi/primitives/ed25519"
)

func hashIdentifiers(c *mc.Ctx) {
	seed := mc.Bytes(c.Seed, "c02-hashid-seed", 0, 32)
	priv := ed.NewKeyFromSeed(seed)
	pub := priv.Public().(ed.PublicKey)
	stdPriv := stded.NewKeyFromSeed(seed)
	msgLens := []int{64, 32, 0, 48, 28, 20, 16}
	ctxs := []string{"", "hash-id ctx"}
	const nHash = 32
	n := nHash * len(msgLens) * len(ctxs) * 3
	c.Par("hash-identifiers", n, func(w *mc.W, i int) {
		h := crypto.Hash(i % nHash)
		mlen := msgLens[(i/nHash)%len(msgLens)]
		ctx := ctxs[(i/nHash/len(msgLens))%len(ctxs)]
		mode := i / nHash / len(msgLens) / len(ctxs) // 0: *Options, 1: *Options with AddedRandomness+SelfVerify, 2: bare crypto.Hash
		msg := mc.Bytes(c.Seed, "c02-hashid-msg", mlen, mlen)
		if h == crypto.SHA512 && mlen == 64 {
			d := sha512.Sum512(msg)
			msg = d[:]
		}
		valid := h == 0 || (h == crypto.SHA512 && mlen == 64)
		if mode == 2 && ctx != "" {
			ctx = "" // a bare crypto.Hash carries no context
		}
		linked := h != 0 && h < 32 && h.Available()
		w.Eval(fmt.Sprintf("hash-identifiers/valid=%v/linked=%v", valid, linked), !valid)
		cas := map[string]string{"hash": fmt.Sprint(uint(h)), "name": hashName(h), "linked": fmt.Sprint(linked), "msglen": fmt.Sprint(mlen), "ctx": ctx, "mode": fmt.Sprint(mode)}
		var opts crypto.SignerOpts
		switch mode {
		case 0:
			opts = &ed.Options{Hash: h, Context: ctx}
		case 1:
			opts = &ed.Options{Hash: h, Context: ctx, AddedRandomness: true, SelfVerify: true}
		default:
			opts = h
		}
		var sig []byte
		var err error
		var panicked interface{}
		func() {
			defer func() { panicked = recover() }()
			sig, err = priv.Sign(bytes.NewReader(make([]byte, 64)), msg, opts)
		}()
		if panicked != nil {
			w.Fail("PrivateKey.Sign/hash-identifier/panic", fmt.Sprintf("Sign with Hash=%s (%d) on %d bytes panicked: %v", hashName(h), uint(h), mlen, panicked), cas)
			return
		}
		if !valid {
			if err == nil || sig != nil {
				w.Fail("PrivateKey.Sign/hash-identifier/invalid-accepted", fmt.Sprintf("Sign with the invalid pre-hash identifier %s (%d, linked into this binary: %v) and a %d-byte message returned sig=%x err=%v; want an error and no signature",
					hashName(h), uint(h), linked, mlen, sig, err), cas)
			}
		} else {
			if err != nil || len(sig) != 64 {
				w.Fail("PrivateKey.Sign/hash-identifier/valid-refused", fmt.Sprintf("Sign with Hash=%s on %d bytes: err=%v", hashName(h), mlen, err), cas)
				return
			}
			if mode != 1 {
				want, e2 := stdPriv.Sign(nil, msg, &stded.Options{Hash: h, Context: ctx})
				if e2 == nil && !bytes.Equal(sig, want) {
					w.Fail("PrivateKey.Sign/hash-identifier/value", fmt.Sprintf("Sign with Hash=%s: %x, crypto/ed25519 gives %x", hashName(h), sig, want), cas)
				}
			}
		}
		// verification under the same identifier: a signature made for the valid variant of the same message must not be
		// accepted under an invalid identifier (a panic counts as a refusal)
		if !valid && mlen == 64 {
			d := sha512.Sum512(mc.Bytes(c.Seed, "c02-hashid-msg", mlen, mlen))
			phSig, _ := stdPriv.Sign(nil, d[:], &stded.Options{Hash: crypto.SHA512, Context: ctx})
			for _, m := range [][]byte{msg, d[:]} {
				ok := false
				func() {
					defer func() { _ = recover() }()
					ok = ed.VerifyWithOptions(pub, m, phSig, &ed.Options{Hash: h, Context: ctx})
				}()
				if ok {
					w.Fail("VerifyWithOptions/hash-identifier/invalid-accepted", fmt.Sprintf("VerifyWithOptions accepted an Ed25519ph signature under the invalid pre-hash identifier %s (%d)", hashName(h), uint(h)), cas)
				}
			}
		}
	})
	c.Require("hash-identifiers/valid=false/linked=true", 20)
	c.Require("hash-identifiers/valid=false/linked=false", 20)
	c.Require("hash-identifiers/valid=true/linked=true", 2)
}
