package main

import (
	"bytes"
	"fmt"

	"github.com/oasisprotocol/curve25519-voi/internal/verif/mc"
	"github.com/oasisprotocol/curve25519-voi/primitives/ed25519"
	"github.com/oasisprotocol/curve25519-voi/primitives/ed25519/extra/ecvrf"
)

// Memory the package hands out, and defaults (themes T11 / T12).
//
// Every slice returned by Prove*, ProveWithAddedRandomness*, Verify* (beta) and ProofToHash must be the
// caller's own: overwriting it changes neither another returned slice, nor a later result, nor an input;
// and overwriting the inputs after the call does not change what was returned earlier (the result does
// not alias the private key, alpha, the proof or library state).  nil and empty alpha are the same input.
// One goroutine: the observation is about state shared between calls.

func seq(c *mc.Ctx, sub string, n int, f func(w *mc.W, i int)) {
	c.Seq(sub, n, func(w *mc.W, i int) {
		defer func() {
			if r := recover(); r != nil {
				if he, ok := r.(harnessErr); ok {
					c.Broken(fmt.Sprintf("%s:%d: %s", sub, i, string(he)))
					return
				}
				w.Fail("panic", fmt.Sprintf("unexpected panic in case: %v", r), nil)
			}
		}()
		f(w, i)
	})
}

func ffill(b []byte) {
	for i := range b {
		b[i] = 0xff
	}
}

func runReturned(c *mc.Ctx, keys []keyT, alphas []named) {
	als := []named{{[]byte{}, "alpha=empty"}, alphas[5%len(alphas)], alphas[len(alphas)-1]}
	ks := []keyT{keys[0], keys[4%len(keys)]}
	p := mc.Product{Radix: []int{len(ks), len(als), len(formats)}}
	seq(c, "returned-slices", p.Size(), func(w *mc.W, i int) {
		var d [3]int
		p.Decode(i, d[:])
		k, al, f := ks[d[0]], als[d[1]], formats[d[2]]
		a := apiFor(f)
		tr := proveRef(f, k.ref, al.b)
		w.Eval("returned-slices/"+f.String(), true)
		fail := func(fn, what string) {
			w.Fail("ecvrf."+fn+"/returned-slice-aliased", fmt.Sprintf("%s %s %s: %s", k.desc, al.desc, f, what), caseMap(f, k.pk, tr.Pi, al.b, "key", k.desc))
		}
		cp := func(b []byte) []byte { return append(make([]byte, 0, len(b)), b...) }

		// Prove*: two results are independent of each other, of later results and of the inputs
		sk, alpha := ed25519.PrivateKey(cp(k.sk)), cp(al.b)
		pi1, pi2 := a.prove(sk, alpha), a.prove(sk, alpha)
		ffill(pi1)
		if !bytes.Equal(pi2, tr.Pi) {
			fail("Prove"+a.name, fmt.Sprintf("overwriting one returned proof changed the proof returned by another call (%x, want %x)", pi2, tr.Pi))
		}
		if !bytes.Equal(sk, k.sk) || !bytes.Equal(alpha, al.b) {
			fail("Prove"+a.name, "overwriting the returned proof changed the private key or alpha (the proof aliases an input)")
		}
		if pi3 := a.prove(sk, alpha); !bytes.Equal(pi3, tr.Pi) {
			fail("Prove"+a.name, fmt.Sprintf("overwriting a returned proof changed the result of a later call (%x, want %x)", pi3, tr.Pi))
		}
		pi4 := a.prove(sk, alpha)
		ffill(sk)
		ffill(alpha)
		if !bytes.Equal(pi4, tr.Pi) {
			fail("Prove"+a.name, fmt.Sprintf("overwriting the private key and alpha after the call changed the proof returned earlier (%x, want %x)", pi4, tr.Pi))
		}

		// ProveWithAddedRandomness*: same entropy stream -> same proof, independent slices
		sk, alpha = ed25519.PrivateKey(cp(k.sk)), cp(al.b)
		r1, e1 := a.proveRand(stream(c.Seed, "A", 0, -1), sk, alpha)
		r2, e2 := a.proveRand(stream(c.Seed, "A", 0, -1), sk, alpha)
		if e1 != nil || e2 != nil || !bytes.Equal(r1, r2) {
			fail("ProveWithAddedRandomness"+a.name, fmt.Sprintf("same entropy stream, different proofs: (%x, %v) (%x, %v)", r1, e1, r2, e2))
		} else {
			keep := cp(r2)
			ffill(r1)
			ffill(sk)
			ffill(alpha)
			if !bytes.Equal(r2, keep) {
				fail("ProveWithAddedRandomness"+a.name, "overwriting one returned proof or the inputs changed the proof returned by another call")
			}
		}

		// ProofToHash: beta is independent of the proof buffer and of other betas
		pi := cp(tr.Pi)
		b1, err1 := ecvrf.ProofToHash(pi)
		b2, err2 := ecvrf.ProofToHash(pi)
		if err1 != nil || err2 != nil || !bytes.Equal(b1, tr.Beta) {
			fail("ProofToHash", fmt.Sprintf("(%x, %v), want %x", b1, err1, tr.Beta))
		}
		ffill(b1)
		if !bytes.Equal(pi, tr.Pi) {
			fail("ProofToHash", "overwriting the returned beta changed the proof (beta aliases the input)")
		}
		if !bytes.Equal(b2, tr.Beta) {
			fail("ProofToHash", "overwriting one returned beta changed the beta returned by another call")
		}
		b3, _ := ecvrf.ProofToHash(pi)
		ffill(pi)
		if !bytes.Equal(b3, tr.Beta) {
			fail("ProofToHash", "overwriting the proof after the call changed the beta returned earlier, or an earlier overwritten beta changed a later result")
		}

		// Verify*: beta is independent of pk, pi, alpha and of other betas
		pk, pi, alpha := ed25519.PublicKey(cp(k.pk)), cp(tr.Pi), cp(al.b)
		ok1, v1 := a.verify(pk, pi, alpha)
		ok2, v2 := a.verify(pk, pi, alpha)
		if !ok1 || !ok2 || !bytes.Equal(v1, tr.Beta) {
			fail("Verify"+a.name, fmt.Sprintf("(%v, %x), want (true, %x)", ok1, v1, tr.Beta))
		}
		ffill(v1)
		if !bytes.Equal(pk, k.pk) || !bytes.Equal(pi, tr.Pi) || !bytes.Equal(alpha, al.b) {
			fail("Verify"+a.name, "overwriting the returned beta changed an input (beta aliases an input)")
		}
		if !bytes.Equal(v2, tr.Beta) {
			fail("Verify"+a.name, "overwriting one returned beta changed the beta returned by another call")
		}
		ok3, v3 := a.verify(pk, pi, alpha)
		ffill(pk)
		ffill(pi)
		ffill(alpha)
		if !ok3 || !bytes.Equal(v3, tr.Beta) {
			fail("Verify"+a.name, "overwriting the inputs after the call changed the beta returned earlier, or an earlier overwritten beta changed a later result")
		}

		// T12: nil alpha is the empty alpha, in every entry point (the reference knows only the value)
		if len(al.b) == 0 {
			w.Eval("returned-slices/nil-vs-empty-alpha", true)
			if pn := a.prove(k.sk, nil); !bytes.Equal(pn, tr.Pi) {
				fail("Prove"+a.name, fmt.Sprintf("Prove(sk, nil) = %x, Prove(sk, empty) = RFC = %x", pn, tr.Pi))
			}
			okN, vN := a.verify(k.pk, tr.Pi, nil)
			okE, vE := a.verify(k.pk, tr.Pi, []byte{})
			if !okN || !okE || !bytes.Equal(vN, tr.Beta) || !bytes.Equal(vE, tr.Beta) {
				fail("Verify"+a.name, fmt.Sprintf("nil alpha (%v, %x) vs empty alpha (%v, %x), want (true, %x)", okN, vN, okE, vE, tr.Beta))
			}
			rn, en := a.proveRand(stream(c.Seed, "A", 0, -1), k.sk, nil)
			re, ee := a.proveRand(stream(c.Seed, "A", 0, -1), k.sk, []byte{})
			if en != nil || ee != nil || !bytes.Equal(rn, re) {
				fail("ProveWithAddedRandomness"+a.name, "nil alpha and empty alpha give different proofs for the same entropy stream")
			}
		}
	})
}
