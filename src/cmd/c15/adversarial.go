package main

import (
	"bytes"
	"fmt"
	"math/big"

	"github.com/oasisprotocol/curve25519-voi/internal/verif/mc"
	"github.com/oasisprotocol/curve25519-voi/internal/verif/ref"
	"github.com/oasisprotocol/curve25519-voi/internal/verif/ref/refh2c"
	"github.com/oasisprotocol/curve25519-voi/internal/verif/ref/refvrf"
)

type proofCase struct {
	k  keyT
	al named
	f  refvrf.Format
	tr refvrf.Trace
}

// pickProofs: the honest proofs that are attacked bit by bit.
func pickProofs(c *mc.Ctx, keys []keyT, alphas []named) []proofCase {
	ks := []int{0, 4}
	as := []int{1, 6}
	if c.Thorough {
		ks = []int{0, 2, 5}
		as = []int{0, 10}
	}
	var out []proofCase
	for x, ki := range ks {
		for y, ai := range as {
			if !c.Thorough && x != y {
				continue // quick: (key0, alpha1, RFC 9381), (key4, alpha6, draft-10)
			}
			for fi, f := range formats {
				if !c.Thorough && fi != x {
					continue // quick: one format per (key, alpha)
				}
				k, al := keys[ki%len(keys)], alphas[ai%len(alphas)]
				out = append(out, proofCase{k, al, f, proveRef(f, k.ref, al.b)})
			}
		}
	}
	return out
}

func runFlips(c *mc.Ctx, keys []keyT, alphas []named) {
	proofs := pickProofs(c, keys, alphas)
	c.Rep.Extra["flip_proofs"] = len(proofs)
	const nbits = 8*refvrf.ProofLen + 8*32
	par(c, "flips", len(proofs)*nbits, func(w *mc.W, i int) {
		pc := proofs[i/nbits]
		bit := i % nbits
		extra := []string{"key", pc.k.desc, "alpha_desc", pc.al.desc, "flipped_bit", fmt.Sprint(bit)}
		if bit >= 8*refvrf.ProofLen {
			// a public key that differs in one bit
			b := bit - 8*refvrf.ProofLen
			pk := append([]byte{}, pc.k.pk...)
			pk[b/8] ^= 1 << uint(b%8)
			refOK, _, _, _ := checkVerify(w, "flip/pk", pc.f, pk, pc.tr.Pi, pc.al.b, extra...)
			if refOK {
				panic(harnessErr("reference verifier accepts a proof under a public key with one bit flipped"))
			}
			return
		}
		pi := append([]byte{}, pc.tr.Pi...)
		pi[bit/8] ^= 1 << uint(bit%8)
		class := "flip/c"
		switch {
		case bit < 256:
			if _, ok := refvrf.StringToPoint(pi[:32]); ok {
				class = "flip/gamma-other-point"
			} else {
				class = "flip/gamma-undecodable"
			}
		case bit >= 384:
			if leInt(pi[48:]).Cmp(ref.L) >= 0 {
				class = "flip/s>=L"
			} else {
				class = "flip/s<L"
			}
		}
		refOK, _, _, _ := checkVerify(w, class, pc.f, pc.k.pk, pi, pc.al.b, extra...)
		if refOK {
			panic(harnessErr("reference verifier accepts a proof with one bit flipped"))
		}
		checkProofToHash(w, "flip/proof-to-hash", pi)
	})
}

type gammaStr struct {
	b    []byte
	desc string
}

// gammaAlphabet: Gamma strings around an honest proof: valid points, small-order points,
// every non-canonical string (y >= p, and x = 0 with the sign bit), off-curve strings.
func gammaAlphabet(c *mc.Ctx, tr refvrf.Trace, other refvrf.Trace) []gammaStr {
	seen := map[string]bool{}
	var out []gammaStr
	add := func(b []byte, desc string) {
		if seen[string(b)] {
			return
		}
		seen[string(b)] = true
		out = append(out, gammaStr{append([]byte{}, b...), desc})
	}
	tor := ref.Torsion()
	add(tr.Gamma.Encode(), "Gamma")
	add(tr.Gamma.Neg().Encode(), "-Gamma")
	for i := 1; i < 8; i++ {
		add(tr.Gamma.Add(tor[i]).Encode(), fmt.Sprintf("Gamma+T%d", i))
	}
	for i := 0; i < 8; i++ {
		add(tor[i].Encode(), fmt.Sprintf("T%d", i))
	}
	for y := int64(0); y < 19; y++ { // the 19 values p..2^255-1, both sign bits
		for sign := byte(0); sign < 2; sign++ {
			b := ref.LE32(new(big.Int).Add(ref.P, big.NewInt(y)))
			b[31] |= sign << 7
			add(b, fmt.Sprintf("y=p+%d,sign=%d", y, sign))
		}
	}
	for _, y := range []*big.Int{big.NewInt(1), new(big.Int).Sub(ref.P, big.NewInt(1))} { // x = 0 with the sign bit set
		b := ref.LE32(y)
		b[31] |= 0x80
		add(b, fmt.Sprintf("y=%s,x=0,sign=1", y.Text(16)))
	}
	nOff := 0
	for y := int64(2); nOff < 4; y++ { // canonical y, not on the curve
		b := ref.LE32(big.NewInt(y))
		if _, ok, _ := ref.Decode(b); !ok {
			add(b, fmt.Sprintf("y=%d off-curve", y))
			nOff++
		}
	}
	for k := 0; k < c.Pick(6, 24); k++ {
		b := mc.Bytes(c.Seed, "gamma-str", k, 32)
		add(b, fmt.Sprintf("generic#%d", k))
	}
	add(tr.H.Encode(), "H")
	add(tr.U.Encode(), "U")
	add(other.Gamma.Encode(), "Gamma(other alpha)")
	add(ref.Base.Encode(), "B")
	return out
}

func sAlphabet(c *mc.Ctx, s *big.Int) []gammaStr {
	seen := map[string]bool{}
	var out []gammaStr
	two256 := new(big.Int).Lsh(big.NewInt(1), 256)
	add := func(v *big.Int, desc string) {
		if v.Sign() < 0 || v.Cmp(two256) >= 0 {
			return
		}
		b := ref.LE32(v)
		if seen[string(b)] {
			return
		}
		seen[string(b)] = true
		out = append(out, gammaStr{b, desc})
	}
	add(s, "s")
	kmax := new(big.Int).Div(new(big.Int).Sub(new(big.Int).Sub(two256, big.NewInt(1)), s), ref.L)
	for _, k := range []*big.Int{big.NewInt(1), big.NewInt(2), big.NewInt(3), big.NewInt(7), big.NewInt(8), kmax} {
		add(new(big.Int).Add(s, new(big.Int).Mul(k, ref.L)), "s+"+k.String()+"L")
	}
	add(new(big.Int).Add(s, big.NewInt(1)), "s+1")
	add(new(big.Int).Sub(s, big.NewInt(1)), "s-1")
	add(new(big.Int).Sub(ref.L, s), "L-s")
	for _, e := range []int64{-2, -1, 0, 1, 2} {
		add(new(big.Int).Add(ref.L, big.NewInt(e)), fmt.Sprintf("L%+d", e))
	}
	add(big.NewInt(0), "0")
	add(big.NewInt(1), "1")
	for _, j := range []uint{252, 253, 254, 255} {
		add(new(big.Int).Lsh(big.NewInt(1), j), fmt.Sprintf("2^%d", j))
		add(new(big.Int).Sub(new(big.Int).Lsh(big.NewInt(1), j), big.NewInt(1)), fmt.Sprintf("2^%d-1", j))
	}
	add(new(big.Int).Sub(two256, big.NewInt(1)), "2^256-1")
	for _, hi := range []byte{0x10, 0x20, 0x40, 0x80, 0xf0} { // the honest s with high bits of byte 31 set
		b := ref.LE32(s)
		b[31] |= hi
		add(leInt(b), fmt.Sprintf("s|%02x<<248", hi))
	}
	return out
}

func runDecode(c *mc.Ctx, keys []keyT, alphas []named) {
	k := keys[2%len(keys)]
	al, al2 := alphas[2%len(alphas)], alphas[5%len(alphas)]
	for _, f := range formats {
		f := f
		tr := proveRef(f, k.ref, al.b)
		G := gammaAlphabet(c, tr, proveRef(f, k.ref, al2.b))
		S := sAlphabet(c, tr.S)
		C := []gammaStr{{ref.LEn(tr.C, 16), "c"}}
		if c.Thorough {
			c1 := ref.LEn(tr.C, 16)
			c1[0] ^= 1
			C = append(C, gammaStr{make([]byte, 16), "0"}, gammaStr{bytes.Repeat([]byte{0xff}, 16), "2^128-1"}, gammaStr{c1, "c^1"})
		}
		c.Rep.Extra["decode_alphabets_"+f.String()] = map[string]int{"gamma": len(G), "c": len(C), "s": len(S)}
		p := mc.Product{Radix: []int{len(G), len(C), len(S)}}
		par(c, "decode/"+f.String(), p.Size(), func(w *mc.W, i int) {
			var d [3]int
			p.Decode(i, d[:])
			g, cc, s := G[d[0]], C[d[1]], S[d[2]]
			pi := append(append(append([]byte{}, g.b...), cc.b...), s.b...)
			var class string
			_, onCurve, canonical := ref.Decode(g.b)
			switch {
			case !onCurve:
				class = "decode/gamma-not-on-curve"
			case !canonical:
				class = "decode/gamma-noncanonical"
			case leInt(s.b).Cmp(ref.L) >= 0:
				class = "decode/s>=L"
				if new(big.Int).Mod(new(big.Int).Sub(leInt(s.b), tr.S), ref.L).Sign() == 0 && d[0] == 0 && d[1] == 0 {
					class = "decode/s=honest+L" // would satisfy the group equations if s were reduced
				}
			}
			extra := []string{"gamma", g.desc, "c", cc.desc, "s", s.desc}
			if class == "" {
				refOK, _, why := refvrf.Verify(f, k.pk, pi, al.b, true)
				class = "decode/challenge-mismatch"
				if refOK {
					class = "decode/valid"
				} else if why != refvrf.BadEquation {
					panic(harnessErr("unexpected reference verdict " + string(why)))
				}
			}
			checkVerify(w, class, f, k.pk, pi, al.b, extra...)
			checkProofToHash(w, "decode/proof-to-hash", pi)
		})
		// proof lengths
		lens := []int{0, 1, 31, 32, 48, 64, 79, 81, 96, 112, 160}
		par(c, "decode-length/"+f.String(), len(lens), func(w *mc.W, i int) {
			n := lens[i]
			pi := append(append([]byte{}, tr.Pi...), tr.Pi...)[:n]
			refOK, _, _, _ := checkVerify(w, "decode/length", f, k.pk, pi, al.b, "proof_length", fmt.Sprint(n))
			if refOK {
				panic(harnessErr("reference accepts a proof of the wrong length"))
			}
			checkProofToHash(w, "decode/length/proof-to-hash", pi)
		})
		par(c, "decode-length-nil/"+f.String(), 1, func(w *mc.W, i int) {
			checkVerify(w, "decode/length", f, k.pk, nil, al.b, "proof_length", "nil")
			checkProofToHash(w, "decode/length/proof-to-hash", nil)
		})
	}
}

// ---------------------------------------------------------------------------
// Grinding: proofs whose Gamma and/or public key carry a torsion component.

// span returns the distinct multiples of t together with the multiplier.
func span(t ref.Point) []ref.Point {
	var out []ref.Point
	acc := ref.Identity()
	for j := 0; j < 8; j++ {
		dup := false
		for _, q := range out {
			if q.Equal(acc) {
				dup = true
			}
		}
		if !dup {
			out = append(out, acc)
		}
		acc = acc.Add(t)
	}
	return out
}

func smallMul(t ref.Point, c *big.Int) ref.Point {
	return t.Mul(new(big.Int).Mod(c, big.NewInt(8))) // t has order dividing 8
}

// grind builds a proof string for public-key string pkStr whose point is x*B + ta, with
// Gamma = x*H + tg, that satisfies the verification equations of RFC 9381 section 5.3:
// for a nonce k, U = s*B - c*Y = k*B - c*ta and V = s*H - c*Gamma = k*H - c*tg, so the prover
// guesses the torsion parts (Wu, Wv) of U and V, hashes, and keeps the guess when
// Wu = -c*ta and Wv = -c*tg.  maxTries = 1 with ground = false returns the plain (Wu = Wv = O) attempt.
func grind(f refvrf.Format, pkStr []byte, x *big.Int, ta ref.Point, h ref.Point, tg ref.Point, label string, ground bool) (pi []byte, gamma ref.Point, tries int, ok bool) {
	gamma = refh2c.Mul(h, x).Add(tg)
	gEnc, hEnc := gamma.Encode(), h.Encode()
	wus, wvs := span(ta), span(tg)
	if !ground {
		wus, wvs = wus[:1], wvs[:1]
	}
	for j := 0; j < 200; j++ {
		k := ref.SMod(ref.FromLE(ref.SHA512([]byte("C15 grind"), []byte(label), pkStr, hEnc, gEnc, []byte{byte(f), byte(j)})))
		ub, vb := refvrf.MulBase(k), refh2c.Mul(h, k)
		vEncs := make([][]byte, len(wvs))
		for n, wv := range wvs {
			vEncs[n] = vb.Add(wv).Encode()
		}
		for _, wu := range wus {
			uEnc := ub.Add(wu).Encode()
			for n, wv := range wvs {
				c := refvrf.Challenge(f, pkStr, hEnc, gEnc, uEnc, vEncs[n])
				s := ref.SAdd(k, ref.SMul(c, x))
				good := wu.Equal(smallMul(ta, c).Neg()) && wv.Equal(smallMul(tg, c).Neg())
				if good || !ground {
					return refvrf.EncodeProof(gEnc, c, s), gamma, j + 1, good
				}
			}
		}
	}
	return nil, gamma, 200, false
}

func runTorsion(c *mc.Ctx, keys []keyT, alphas []named) {
	tor := ref.Torsion()
	ks := []int{4}
	as := []int{1, 7}
	if c.Thorough {
		ks = []int{0, 4, 6}
		as = []int{0, 12}
	}
	p := mc.Product{Radix: []int{len(ks), len(as), len(formats), 8, 8}}
	c.Rep.Extra["torsion_cases"] = p.Size()
	par(c, "torsion", p.Size(), func(w *mc.W, i int) {
		var d [5]int
		p.Decode(i, d[:])
		k, al, f, ta, tg := keys[ks[d[0]]%len(keys)], alphas[as[d[1]]%len(alphas)], formats[d[2]], d[3], d[4]
		ypt := k.ref.Y.Add(tor[ta])
		pkStr := ypt.Encode()
		h := refvrf.EncodeToCurve(pkStr, al.b)
		beta0 := refvrf.GammaToHash(refh2c.Mul(h, k.ref.X)) // the output of the torsion-free proof for this key and input
		label := fmt.Sprintf("%s|%s|%d|%d", k.desc, al.desc, ta, tg)
		extra := []string{"key", k.desc, "alpha_desc", al.desc, "key_torsion", fmt.Sprint(ta), "gamma_torsion", fmt.Sprint(tg), "seed", hexs(k.ref.Seed)}

		// (a) the first attempt, not ground: verifies only if c*T_a = c*T_g = O
		pi0, _, _, good0 := grind(f, pkStr, k.ref.X, tor[ta], h, tor[tg], label, false)
		cls := "torsion/rejected/unground"
		if good0 {
			cls = "torsion/accepted/unground"
		}
		refOK, _, _, _ := checkVerify(w, cls, f, pkStr, pi0, al.b, extra...)
		if refOK != good0 {
			panic(harnessErr("grinder and reference verifier disagree (unground)"))
		}

		// (b) ground until the equations hold
		pi, _, tries, good := grind(f, pkStr, k.ref.X, tor[ta], h, tor[tg], label, true)
		if !good {
			panic(harnessErr("grinding failed after 200 nonces"))
		}
		switch {
		case ta == 0 && tg == 0:
			cls = "torsion/accepted/honest"
		case ta == 0:
			cls = "torsion/accepted/honest-key/gamma+T"
		case tg == 0:
			cls = "torsion/accepted/mixed-order-key"
		default:
			cls = "torsion/accepted/mixed-order-key/gamma+T"
		}
		refOK, _, libOK, libBeta := checkVerify(w, cls, f, pkStr, pi, al.b, append(extra, "tries", fmt.Sprint(tries))...)
		if !refOK {
			panic(harnessErr("reference verifier rejects a ground proof"))
		}
		// uniqueness: every accepted proof for (key, alpha) yields the output of the torsion-free proof
		w.Eval(fmt.Sprintf("torsion/accepted/key+T%d", ta), true)
		if libOK && !bytes.Equal(libBeta, beta0) {
			w.Fail("ecvrf.Verify"+apiFor(f).name+"/uniqueness", fmt.Sprintf("%s %s %s: accepted proof %x with Gamma+T%d under key Y+T%d yields beta %x, the torsion-free proof yields %x", k.desc, al.desc, f, pi, tg, ta, libBeta, beta0), caseMap(f, pkStr, pi, al.b, extra...))
		}
		checkProofToHash(w, fmt.Sprintf("torsion/accepted/gamma+T%d", tg), pi)
		// the other format must not accept it (quick: for every T_g, on the honest key and on Y+T_g)
		if c.Thorough || ta == 0 || ta == tg {
			checkVerify(w, "torsion/cross-format", other(f), pkStr, pi, al.b, extra...)
		}
		if i%37 == 0 {
			w.Sample(map[string]string{"op": "Verify" + apiFor(f).name, "class": cls, "pk": hexs(pkStr), "pi": hexs(pi), "alpha": al.desc, "tries": fmt.Sprint(tries)})
		}
	})
}

type pkStr struct {
	b       []byte
	pt      ref.Point
	desc    string
	noncano bool
}

// smallOrderKeyStrings: the 8 canonical small-order encodings and every non-canonical string that decodes to a small-order point.
func smallOrderKeyStrings() []pkStr {
	var out []pkStr
	tor := ref.Torsion()
	for i := 0; i < 8; i++ {
		out = append(out, pkStr{tor[i].Encode(), tor[i], fmt.Sprintf("T%d", i), false})
	}
	seen := map[string]bool{}
	try := func(b []byte, desc string) {
		pt, ok, canonical := ref.Decode(b)
		if ok && !canonical && pt.IsSmallOrder() && !seen[string(b)] {
			seen[string(b)] = true
			out = append(out, pkStr{b, pt, desc, true})
		}
	}
	for y := int64(0); y < 19; y++ {
		for sign := byte(0); sign < 2; sign++ {
			b := ref.LE32(new(big.Int).Add(ref.P, big.NewInt(y)))
			b[31] |= sign << 7
			try(b, fmt.Sprintf("y=p+%d,sign=%d", y, sign))
		}
	}
	for _, y := range []*big.Int{big.NewInt(1), new(big.Int).Sub(ref.P, big.NewInt(1))} {
		b := ref.LE32(y)
		b[31] |= 0x80
		try(b, fmt.Sprintf("y=%s,x=0,sign=1", y.Text(16)))
	}
	return out
}

func runSmallKey(c *mc.Ctx, keys []keyT, alphas []named) {
	tor := ref.Torsion()
	P := smallOrderKeyStrings()
	c.Rep.Extra["small_order_key_strings"] = len(P)
	tgs := []int{0, 1, 2, 4}
	as := []int{1}
	if c.Thorough {
		tgs = []int{0, 1, 2, 3, 4, 5, 6, 7}
		as = []int{0, 7}
	}
	p := mc.Product{Radix: []int{len(P), len(as), len(formats), len(tgs)}}
	par(c, "smallkey", p.Size(), func(w *mc.W, i int) {
		var d [4]int
		p.Decode(i, d[:])
		pk, al, f, tg := P[d[0]], alphas[as[d[1]]%len(alphas)], formats[d[2]], tgs[d[3]]
		h := refvrf.EncodeToCurve(pk.b, al.b)
		// secret scalar 0: the key point is pure torsion, Gamma = T_g
		pi, _, tries, good := grind(f, pk.b, big.NewInt(0), pk.pt, h, tor[tg], "smallkey|"+pk.desc+"|"+al.desc, true)
		if !good {
			panic(harnessErr("grinding failed after 200 nonces"))
		}
		cls := "smallkey/equation-holds/small-order"
		if pk.noncano {
			cls = "smallkey/equation-holds/non-canonical"
		} else {
			// without key validation the RFC verifier accepts this proof; with it, it must not
			if ok, _, _ := refvrf.Verify(f, pk.b, pi, al.b, false); !ok {
				panic(harnessErr("ground small-order proof does not verify without key validation"))
			}
		}
		refOK, _, _, _ := checkVerify(w, cls, f, pk.b, pi, al.b, "pk_desc", pk.desc, "gamma_torsion", fmt.Sprint(tg), "tries", fmt.Sprint(tries))
		if refOK {
			panic(harnessErr("reference verifier accepts a small-order or non-canonical key"))
		}
	})
}

func runKeys(c *mc.Ctx, keys []keyT, alphas []named) {
	k, al := keys[2%len(keys)], alphas[3%len(alphas)]
	type kc struct {
		pk    []byte
		class string
		desc  string
	}
	for _, f := range formats {
		f := f
		tr := proveRef(f, k.ref, al.b)
		var cases []kc
		for _, n := range []int{0, 1, 31, 33, 64} {
			cases = append(cases, kc{append(append([]byte{}, k.pk...), k.pk...)[:n], "keys/pk-length", fmt.Sprintf("length %d", n)})
		}
		cases = append(cases, kc{nil, "keys/pk-length", "nil"})
		nOff := 0
		for y := int64(2); nOff < 6; y++ {
			b := ref.LE32(big.NewInt(y))
			if _, ok, _ := ref.Decode(b); !ok {
				cases = append(cases, kc{b, "keys/pk-not-a-point", fmt.Sprintf("y=%d", y)})
				nOff++
			}
		}
		for y := int64(0); y < 19; y++ {
			for sign := byte(0); sign < 2; sign++ {
				b := ref.LE32(new(big.Int).Add(ref.P, big.NewInt(y)))
				b[31] |= sign << 7
				if pt, ok, _ := ref.Decode(b); ok && !pt.IsSmallOrder() {
					cases = append(cases, kc{b, "keys/pk-noncanonical", fmt.Sprintf("y=p+%d,sign=%d (decodable, not small order)", y, sign)})
				} else if !ok {
					cases = append(cases, kc{b, "keys/pk-not-a-point", fmt.Sprintf("y=p+%d,sign=%d", y, sign)})
				}
			}
		}
		for g := 0; g < c.Pick(8, 64); g++ {
			b := mc.Bytes(c.Seed, "pk-str", g, 32)
			cl := "keys/pk-other-point"
			if _, ok := refvrf.StringToPoint(b); !ok {
				cl = "keys/pk-not-a-point"
			}
			cases = append(cases, kc{b, cl, fmt.Sprintf("generic#%d", g)})
		}
		par(c, "keys/"+f.String(), len(cases), func(w *mc.W, i int) {
			kc := cases[i]
			refOK, _, _, _ := checkVerify(w, kc.class, f, kc.pk, tr.Pi, al.b, "pk_desc", kc.desc)
			if refOK {
				panic(harnessErr("reference verifier accepts a foreign public key"))
			}
		})
	}
}
