package main

import (
	"bytes"
	"fmt"

	"github.com/oasisprotocol/curve25519-voi/curve"
	"github.com/oasisprotocol/curve25519-voi/internal/verif/mc"
	"github.com/oasisprotocol/curve25519-voi/internal/verif/ref"
	"github.com/oasisprotocol/curve25519-voi/internal/verif/ref/refvrf"
	"github.com/oasisprotocol/curve25519-voi/primitives/ed25519"
	"github.com/oasisprotocol/curve25519-voi/primitives/ed25519/extra/ecvrf"
)

func caseMap(f refvrf.Format, pk, pi, alpha []byte, extra ...string) map[string]string {
	m := map[string]string{"format": f.String(), "pk": hexs(pk), "pi": hexs(pi), "alpha": hexs(alpha)}
	for i := 0; i+1 < len(extra); i += 2 {
		m[extra[i]] = extra[i+1]
	}
	return m
}

// checkProofToHash compares ecvrf.ProofToHash with ECVRF_proof_to_hash.
func checkProofToHash(w *mc.W, class string, pi []byte) {
	want, ok := refvrf.ProofToHash(pi)
	w.Eval(class, len(pi) == refvrf.ProofLen)
	got, err := ecvrf.ProofToHash(pi)
	switch {
	case ok && err != nil:
		w.Fail("ecvrf.ProofToHash/rejects-decodable", fmt.Sprintf("pi=%x: decodable per RFC 9381 5.4.4, got error %v", pi, err), map[string]string{"pi": hexs(pi)})
	case !ok && err == nil:
		w.Fail("ecvrf.ProofToHash/accepts-undecodable", fmt.Sprintf("pi=%x: INVALID per RFC 9381 5.4.4 (length, non-canonical or off-curve Gamma, or s >= q), got output %x", pi, got), map[string]string{"pi": hexs(pi)})
	case ok && !bytes.Equal(got, want):
		w.Fail("ecvrf.ProofToHash/beta", fmt.Sprintf("pi=%x: beta %x want %x", pi, got, want), map[string]string{"pi": hexs(pi)})
	}
}

// checkVerify runs the library verifier and the reference verifier
// (validate_key = TRUE, which the library documents it always enforces) on the
// same inputs.  Returns the reference verdict and the library's output.
func checkVerify(w *mc.W, class string, f refvrf.Format, pk, pi, alpha []byte, extra ...string) (refOK bool, why refvrf.Reason, libOK bool, libBeta []byte) {
	refOK, refBeta, why := refvrf.Verify(f, pk, pi, alpha, true)
	w.Eval(class, why != refvrf.BadKeyLen && len(pi) == refvrf.ProofLen)
	a := apiFor(f)
	libOK, libBeta = a.verify(ed25519.PublicKey(pk), pi, alpha)
	switch {
	case refOK && !libOK:
		w.Fail("ecvrf.Verify"+a.name+"/rejects-valid", fmt.Sprintf("[%s] pk=%x alpha=%x pi=%x: valid per the reference verifier (beta %x), library returned false", class, pk, alpha, pi, refBeta), caseMap(f, pk, pi, alpha, extra...))
	case !refOK && libOK:
		w.Fail("ecvrf.Verify"+a.name+"/accepts-invalid/"+string(why), fmt.Sprintf("[%s] pk=%x alpha=%x pi=%x: INVALID per the reference verifier (%s), library returned (true, %x)", class, pk, alpha, pi, why, libBeta), caseMap(f, pk, pi, alpha, extra...))
	case refOK && !bytes.Equal(libBeta, refBeta):
		w.Fail("ecvrf.Verify"+a.name+"/beta", fmt.Sprintf("[%s] pk=%x alpha=%x pi=%x: beta %x want %x", class, pk, alpha, pi, libBeta, refBeta), caseMap(f, pk, pi, alpha, extra...))
	}
	if libOK {
		// "verification returns exactly the output that proof-to-hash gives"
		p2h, err := ecvrf.ProofToHash(pi)
		if err != nil || !bytes.Equal(p2h, libBeta) {
			w.Fail("ecvrf.Verify"+a.name+"/beta-vs-ProofToHash", fmt.Sprintf("[%s] pi=%x: Verify returned %x, ProofToHash returned (%x, %v)", class, pi, libBeta, p2h, err), caseMap(f, pk, pi, alpha, extra...))
		}
	}
	return
}

func libPoint(enc []byte) *curve.EdwardsPoint {
	var cp curve.CompressedEdwardsY
	if _, err := cp.SetBytes(enc); err != nil {
		panic(err)
	}
	var p curve.EdwardsPoint
	if _, err := p.SetCompressedY(&cp); err != nil {
		panic(err)
	}
	return &p
}

func runProve(c *mc.Ctx, keys []keyT, alphas []named) {
	p := mc.Product{Radix: []int{len(keys), len(alphas), len(formats)}}
	par(c, "prove", p.Size(), func(w *mc.W, i int) {
		var d [3]int
		p.Decode(i, d[:])
		k, al, f := keys[d[0]], alphas[d[1]], formats[d[2]]
		a := apiFor(f)
		tr := proveRef(f, k.ref, al.b)
		w.Eval("prove/"+f.String(), true)
		extra := []string{"key", k.desc, "alpha_desc", al.desc, "seed", hexs(k.ref.Seed)}
		pi := a.prove(k.sk, al.b)
		if !bytes.Equal(pi, tr.Pi) {
			what := "s"
			switch {
			case len(pi) != refvrf.ProofLen:
				what = "length"
			case !bytes.Equal(pi[:32], tr.Pi[:32]):
				what = "Gamma"
			case !bytes.Equal(pi[32:48], tr.Pi[32:48]):
				what = "c"
			}
			w.Fail("ecvrf.Prove"+a.name+"/proof-"+what, fmt.Sprintf("%s %s %s: pi=%x want %x (first difference in %s)", k.desc, al.desc, f, pi, tr.Pi, what), caseMap(f, k.pk, pi, al.b, extra...))
		}
		// intermediate values through the hooks
		if h, err := ecvrf.VerifEncodeToCurve(k.pk, al.b); err != nil || !bytes.Equal(h, tr.H.Encode()) {
			w.Fail("ecvrf.encodeToCurve", fmt.Sprintf("%s %s: H=%x (err %v) want %x", k.desc, al.desc, h, err, tr.H.Encode()), caseMap(f, k.pk, pi, al.b, extra...))
		}
		var p1 []byte
		if f == refvrf.RFC9381 {
			p1 = k.pk
		}
		if ch, err := ecvrf.VerifChallenge(p1, tr.H.Encode(), tr.Gamma.Encode(), libPoint(tr.U.Encode()), libPoint(tr.V.Encode())); err != nil || leInt(ch).Cmp(tr.C) != 0 {
			w.Fail("ecvrf.challengeGeneration"+a.name, fmt.Sprintf("%s %s %s: c=%x (err %v) want %x on the reference's (Y,H,Gamma,U,V)", k.desc, al.desc, f, ch, err, tr.C), caseMap(f, k.pk, pi, al.b, extra...))
		}
		// beta through ProofToHash
		if beta, err := ecvrf.ProofToHash(pi); err != nil || !bytes.Equal(beta, tr.Beta) {
			w.Fail("ecvrf.ProofToHash/beta", fmt.Sprintf("%s %s %s: ProofToHash(Prove())=(%x, %v) want %x", k.desc, al.desc, f, beta, err, tr.Beta), caseMap(f, k.pk, pi, al.b, extra...))
		}
		if len(pi) != refvrf.ProofLen {
			return
		}
		// completeness: the produced proof verifies and yields beta
		refOK, _, libOK, libBeta := checkVerify(w, "verify/honest", f, k.pk, pi, al.b, extra...)
		if bytes.Equal(pi, tr.Pi) && !refOK {
			panic(harnessErr("reference verifier rejects the reference proof"))
		}
		if !refOK {
			w.Fail("ecvrf.Prove"+a.name+"/proof-does-not-verify", fmt.Sprintf("%s %s %s: pi=%x is INVALID per the reference verifier", k.desc, al.desc, f, pi), caseMap(f, k.pk, pi, al.b, extra...))
		}
		if libOK && !bytes.Equal(libBeta, tr.Beta) {
			w.Fail("ecvrf.Verify"+a.name+"/beta", fmt.Sprintf("%s %s %s: honest beta %x want %x", k.desc, al.desc, f, libBeta, tr.Beta), caseMap(f, k.pk, pi, al.b, extra...))
		}
		// the two challenge formats never cross-verify
		checkVerify(w, "verify/cross-format", other(f), k.pk, pi, al.b, extra...)
		// any other public key
		k2 := keys[(d[0]+1)%len(keys)]
		checkVerify(w, "verify/other-key", f, k2.pk, pi, al.b, extra...)
		// any other input
		checkVerify(w, "verify/other-alpha", f, k.pk, pi, append(append([]byte{}, al.b...), 0x00), extra...)
		if n := len(al.b); n > 0 {
			fl := append([]byte{}, al.b...)
			fl[n-1] ^= 0x01
			checkVerify(w, "verify/other-alpha", f, k.pk, pi, fl, extra...)
			if c.Thorough || d[1]%3 == 0 {
				checkVerify(w, "verify/other-alpha", f, k.pk, pi, al.b[:n-1], extra...)
			}
		}
		if i%7 == 0 {
			w.Sample(map[string]string{"op": "Prove" + a.name, "key": k.desc, "alpha": al.desc, "pi": hexs(pi), "beta": hexs(tr.Beta)})
		}
	})
}

func runRandomized(c *mc.Ctx, keys []keyT, alphas []named) {
	p := mc.Product{Radix: []int{len(keys), len(alphas), len(formats)}}
	par(c, "randomized", p.Size(), func(w *mc.W, i int) {
		var d [3]int
		p.Decode(i, d[:])
		k, al, f := keys[d[0]], alphas[d[1]], formats[d[2]]
		a := apiFor(f)
		tr := proveRef(f, k.ref, al.b)
		w.Eval("randomized/"+f.String(), true)
		extra := []string{"key", k.desc, "alpha_desc", al.desc, "seed", hexs(k.ref.Seed)}
		type rd struct {
			name string
			mk   func() interface{ Read([]byte) (int, error) }
		}
		readers := []rd{
			{"zero", func() interface{ Read([]byte) (int, error) } { return constReader(0x00) }},
			{"ff", func() interface{ Read([]byte) (int, error) } { return constReader(0xff) }},
			{"streamA", func() interface{ Read([]byte) (int, error) } { return stream(c.Seed, "A", 0, -1) }},
			{"streamB", func() interface{ Read([]byte) (int, error) } { return stream(c.Seed, "B", 0, -1) }},
		}
		proofs := map[string][]byte{}
		for _, r := range readers {
			pi, err := a.proveRand(r.mk(), k.sk, al.b)
			if err != nil || len(pi) != refvrf.ProofLen {
				w.Fail("ecvrf.ProveWithAddedRandomness"+a.name+"/error", fmt.Sprintf("%s %s reader=%s: (%x, %v)", k.desc, al.desc, r.name, pi, err), caseMap(f, k.pk, pi, al.b, extra...))
				continue
			}
			proofs[r.name] = pi
			ex := append([]string{"reader", r.name}, extra...)
			if !bytes.Equal(pi[:32], tr.Pi[:32]) {
				w.Fail("ecvrf.ProveWithAddedRandomness"+a.name+"/Gamma", fmt.Sprintf("%s %s reader=%s: Gamma %x want %x", k.desc, al.desc, r.name, pi[:32], tr.Pi[:32]), caseMap(f, k.pk, pi, al.b, ex...))
			}
			if bytes.Equal(pi[32:], tr.Pi[32:]) {
				w.Fail("ecvrf.ProveWithAddedRandomness"+a.name+"/not-randomized", fmt.Sprintf("%s %s reader=%s: (c,s) equal the deterministic proof's", k.desc, al.desc, r.name), caseMap(f, k.pk, pi, al.b, ex...))
			}
			refOK, why, libOK, libBeta := checkVerify(w, "randomized/verify", f, k.pk, pi, al.b, ex...)
			if !refOK {
				// completeness: the proof produced must verify (reference verdict; a library that rejects a proof the reference accepts is reported by checkVerify)
				w.Fail("ecvrf.ProveWithAddedRandomness"+a.name+"/proof-does-not-verify", fmt.Sprintf("%s %s reader=%s %s: pi=%x is INVALID per the reference verifier (%s)", k.desc, al.desc, r.name, f, pi, why), caseMap(f, k.pk, pi, al.b, ex...))
			}
			if libOK && !bytes.Equal(libBeta, tr.Beta) {
				w.Fail("ecvrf.ProveWithAddedRandomness"+a.name+"/beta", fmt.Sprintf("%s %s reader=%s: beta %x differs from the deterministic beta %x", k.desc, al.desc, r.name, libBeta, tr.Beta), caseMap(f, k.pk, pi, al.b, ex...))
			}
			// same stream -> same proof; short reads do not matter
			pi2, err2 := a.proveRand(r.mk(), k.sk, al.b)
			if err2 != nil || !bytes.Equal(pi, pi2) {
				w.Fail("ecvrf.ProveWithAddedRandomness"+a.name+"/not-a-function-of-entropy", fmt.Sprintf("%s %s reader=%s: two runs on the same stream gave %x and %x (%v)", k.desc, al.desc, r.name, pi, pi2, err2), caseMap(f, k.pk, pi, al.b, ex...))
			}
		}
		// depends on the entropy: pairwise different (c, s)
		names := []string{"zero", "ff", "streamA", "streamB"}
		for x := 0; x < len(names); x++ {
			for y := x + 1; y < len(names); y++ {
				px, py := proofs[names[x]], proofs[names[y]]
				if px != nil && py != nil && bytes.Equal(px[32:], py[32:]) {
					w.Fail("ecvrf.ProveWithAddedRandomness"+a.name+"/ignores-entropy", fmt.Sprintf("%s %s: readers %s and %s gave the same (c,s) %x", k.desc, al.desc, names[x], names[y], px[32:]), caseMap(f, k.pk, px, al.b, extra...))
				}
			}
		}
		// one byte per Read: same bytes consumed, same proof
		if pa := proofs["streamA"]; pa != nil {
			p1, err := a.proveRand(stream(c.Seed, "A", 1, -1), k.sk, al.b)
			w.Eval("randomized/short-reads", true)
			if err != nil || !bytes.Equal(p1, pa) {
				w.Fail("ecvrf.ProveWithAddedRandomness"+a.name+"/short-reads", fmt.Sprintf("%s %s: one-byte-at-a-time reader gave (%x, %v), whole reads gave %x", k.desc, al.desc, p1, err, pa), caseMap(f, k.pk, pa, al.b, extra...))
			}
		}
		// failing entropy source: an error, never a proof
		for _, n := range []int{0, 1, 31} {
			pi, err := a.proveRand(stream(c.Seed, "A", 0, n), k.sk, al.b)
			w.Eval("randomized/failing-reader", true)
			if err == nil || pi != nil {
				w.Fail("ecvrf.ProveWithAddedRandomness"+a.name+"/failing-reader", fmt.Sprintf("%s %s: reader failing after %d bytes gave (%x, %v)", k.desc, al.desc, n, pi, err), caseMap(f, k.pk, pi, al.b, extra...))
			}
		}
		// nil reader = crypto/rand: only verifiability and beta can be checked
		if d[1]%4 == 0 {
			pi, err := a.proveRand(nil, k.sk, al.b)
			if err != nil || len(pi) != refvrf.ProofLen {
				w.Fail("ecvrf.ProveWithAddedRandomness"+a.name+"/error", fmt.Sprintf("%s %s reader=nil: (%x, %v)", k.desc, al.desc, pi, err), caseMap(f, k.pk, pi, al.b, extra...))
			} else {
				refOK, why, libOK, libBeta := checkVerify(w, "randomized/verify-os-entropy", f, k.pk, pi, al.b, extra...)
				if !refOK {
					w.Fail("ecvrf.ProveWithAddedRandomness"+a.name+"/proof-does-not-verify", fmt.Sprintf("%s %s reader=nil %s: pi=%x is INVALID per the reference verifier (%s)", k.desc, al.desc, f, pi, why), caseMap(f, k.pk, pi, al.b, extra...))
				}
				if libOK && !bytes.Equal(libBeta, tr.Beta) {
					w.Fail("ecvrf.ProveWithAddedRandomness"+a.name+"/beta", fmt.Sprintf("%s %s reader=nil: beta %x want %x", k.desc, al.desc, libBeta, tr.Beta), caseMap(f, k.pk, pi, al.b, extra...))
				}
			}
		}
	})
}

var _ = ref.P

// runProve2: the class keys (chosen on the reference side by the shape of the clamped scalar) through the honest
// path: Prove = reference (difference localised), the proof verifies under its own key, beta = ProofToHash = reference.
func runProve2(c *mc.Ctx, ckeys []keyT, alphas []named) {
	als := []named{alphas[1%len(alphas)], alphas[6%len(alphas)]}
	p := mc.Product{Radix: []int{len(ckeys), len(als), len(formats)}}
	par(c, "class-keys", p.Size(), func(w *mc.W, i int) {
		var d [3]int
		p.Decode(i, d[:])
		k, al, f := ckeys[d[0]], als[d[1]], formats[d[2]]
		a := apiFor(f)
		tr := proveRef(f, k.ref, al.b)
		w.Eval("class-keys/"+f.String(), true)
		extra := []string{"key", k.desc, "alpha_desc", al.desc, "seed", hexs(k.ref.Seed), "scalar_classes", fmt.Sprint(scalarClasses(k.ref.X))}
		pi := a.prove(k.sk, al.b)
		if !bytes.Equal(pi, tr.Pi) {
			what := "s"
			switch {
			case len(pi) != refvrf.ProofLen:
				what = "length"
			case !bytes.Equal(pi[:32], tr.Pi[:32]):
				what = "Gamma"
			case !bytes.Equal(pi[32:48], tr.Pi[32:48]):
				what = "c"
			}
			w.Fail("ecvrf.Prove"+a.name+"/proof-"+what, fmt.Sprintf("%s %s %s %v: pi=%x want %x (first difference in %s)", k.desc, al.desc, f, scalarClasses(k.ref.X), pi, tr.Pi, what), caseMap(f, k.pk, pi, al.b, extra...))
		}
		if len(pi) == refvrf.ProofLen {
			// completeness under the key's own public key, judged by the reference and by the library
			refOK, why, libOK, libBeta := checkVerify(w, "class-keys/verify", f, k.pk, pi, al.b, extra...)
			if !refOK {
				w.Fail("ecvrf.Prove"+a.name+"/proof-does-not-verify", fmt.Sprintf("%s %s %s: pi=%x is INVALID per the reference verifier (%s)", k.desc, al.desc, f, pi, why), caseMap(f, k.pk, pi, al.b, extra...))
			}
			if libOK && !bytes.Equal(libBeta, tr.Beta) {
				w.Fail("ecvrf.Verify"+a.name+"/beta", fmt.Sprintf("%s %s %s: beta %x want %x", k.desc, al.desc, f, libBeta, tr.Beta), caseMap(f, k.pk, pi, al.b, extra...))
			}
		}
		// the reference proof through Verify and ProofToHash
		if ok, beta := a.verify(k.pk, tr.Pi, al.b); !ok || !bytes.Equal(beta, tr.Beta) {
			w.Fail("ecvrf.Verify"+a.name+"/rejects-valid", fmt.Sprintf("[class-keys] %s %s %s: reference proof %x: (%v, %x) want (true, %x)", k.desc, al.desc, f, tr.Pi, ok, beta, tr.Beta), caseMap(f, k.pk, tr.Pi, al.b, extra...))
		}
		if b2, err := ecvrf.ProofToHash(tr.Pi); err != nil || !bytes.Equal(b2, tr.Beta) {
			w.Fail("ecvrf.ProofToHash/beta", fmt.Sprintf("[class-keys] %s %s: (%x, %v) want %x", k.desc, al.desc, b2, err, tr.Beta), caseMap(f, k.pk, tr.Pi, al.b, extra...))
		}
	})
}
