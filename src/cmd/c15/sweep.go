package main

import (
	"bytes"
	"fmt"

	"github.com/oasisprotocol/curve25519-voi/internal/verif/mc"
	"github.com/oasisprotocol/curve25519-voi/internal/verif/ref/refvrf"
	"github.com/oasisprotocol/curve25519-voi/primitives/ed25519/extra/ecvrf"
)

// Complete alpha-length sweep.
//
// The alpha alphabet of the other sub-spaces sits at the SHA-512 padding seams.  The
// input of ECVRF_encode_to_curve is PK_string || alpha inside expand_message_xmd's
// msg_prime, so a seam of the message-expansion code at an arbitrary total length
// (e.g. a fixed scratch buffer: 128 + 32 + len(alpha) + 3 + 40 (+1) = 256 at
// len(alpha) = 53 or 52) shows at exactly one alpha length.  This sub-space therefore
// enumerates EVERY alpha length 0..300 (thorough 0..1100): proof bytes, H, Verify and
// beta against the reference, both challenge formats.
func runAlphaSweep(c *mc.Ctx, keys []keyT) {
	max := c.Pick(300, 1100)
	ks := []keyT{keys[4%len(keys)]}
	if c.Thorough {
		ks = append(ks, keys[0])
	}
	src := mc.Bytes(c.Seed, "alpha-sweep", 0, max)
	p := mc.Product{Radix: []int{len(ks), max + 1, len(formats)}}
	c.Rep.Extra["alpha_sweep"] = fmt.Sprintf("every alpha length 0..%d x %d key(s) x 2 formats", max, len(ks))
	par(c, "alpha-sweep", p.Size(), func(w *mc.W, i int) {
		var d [3]int
		p.Decode(i, d[:])
		k, n, f := ks[d[0]], d[1], formats[d[2]]
		a := apiFor(f)
		alpha := make([]byte, n)
		copy(alpha, src[:n])
		tr := proveRef(f, k.ref, alpha)
		w.Eval("alpha-sweep/"+f.String(), true)
		cas := func(pi []byte) map[string]string {
			return caseMap(f, k.pk, pi, alpha, "key", k.desc, "seed", hexs(k.ref.Seed), "alpha_length", fmt.Sprint(n))
		}
		pi := a.prove(k.sk, alpha)
		if !bytes.Equal(pi, tr.Pi) {
			what := "s"
			switch {
			case len(pi) != refvrf.ProofLen:
				what = "length"
			case !bytes.Equal(pi[:32], tr.Pi[:32]):
				what = "Gamma"
			case !bytes.Equal(pi[32:48], tr.Pi[32:48]):
				what = "c"
			}
			w.Fail("ecvrf.Prove"+a.name+"/proof-"+what, fmt.Sprintf("%s len(alpha)=%d %s: pi=%x want %x (first difference in %s)", k.desc, n, f, pi, tr.Pi, what), cas(pi))
		}
		if h, err := ecvrf.VerifEncodeToCurve(k.pk, alpha); err != nil || !bytes.Equal(h, tr.H.Encode()) {
			w.Fail("ecvrf.encodeToCurve", fmt.Sprintf("%s len(alpha)=%d: H=%x (err %v) want %x", k.desc, n, h, err, tr.H.Encode()), cas(pi))
		}
		// the reference proof (which the reference verifier accepts by construction) must verify and give beta
		ok, beta := a.verify(k.pk, tr.Pi, alpha)
		if !ok {
			w.Fail("ecvrf.Verify"+a.name+"/rejects-valid", fmt.Sprintf("[alpha-sweep] %s len(alpha)=%d %s: the reference proof %x is rejected", k.desc, n, f, tr.Pi), cas(tr.Pi))
		} else if !bytes.Equal(beta, tr.Beta) {
			w.Fail("ecvrf.Verify"+a.name+"/beta", fmt.Sprintf("[alpha-sweep] %s len(alpha)=%d %s: beta %x want %x", k.desc, n, f, beta, tr.Beta), cas(tr.Pi))
		}
		if b2, err := ecvrf.ProofToHash(tr.Pi); err != nil || !bytes.Equal(b2, tr.Beta) {
			w.Fail("ecvrf.ProofToHash/beta", fmt.Sprintf("[alpha-sweep] %s len(alpha)=%d: (%x, %v) want %x", k.desc, n, b2, err, tr.Beta), cas(tr.Pi))
		}
	})
}
