package main

// buffer-reuse: every byte string handed to the library lives in ONE caller-owned buffer per argument, which the
// caller overwrites with the next key / alpha / proof straight after each call (key rotation through a decode buffer,
// a reused message buffer).  A library that keeps a reference to what it was given - a cache keyed by the caller's
// slice, a memoised prefix - compares the buffer with itself on the next call and answers for the previous input.
// History: keys k0 k1 k2 k0 k3 k1 ... x alphas, through Prove, Prove_v10, the randomised provers (fixed entropy),
// Verify, Verify_v10 and ProofToHash; every result is compared with the reference for the bytes the buffers hold at
// the time of the call.  Sequential (the point is the shared buffer).

import (
	"bytes"
	"fmt"

	"github.com/oasisprotocol/curve25519-voi/internal/verif/mc"
	"github.com/oasisprotocol/curve25519-voi/internal/verif/ref/refvrf"
	"github.com/oasisprotocol/curve25519-voi/primitives/ed25519"
	"github.com/oasisprotocol/curve25519-voi/primitives/ed25519/extra/ecvrf"
)

func runBufferReuse(c *mc.Ctx, keys []keyT, alphas []named) {
	order := []int{0, 1, 2, 0, 3, 1, 1, 2, 3, 0}
	if len(keys) < 4 || len(alphas) < 2 {
		return
	}
	seq(c, "buffer-reuse", len(formats)*2, func(w *mc.W, i int) {
		f := formats[i%len(formats)]
		a := apiFor(f)
		rotateAlpha := i/len(formats) == 1
		skBuf := make([]byte, 64)
		pkBuf := make([]byte, 32)
		piBuf := make([]byte, 80)
		alphaBuf := make([]byte, 0, 512)
		for step, ki := range order {
			k := keys[ki]
			al := alphas[0].b
			if rotateAlpha {
				al = alphas[step%len(alphas)].b
				if len(al) > cap(alphaBuf) {
					al = al[:cap(alphaBuf)]
				}
			}
			copy(skBuf, k.sk)
			copy(pkBuf, k.pk)
			alphaBuf = append(alphaBuf[:0], al...)
			tr := proveRef(f, k.ref, al)
			w.Eval("buffer-reuse/"+f.String(), step > 0)
			cas := caseMap(f, k.pk, tr.Pi, al, "step", fmt.Sprint(step), "key", k.desc)
			fail := func(what string, got, want []byte) {
				w.Fail("buffer-reuse/"+what+a.name, fmt.Sprintf("step %d of the key rotation %v through one caller buffer (key %s): %s%s gives %x, the reference for the bytes the buffer holds is %x", step, order, k.desc, what, a.name, got, want), cas)
			}
			pi := a.prove(ed25519.PrivateKey(skBuf), alphaBuf)
			if !bytes.Equal(pi, tr.Pi) {
				fail("Prove", pi, tr.Pi)
			}
			if !bytes.Equal(skBuf, k.sk) || !bytes.Equal(alphaBuf, al) {
				fail("Prove wrote to its arguments", skBuf, k.sk)
			}
			// the randomised prover: only its documented properties (a proof that verifies and hashes to the same beta)
			if rp, err := a.proveRand(constReader(byte(step)), ed25519.PrivateKey(skBuf), alphaBuf); err != nil {
				fail("ProveWithAddedRandomness (error)", nil, tr.Pi)
			} else if ok, beta := a.verify(ed25519.PublicKey(pkBuf), rp, alphaBuf); !ok || !bytes.Equal(beta, tr.Beta) {
				fail("ProveWithAddedRandomness (its proof does not verify to the reference beta)", beta, tr.Beta)
			}
			copy(piBuf, tr.Pi)
			ok, beta := a.verify(ed25519.PublicKey(pkBuf), piBuf, alphaBuf)
			if !ok || !bytes.Equal(beta, tr.Beta) {
				fail("Verify", beta, tr.Beta)
			}
			if h, err := ecvrf.ProofToHash(piBuf); err != nil || !bytes.Equal(h, tr.Beta) {
				fail("ProofToHash", h, tr.Beta)
			}
			// the previous step's proof (still a valid proof - for another key or alpha) must now be rejected
			if step > 0 {
				prevK := keys[order[step-1]]
				if prevK.desc != k.desc {
					prevAl := alphas[0].b
					if rotateAlpha {
						prevAl = alphas[(step-1)%len(alphas)].b
						if len(prevAl) > cap(alphaBuf) {
							prevAl = prevAl[:cap(alphaBuf)]
						}
					}
					copy(piBuf, proveRef(f, prevK.ref, prevAl).Pi)
					if ok, _ := a.verify(ed25519.PublicKey(pkBuf), piBuf, alphaBuf); ok {
						fail("Verify accepted the previous key's proof under the key now in the buffer", []byte{1}, []byte{0})
					}
				}
			}
			// the caller now wipes its buffers before the next rotation step
			ffill(skBuf)
			ffill(pkBuf)
			ffill(piBuf)
			ffill(alphaBuf[:cap(alphaBuf)])
		}
	})
}

var _ = refvrf.RFC9381
