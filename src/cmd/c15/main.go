// C15: ECVRF-EDWARDS25519-SHA512-ELL2 proofs are complete, unique and specification-exact.
//
// Sub-spaces (full products of de-duplicated alphabets):
//
//	prove       keys x alphas x {RFC 9381, draft-10}: deterministic proof bytes, H, c, beta, verification,
//	            cross-format, other key, other alpha
//	randomized  keys x alphas x formats: ProveWithAddedRandomness with every deterministic reader
//	flips       proofs x (640 proof bits + 256 public-key bits)
//	decode      Gamma-encoding alphabet x s alphabet (+ proof lengths) through ProofToHash and Verify
//	torsion     keys x alphas x formats x key torsion T_a x Gamma torsion T_g: proofs for Y+T_a with
//	            Gamma+T_g, ground until the verification equation holds
//	smallkey    small-order / non-canonical public-key strings x T_g, ground the same way (must be rejected)
//	keys        malformed and foreign public-key strings
//	alpha-sweep EVERY alpha length 0..300 (thorough 0..1100) x formats: proof, H, Verify, beta against the reference
//	returned-slices  overwrite every returned slice / every input after the call and re-observe (no aliasing); nil = empty alpha
//	fixtures    every key made with the library = RFC 8032 (a library failure is a violation, not a harness error)
//	class-keys  keys chosen by reference-side class of the clamped scalar (8 top-byte ranges incl. top digit +8,
//	            recoding events) x alphas x formats: Prove = reference, Verify, ProofToHash
//	memory      keys x alphas x formats x argument layouts: every byte-slice argument as a sub-slice of a larger
//	            buffer (spare capacity, arguments adjacent in one buffer in every order, two keys back to back):
//	            results independent of the layout, caller's memory bit-identical after every call
//
// Oracle: package refvrf (RFC 9381 written literally with math/big).
package main

import (
	"bytes"
	"fmt"
	"io"
	"math/big"
	"runtime"
	"sort"
	"sync"
	"time"

	"github.com/oasisprotocol/curve25519-voi/internal/verif/alph"
	"github.com/oasisprotocol/curve25519-voi/internal/verif/mc"
	"github.com/oasisprotocol/curve25519-voi/internal/verif/ref"
	"github.com/oasisprotocol/curve25519-voi/internal/verif/ref/refvrf"
	"github.com/oasisprotocol/curve25519-voi/primitives/ed25519"
	"github.com/oasisprotocol/curve25519-voi/primitives/ed25519/extra/ecvrf"
)

func main() { mc.Main("C15", run) }

var formats = []refvrf.Format{refvrf.RFC9381, refvrf.Draft10}

// The library's entry points per challenge format.
type api struct {
	prove     func(ed25519.PrivateKey, []byte) []byte
	proveRand func(io.Reader, ed25519.PrivateKey, []byte) ([]byte, error)
	verify    func(ed25519.PublicKey, []byte, []byte) (bool, []byte)
	name      string
}

func apiFor(f refvrf.Format) api {
	if f == refvrf.Draft10 {
		return api{ecvrf.Prove_v10, ecvrf.ProveWithAddedRandomness_v10, ecvrf.Verify_v10, "_v10"}
	}
	return api{ecvrf.Prove, ecvrf.ProveWithAddedRandomness, ecvrf.Verify, ""}
}

func other(f refvrf.Format) refvrf.Format {
	if f == refvrf.Draft10 {
		return refvrf.RFC9381
	}
	return refvrf.Draft10
}

type keyT struct {
	desc string
	ref  refvrf.Key
	sk   ed25519.PrivateKey
	pk   ed25519.PublicKey
}

type named struct {
	b    []byte
	desc string
}

func unhex(s string) []byte {
	var b []byte
	fmt.Sscanf(s, "%x", &b)
	return b
}

func keyAlphabet(c *mc.Ctx) []keyT {
	seeds := []named{
		{bytes.Repeat([]byte{0x00}, 32), "seed=00^32"},
		{bytes.Repeat([]byte{0xff}, 32), "seed=ff^32"},
		{unhex("9d61b19deffd5a60ba844af492ec2cc44449c5697b326919703bac031cae7f60"), "seed=RFC8032-1"},
		{append([]byte{0x01}, make([]byte, 31)...), "seed=01,00^31"},
	}
	ng := c.Pick(2, 8)
	for i := 0; i < ng; i++ {
		seeds = append(seeds, named{mc.Bytes(c.Seed, "vrf-seed", i, 32), fmt.Sprintf("seed=generic#%d", i)})
	}
	var out []keyT
	for _, s := range seeds {
		out = append(out, mkKey(s))
	}
	return out
}

// mkKey builds the library key and the reference key for a seed.  They are compared in the
// "fixtures" sub-space (a library failure there is a violation, never a harness error).
func mkKey(s named) keyT {
	sk := ed25519.NewKeyFromSeed(s.b)
	return keyT{desc: s.desc, ref: refvrf.DeriveKey(s.b), sk: sk, pk: ed25519.PublicKey(append([]byte{}, sk[32:]...))}
}

// scalarClasses: reference-side classes of the clamped secret scalar x = clamp(SHA-512(seed)[:32]) that a
// scalar multiplication x*H (Gamma) or x*B can distinguish: the range of its top byte (0x40..0x7f in eight
// ranges; 0x78..0x7f is the only one whose signed radix-16 recoding ends in the un-recentred top digit +8)
// and the recoding events (a digit -8, a digit +7, a nibble 7 that becomes -8 through a carry, a digit 0).
func scalarClasses(x *big.Int) []string {
	b := ref.LE32(x)
	cls := []string{fmt.Sprintf("key-class/top-byte-0x%02x-0x%02x", b[31]&^7, b[31]|7)}
	carry := 0
	seen := map[string]bool{}
	for i := 0; i < 64; i++ {
		nib := int(b[i/2]>>(4*uint(i%2))) & 15
		d := nib + carry
		carry = 0
		if i < 63 && d >= 8 {
			d -= 16
			carry = 1
		}
		switch {
		case i == 63:
			seen[fmt.Sprintf("key-class/digit63=%+d", d)] = true
		case d == -8 && nib == 7:
			seen["key-class/nibble 7 + carry-in -> -8"] = true
		case d == -8:
			seen["key-class/digit -8"] = true
		case d == 7:
			seen["key-class/digit +7"] = true
		case d == 0:
			seen["key-class/digit 0"] = true
		}
	}
	for k := range seen {
		cls = append(cls, k)
	}
	sort.Strings(cls)
	return cls
}

// classKeys: deterministic search over mc.Bytes(seed, "c15-key", i, 32), i = 0, 1, ..., taking a seed while
// one of its classes still needs members (reference side only).
func classKeys(c *mc.Ctx) ([]keyT, map[string]int) {
	need := map[string]int{"key-class/digit -8": 2, "key-class/digit +7": 2, "key-class/nibble 7 + carry-in -> -8": 2, "key-class/digit 0": 2, "key-class/digit63=+8": 2}
	for t := 0x40; t < 0x80; t += 8 {
		need[fmt.Sprintf("key-class/top-byte-0x%02x-0x%02x", t, t+7)] = c.Pick(2, 4)
	}
	count := map[string]int{}
	var out []keyT
	for i := 0; i < 4096; i++ {
		missing := false
		for cl, n := range need {
			if count[cl] < n {
				missing = true
			}
		}
		if !missing {
			break
		}
		sd := mc.Bytes(c.Seed, "c15-key", i, 32)
		cls := scalarClasses(ref.ClampedScalarFromSeed(sd))
		useful := false
		for _, cl := range cls {
			if count[cl] < need[cl] {
				useful = true
			}
		}
		if !useful {
			continue
		}
		for _, cl := range cls {
			count[cl]++
		}
		out = append(out, mkKey(named{sd, fmt.Sprintf("seed=class#%d[top byte 0x%02x]", i, ref.LE32(ref.ClampedScalarFromSeed(sd))[31])}))
	}
	return out, count
}

func alphaAlphabet(c *mc.Ctx) []named {
	ls := append([]int{}, alph.Lengths...)
	if c.Thorough {
		ls = append(ls, 3, 16, 17, 47, 48, 49, 79, 80, 81, 95, 96, 97, 143, 144, 145, 1000, 4096)
	}
	sort.Ints(ls)
	out := []named{{nil, "alpha=nil"}, {[]byte{}, "alpha=empty"}}
	last := 0
	for _, n := range ls {
		if n <= 0 || n == last {
			continue
		}
		last = n
		out = append(out, named{mc.Bytes(c.Seed, "alpha", n, n), fmt.Sprintf("alpha[%d]", n)})
	}
	return out
}

// Deterministic entropy sources for ProveWithAddedRandomness.
type constReader byte

func (r constReader) Read(p []byte) (int, error) {
	for i := range p {
		p[i] = byte(r)
	}
	return len(p), nil
}

type streamReader struct {
	buf  []byte
	step int // max bytes per Read (0 = unlimited)
	fail int // fail once this many bytes were delivered (-1 = never)
	n    int
}

func (r *streamReader) Read(p []byte) (int, error) {
	if r.fail >= 0 && r.n >= r.fail {
		return 0, fmt.Errorf("entropy source failed after %d bytes", r.n)
	}
	k := len(p)
	if r.step > 0 && k > r.step {
		k = r.step
	}
	if r.fail >= 0 && r.n+k > r.fail {
		k = r.fail - r.n
	}
	for i := 0; i < k; i++ {
		p[i] = r.buf[(r.n+i)%len(r.buf)]
	}
	r.n += k
	return k, nil
}

func stream(seed int64, name string, step, fail int) *streamReader {
	return &streamReader{buf: mc.Bytes(seed, "entropy-"+name, 0, 256), step: step, fail: fail}
}

func hexs(b []byte) string { return fmt.Sprintf("%x", b) }

func splitProof(pi []byte) (gamma, c, s []byte) { return pi[:32], pi[32:48], pi[48:80] }

func leInt(b []byte) *big.Int { return ref.FromLE(b) }

func run(c *mc.Ctx) {
	keys := keyAlphabet(c)
	ckeys, classCount := classKeys(c)
	alphas := alphaAlphabet(c)
	c.Rep.Extra["keys"] = len(keys)
	c.Rep.Extra["class_keys"] = len(ckeys)
	c.Rep.Extra["alphas"] = len(alphas)
	for cl, n := range classCount {
		c.Rep.Classes[cl] = int64(n) // reference-side membership counts of the class keys (guarded below)
	}
	// Fixtures: every key of the harness is made with the library (NewKeyFromSeed) and with the reference.  A
	// disagreement is a violation of its own (the proof of such a key cannot verify under the matching public
	// key), reported here; the remaining sub-spaces, which take the keys for granted, are then not run.
	allKeys := append(append([]keyT{}, keys...), ckeys...)
	seq(c, "fixtures", len(allKeys), func(w *mc.W, i int) {
		k := allKeys[i]
		w.Eval("fixtures/key", true)
		if !bytes.Equal(k.pk, k.ref.PK) || len(k.sk) != 64 || !bytes.Equal(k.sk[:32], k.ref.Seed) {
			w.Fail("ed25519.NewKeyFromSeed/public-key", fmt.Sprintf("%s (seed %x, clamped scalar classes %v): library public key %x, RFC 8032 gives %x", k.desc, k.ref.Seed, scalarClasses(k.ref.X), k.pk, k.ref.PK),
				map[string]string{"seed": hexs(k.ref.Seed)})
		}
	})
	if c.Rep.NViolations > 0 && !c.Replaying() {
		c.Cap("a key fixture made with the library disagrees with RFC 8032 (reported as a violation); the sub-spaces that build on the keys were not run")
		return
	}
	timing := map[string]float64{}
	timed := func(name string, f func()) {
		t := time.Now()
		f()
		timing[name] = float64(time.Since(t).Milliseconds()) / 1000
	}
	// First, on one goroutine in a fresh process: slices the package hands out.  If a returned slice is shared
	// (package-level buffer, cache entry), the concurrent sub-spaces below would fail depending on scheduling,
	// i.e. not reproducibly; they are then not run and the (replayable) violations of this sub-space stand alone.
	timed("returned-slices", func() { runReturned(c, keys, alphas) })
	if c.Rep.NViolations > 0 && !c.Replaying() {
		c.Cap("returned-slices violations found: the package hands out shared memory, the concurrent sub-spaces were not run (their verdicts would depend on scheduling)")
		c.Rep.Extra["wall_s_by_group"] = timing
		return
	}
	timed("class-keys", func() { runProve2(c, ckeys, alphas) })
	timed("prove", func() { runProve(c, keys, alphas) })
	timed("randomized", func() { runRandomized(c, keys, alphas) })
	timed("flips", func() { runFlips(c, keys, alphas) })
	timed("decode", func() { runDecode(c, keys, alphas) })
	timed("torsion", func() { runTorsion(c, keys, alphas) })
	timed("smallkey", func() { runSmallKey(c, keys, alphas) })
	timed("keys", func() { runKeys(c, keys, alphas) })
	timed("memory", func() { runMemory(c, keys, alphas) })
	timed("buffer-reuse", func() { runBufferReuse(c, keys, alphas) })
	timed("alpha-sweep", func() { runAlphaSweep(c, keys) })
	c.Rep.Extra["wall_s_by_group"] = timing // informational only; no verdict depends on it

	for _, cl := range []string{
		"prove/rfc9381", "prove/draft10", "randomized/rfc9381", "randomized/draft10",
		"flip/gamma-undecodable", "flip/gamma-other-point", "flip/c", "flip/s>=L", "flip/s<L", "flip/pk",
		"decode/valid", "decode/gamma-noncanonical", "decode/gamma-not-on-curve", "decode/s>=L", "decode/s=honest+L", "decode/length", "decode/challenge-mismatch",
		"torsion/accepted/honest-key/gamma+T", "torsion/accepted/mixed-order-key", "torsion/accepted/mixed-order-key/gamma+T", "torsion/rejected/unground",
		"smallkey/equation-holds/small-order", "smallkey/equation-holds/non-canonical",
		"keys/pk-length", "keys/pk-not-a-point", "keys/pk-noncanonical",
		"alpha-sweep/rfc9381", "alpha-sweep/draft10", "returned-slices/rfc9381", "returned-slices/draft10", "returned-slices/nil-vs-empty-alpha",
		"memory/prove", "memory/prove-randomized", "memory/prove-then-verify", "memory/verify", "memory/verify-rejecting", "memory/proof-to-hash", "memory/key-store-history", "buffer-reuse/"+refvrf.RFC9381.String(), "buffer-reuse/"+refvrf.Draft10.String(),
	} {
		c.Require(cl, 1)
	}
	for _, cl := range []string{"key-class/digit -8", "key-class/digit +7", "key-class/nibble 7 + carry-in -> -8", "key-class/digit 0"} {
		c.Require(cl, 2)
	}
	for t := 0x40; t < 0x80; t += 8 {
		c.Require(fmt.Sprintf("key-class/top-byte-0x%02x-0x%02x", t, t+7), 2)
	}
	c.Require("key-class/digit63=+8", 2)
	c.Require("class-keys/rfc9381", 16)
	c.Require("class-keys/draft10", 16)
	// every non-trivial torsion component must have produced an accepted proof
	for t := 1; t < 8; t++ {
		c.Require(fmt.Sprintf("torsion/accepted/gamma+T%d", t), 1)
		c.Require(fmt.Sprintf("torsion/accepted/key+T%d", t), 1)
	}
}

// harnessErr marks a failure of the harness or of the reference model (never of the library):
// it is reported as a broken check (exit 2), not as a violation.
type harnessErr string

// par is c.Par with the callback guarded: a harnessErr becomes a broken check, any other panic
// (i.e. one raised by the library under test) becomes a violation with key "panic" - also when a
// single case is replayed, where the engine itself does not recover.
func par(c *mc.Ctx, sub string, n int, f func(w *mc.W, i int)) {
	c.Par(sub, n, func(w *mc.W, i int) {
		defer func() {
			if r := recover(); r != nil {
				if he, ok := r.(harnessErr); ok {
					c.Broken(fmt.Sprintf("%s:%d: %s", sub, i, string(he)))
					return
				}
				buf := make([]byte, 4096)
				m := runtime.Stack(buf, false)
				w.Fail("panic", fmt.Sprintf("unexpected panic in case: %v\n%s", r, buf[:m]), nil)
			}
		}()
		f(w, i)
	})
}

// proveRef memoises the reference proof per (format, key, alpha): the same honest proofs are the
// starting point of several sub-spaces.  Reference side only; the value is a pure function of the key.
var refProofs sync.Map

func proveRef(f refvrf.Format, k refvrf.Key, alpha []byte) refvrf.Trace {
	key := string([]byte{byte(f)}) + string(k.Seed) + string(alpha)
	v, ok := refProofs.Load(key)
	if !ok {
		v, _ = refProofs.LoadOrStore(key, refvrf.Prove(f, k, alpha))
	}
	tr := v.(refvrf.Trace)
	// fresh copies of the byte strings: callers hand them to the library under test
	tr.Pi = append([]byte{}, tr.Pi...)
	tr.Beta = append([]byte{}, tr.Beta...)
	return tr
}
