package main

import (
	"bytes"
	"fmt"

	"github.com/oasisprotocol/curve25519-voi/internal/verif/mc"
	"github.com/oasisprotocol/curve25519-voi/internal/verif/ref/refvrf"
	"github.com/oasisprotocol/curve25519-voi/primitives/ed25519"
	"github.com/oasisprotocol/curve25519-voi/primitives/ed25519/extra/ecvrf"
)

// Caller-memory oracle.
//
// The property quantifies over every private key, public key, input string and
// proof *value*; a Go caller hands these over as slices, and slices that hold
// keys or messages are very often sub-slices of a larger buffer (a key store, a
// decoded request "sk || tag || alpha", a wire message).  The result of every
// entry point must therefore be a function of the argument values only, and the
// entry points must not write to the caller's memory: neither into an argument
// nor into the spare capacity behind it.  Keys made by NewKeyFromSeed and the
// alphabets of the other sub-spaces all have cap == len, so an `append(arg, ...)`
// inside the library is invisible there.
//
// Every byte-slice argument is placed in an arena: guard | part | gap | part | ... | guard,
// returned as buf[off:off+n] (capacity reaches to the end of the arena, as for any
// ordinary sub-slice), for every ordering of the arguments and gap in {0, 1} (gap 0:
// the next argument *is* the spare capacity of the previous one), plus each argument
// alone in front of a guard region, plus two private keys back to back used one after
// the other.  After every call (a) the result must equal the reference / the result on
// tight copies, (b) the whole arena must be bit-identical to its snapshot.

type part struct {
	name string
	data []byte
}

type region struct {
	name   string
	off, n int
}

type arena struct {
	buf, snap []byte
	regions   []region
	desc      string
}

func guardByte(i int) byte { return byte(0xa7 ^ (i * 29)) }

// newArena lays the parts out in order with `gap` guard bytes between them, a 16-byte guard in
// front and `tail` guard bytes behind; it returns the sub-slices in the order of parts.
func newArena(parts []part, gap, tail int) (*arena, [][]byte) {
	a := &arena{}
	total := 16 + tail
	for _, p := range parts {
		total += len(p.data) + gap
		a.desc += p.name + "|"
	}
	a.desc += fmt.Sprintf("gap=%d", gap)
	a.buf = make([]byte, total)
	for i := range a.buf {
		a.buf[i] = guardByte(i)
	}
	off := 16
	out := make([][]byte, len(parts))
	for i, p := range parts {
		copy(a.buf[off:], p.data)
		out[i] = a.buf[off : off+len(p.data)] // cap extends to the end of the arena
		a.regions = append(a.regions, region{p.name, off, len(p.data)})
		off += len(p.data) + gap
	}
	a.snap = append([]byte{}, a.buf...)
	return a, out
}

// changed reports the first modified byte of the arena and the region it lies in.
func (a *arena) changed() (bool, string) {
	if bytes.Equal(a.buf, a.snap) {
		return false, ""
	}
	for i := range a.buf {
		if a.buf[i] != a.snap[i] {
			where := "guard region in front of the arguments"
			for _, r := range a.regions {
				if i >= r.off && i < r.off+r.n {
					where = fmt.Sprintf("argument %s at byte %d", r.name, i-r.off)
					break
				}
				if i >= r.off+r.n {
					where = fmt.Sprintf("guard region, %d byte(s) behind the end of argument %s", i-r.off-r.n+1, r.name)
				}
			}
			n := 0
			for j := range a.buf {
				if a.buf[j] != a.snap[j] {
					n++
				}
			}
			return true, fmt.Sprintf("%d byte(s) changed, first at arena offset %d (%s): %02x -> %02x", n, i, where, a.snap[i], a.buf[i])
		}
	}
	return false, ""
}

// tight returns a copy with cap == len.
func tight(b []byte) []byte {
	t := make([]byte, len(b))
	copy(t, b)
	return t[:len(b):len(b)]
}

func perms(n int) [][]int {
	if n == 1 {
		return [][]int{{0}}
	}
	var out [][]int
	for _, p := range perms(n - 1) {
		for pos := 0; pos <= len(p); pos++ {
			q := append(append(append([]int{}, p[:pos]...), n-1), p[pos:]...)
			out = append(out, q)
		}
	}
	return out
}

// layouts enumerates the arenas for the given arguments: every ordering with gap 0 and 1 in one
// arena, and every argument alone (the others tight).  It calls f with the placed slices (in the
// order of parts) and the arenas to check afterwards.
func layouts(parts []part, tail int, f func(desc string, placed [][]byte, arenas []*arena)) {
	for _, order := range perms(len(parts)) {
		for gap := 0; gap <= 1; gap++ {
			ps := make([]part, len(parts))
			for i, o := range order {
				ps[i] = parts[o]
			}
			a, sl := newArena(ps, gap, tail)
			placed := make([][]byte, len(parts))
			for i, o := range order {
				placed[o] = sl[i]
			}
			f("one-buffer:"+a.desc, placed, []*arena{a})
		}
	}
	for i := range parts {
		placed := make([][]byte, len(parts))
		for j := range parts {
			placed[j] = tight(parts[j].data)
		}
		a, sl := newArena([]part{parts[i]}, 0, tail)
		placed[i] = sl[0]
		f("spare-capacity:"+parts[i].name, placed, []*arena{a})
	}
	if len(parts) > 1 {
		// every argument in its own arena
		placed := make([][]byte, len(parts))
		var as []*arena
		for i := range parts {
			a, sl := newArena([]part{parts[i]}, 0, tail)
			placed[i] = sl[0]
			as = append(as, a)
		}
		f("spare-capacity:all", placed, as)
	}
}

func runMemory(c *mc.Ctx, keys []keyT, alphas []named) {
	nk := c.Pick(3, len(keys))
	if nk > len(keys) {
		nk = len(keys)
	}
	als := alphas[1:] // the nil alpha has no memory; "empty" is placed as a zero-length sub-slice
	p := mc.Product{Radix: []int{nk, len(als), len(formats)}}
	c.Rep.Extra["memory_cases"] = p.Size()
	par(c, "memory", p.Size(), func(w *mc.W, i int) {
		var d [3]int
		p.Decode(i, d[:])
		k, k1, al, f := keys[d[0]], keys[(d[0]+1)%len(keys)], als[d[1]], formats[d[2]]
		a := apiFor(f)
		tail := len(al.b) + 96 // room for anything the library might append behind an argument

		// reference side, once per case
		tr := proveRef(f, k.ref, al.b)
		tr1 := proveRef(f, k1.ref, al.b)
		badPi := append([]byte{}, tr.Pi...)
		badPi[40] ^= 0x10 // one bit of c
		if ok, _, _ := refvrf.Verify(f, k.pk, badPi, al.b, true); ok {
			panic(harnessErr("reference verifier accepts a proof with one bit of c flipped"))
		}
		// the randomised proof on tight copies (its validity is a reference verdict)
		tightR, err := a.proveRand(stream(c.Seed, "A", 0, -1), ed25519.PrivateKey(tight(k.sk)), tight(al.b))
		if err != nil || len(tightR) != refvrf.ProofLen {
			w.Fail("ecvrf.ProveWithAddedRandomness"+a.name+"/error", fmt.Sprintf("%s %s: (%x, %v)", k.desc, al.desc, tightR, err), nil)
			return
		}
		if ok, _, why := refvrf.Verify(f, k.pk, tightR, al.b, true); !ok {
			w.Fail("ecvrf.ProveWithAddedRandomness"+a.name+"/proof-does-not-verify", fmt.Sprintf("%s %s %s: pi=%x is INVALID per the reference verifier (%s)", k.desc, al.desc, f, tightR, why), caseMap(f, k.pk, tightR, al.b))
		}

		cas := func(layout string) map[string]string {
			return map[string]string{"format": f.String(), "key": k.desc, "seed": hexs(k.ref.Seed), "alpha": hexs(al.b), "alpha_desc": al.desc, "layout": layout}
		}
		memR := func(fn, layout string, as []*arena, restore bool) {
			for _, ar := range as {
				if ch, what := ar.changed(); ch {
					w.Fail("ecvrf."+fn+"/caller-memory", fmt.Sprintf("%s %s, layout %s: the call modified the caller's memory: %s", k.desc, al.desc, layout, what), cas(layout))
					if restore {
						copy(ar.buf, ar.snap) // the following calls of this layout are judged on their own
					} else {
						copy(ar.snap, ar.buf) // history: keep the damage, report further changes only
					}
				}
			}
		}
		mem := func(fn, layout string, as []*arena) { memR(fn, layout, as, true) }
		res := func(fn, layout string, ok bool, got, want interface{}) {
			if !ok {
				w.Fail("ecvrf."+fn+"/layout-dependent-result", fmt.Sprintf("%s %s, layout %s: got %x, the reference (and the same call on tight copies) gives %x", k.desc, al.desc, layout, got, want), cas(layout))
			}
		}

		// Prove*, ProveWithAddedRandomness*: (sk, alpha)
		layouts([]part{{"sk", k.sk}, {"alpha", al.b}}, tail, func(desc string, pl [][]byte, as []*arena) {
			w.Eval("memory/prove", true)
			pi := a.prove(ed25519.PrivateKey(pl[0]), pl[1])
			res("Prove"+a.name, desc, bytes.Equal(pi, tr.Pi), pi, tr.Pi)
			mem("Prove"+a.name, desc, as)
			w.Eval("memory/prove-randomized", true)
			piR, err := a.proveRand(stream(c.Seed, "A", 0, -1), ed25519.PrivateKey(pl[0]), pl[1])
			res("ProveWithAddedRandomness"+a.name, desc, err == nil && bytes.Equal(piR, tightR), piR, tightR)
			mem("ProveWithAddedRandomness"+a.name, desc, as)
			// the same slices go on to verification, as in a request handler
			w.Eval("memory/prove-then-verify", true)
			ok, beta := a.verify(k.pk, tr.Pi, pl[1])
			res("Verify"+a.name, desc+" (alpha slice reused after Prove)", ok && bytes.Equal(beta, tr.Beta), beta, tr.Beta)
			mem("Verify"+a.name, desc, as)
		})

		// Verify*: (pk, pi, alpha), an accepted and a rejected proof
		layouts([]part{{"pk", k.pk}, {"pi", tr.Pi}, {"alpha", al.b}}, tail, func(desc string, pl [][]byte, as []*arena) {
			w.Eval("memory/verify", true)
			ok, beta := a.verify(ed25519.PublicKey(pl[0]), pl[1], pl[2])
			res("Verify"+a.name, desc, ok && bytes.Equal(beta, tr.Beta), beta, tr.Beta)
			mem("Verify"+a.name, desc, as)
		})
		layouts([]part{{"pk", k.pk}, {"pi", badPi}, {"alpha", al.b}}, tail, func(desc string, pl [][]byte, as []*arena) {
			w.Eval("memory/verify-rejecting", true)
			ok, beta := a.verify(ed25519.PublicKey(pl[0]), pl[1], pl[2])
			res("Verify"+a.name, desc+" (invalid proof)", !ok, beta, []byte(nil))
			mem("Verify"+a.name, desc, as)
		})

		// ProofToHash: (pi)
		layouts([]part{{"pi", tr.Pi}}, tail, func(desc string, pl [][]byte, as []*arena) {
			w.Eval("memory/proof-to-hash", true)
			beta, err := ecvrf.ProofToHash(pl[0])
			res("ProofToHash", desc, err == nil && bytes.Equal(beta, tr.Beta), beta, tr.Beta)
			mem("ProofToHash", desc, as)
		})

		// Key store: two private keys back to back (and with one byte between), used one after the
		// other in both orders; every proof must be the reference proof of its key and must verify.
		for gap := 0; gap <= 1; gap++ {
			for order := 0; order < 2; order++ {
				ar, sl := newArena([]part{{"sk0", k.sk}, {"sk1", k1.sk}}, gap, tail)
				desc := fmt.Sprintf("key-store:%s,order=%d", ar.desc, order)
				type step struct {
					sk  []byte
					pk  []byte
					tr  refvrf.Trace
					who string
				}
				steps := []step{{sl[0], k.pk, tr, "sk0"}, {sl[1], k1.pk, tr1, "sk1"}}
				if order == 1 {
					steps[0], steps[1] = steps[1], steps[0]
				}
				for n, st := range steps {
					w.Eval("memory/key-store-history", true)
					var pi []byte
					if gap == 1 && n == 0 {
						pi, _ = a.proveRand(stream(c.Seed, "A", 0, -1), ed25519.PrivateKey(st.sk), tight(al.b))
						if ok, _, _ := refvrf.Verify(f, st.pk, pi, al.b, true); !ok {
							w.Fail("ecvrf.ProveWithAddedRandomness"+a.name+"/layout-dependent-result", fmt.Sprintf("%s %s, layout %s step %d (%s): randomised proof %x is INVALID per the reference verifier", k.desc, al.desc, desc, n+1, st.who, pi), cas(desc))
						}
						memR("ProveWithAddedRandomness"+a.name, desc, []*arena{ar}, false)
					} else {
						pi = a.prove(ed25519.PrivateKey(st.sk), tight(al.b))
						res("Prove"+a.name, fmt.Sprintf("%s step %d (%s)", desc, n+1, st.who), bytes.Equal(pi, st.tr.Pi), pi, st.tr.Pi)
						memR("Prove"+a.name, desc, []*arena{ar}, false)
					}
					ok, beta := a.verify(st.pk, pi, al.b)
					res("Verify"+a.name, fmt.Sprintf("%s step %d (%s): proof of the stored key under its public key", desc, n+1, st.who), ok && bytes.Equal(beta, st.tr.Beta), beta, st.tr.Beta)
				}
			}
		}
		if i%11 == 0 {
			w.Sample(map[string]string{"op": "caller-memory layouts", "key": k.desc, "alpha": al.desc, "format": f.String()})
		}
	})
}
