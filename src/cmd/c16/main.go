// C16: the lattice short-vector reduction satisfies its post-condition for
// every structured scalar, and the delta-scaled triple-base multiplication
// (plain, expanded and ristretto forms) lies in E[8] exactly when
// [a]A + [b]B - C does.
package main

import (
	"bytes"
	"fmt"
	"math/big"
	"runtime"
	"sync"
	"sync/atomic"
	"time"

	"github.com/oasisprotocol/curve25519-voi/curve"
	"github.com/oasisprotocol/curve25519-voi/curve/scalar"
	"github.com/oasisprotocol/curve25519-voi/internal/lattice"
	"github.com/oasisprotocol/curve25519-voi/internal/verif/alph"
	"github.com/oasisprotocol/curve25519-voi/internal/verif/mc"
	"github.com/oasisprotocol/curve25519-voi/internal/verif/ptalph"
	"github.com/oasisprotocol/curve25519-voi/internal/verif/ref"
	"github.com/oasisprotocol/curve25519-voi/internal/verif/ref/refgrp"
)

func main() { mc.Main("C16", run) }

var (
	one     = big.NewInt(1)
	two64   = new(big.Int).Lsh(one, 64)
	two127  = new(big.Int).Lsh(one, 127)
	two128  = new(big.Int).Lsh(one, 128)
	two254  = new(big.Int).Lsh(one, 254)
	two255  = new(big.Int).Lsh(one, 255)
	mask255 = new(big.Int).Sub(two255, one)
)

func pow2(j uint) *big.Int { return new(big.Int).Lsh(one, j) }

// i128 turns the (hi, lo) two's complement pair into the signed integer.
func i128(hi int64, lo uint64) *big.Int {
	v := new(big.Int).Mul(big.NewInt(hi), two64)
	return v.Add(v, new(big.Int).SetUint64(lo))
}

// parts128 is the inverse for -2^127 <= v < 2^127.
func parts128(v *big.Int) (int64, uint64) {
	m := new(big.Int).Mod(v, two128)
	lo := new(big.Int).And(m, new(big.Int).Sub(two64, one)).Uint64()
	hi := new(big.Int).Rsh(m, 64).Uint64()
	return int64(hi), lo
}

func shortVector(k *scalar.Scalar) (d0, d1 *big.Int) {
	a, b, c, d := lattice.VerifFindShortVector(k)
	return i128(a, b), i128(c, d)
}

type kcase struct {
	v     *big.Int
	class string
}

// cfValue returns round(L * [0; a_1, ..., a_n]).
func cfValue(as []*big.Int) *big.Int {
	h1, h0 := big.NewInt(0), big.NewInt(1) // h_0 = 0 (a_0 = 0), h_{-1} = 1
	k1, k0 := big.NewInt(1), big.NewInt(0) // k_0 = 1, k_{-1} = 0
	for _, a := range as {
		h := new(big.Int).Add(new(big.Int).Mul(a, h1), h0)
		k := new(big.Int).Add(new(big.Int).Mul(a, k1), k0)
		h0, h1, k0, k1 = h1, h, k1, k
	}
	num := new(big.Int).Mul(ref.L, h1)
	num.Lsh(num, 1).Add(num, k1)
	return num.Div(num, new(big.Int).Lsh(k1, 1))
}

// kSpace builds the structured scalar space for FindShortVector.
func kSpace(c *mc.Ctx) []kcase {
	var out []kcase
	seen := map[string]bool{}
	add := func(v *big.Int, class string) {
		if v.Sign() < 0 || v.Cmp(two255) >= 0 {
			return
		}
		key := v.Text(16)
		if seen[key] {
			return
		}
		seen[key] = true
		out = append(out, kcase{new(big.Int).Set(v), class})
	}
	L := ref.L
	for _, v := range alph.Scalars(c.Seed, false) {
		add(v, "alphabet")
	}
	for _, v := range []*big.Int{big.NewInt(0), one, new(big.Int).Sub(L, one), L} {
		add(v, "alphabet")
	}
	// L - 2^e + d and 2^e + d for every e (d in {-1,0,1}): one coordinate of the short vector is a power of two
	for e := uint(0); e <= 254; e++ {
		for d := int64(-1); d <= 1; d++ {
			add(new(big.Int).Add(new(big.Int).Sub(L, pow2(e)), big.NewInt(d)), "L-2^e")
			add(new(big.Int).Add(pow2(e), big.NewInt(d)), "alphabet")
		}
	}
	// values around the 128-bit boundary of the truncated coordinates: [2^126, 2^129), structured and generic
	for i := 0; i < c.Pick(400, 4000); i++ {
		g := ref.FromLE(mc.Bytes(c.Seed, "c16-128", i, 17))
		bits := uint(126 + i%4) // 2^126 <= v < 2^130
		v := new(big.Int).Or(new(big.Int).Mod(g, pow2(bits)), pow2(bits))
		add(v, "near-2^128")
		if i < 64 {
			add(new(big.Int).Sub(pow2(128), big.NewInt(int64(i))), "near-2^128")
			add(new(big.Int).Add(pow2(127), big.NewInt(int64(i))), "near-2^128")
			add(new(big.Int).Sub(pow2(127), big.NewInt(int64(i+1))), "near-2^128")
			add(new(big.Int).Add(pow2(128), big.NewInt(int64(i))), "near-2^128")
		}
	}
	// floor(L/m) + e
	for m := int64(2); m <= 300; m++ {
		q := new(big.Int).Div(L, big.NewInt(m))
		for e := int64(-2); e <= 2; e++ {
			add(new(big.Int).Add(q, big.NewInt(e)), "L/m")
		}
	}
	// floor(sqrt(L)) + e
	sq := new(big.Int).Sqrt(L)
	for e := int64(-50); e <= 50; e++ {
		add(new(big.Int).Add(sq, big.NewInt(e)), "sqrt(L)")
	}
	// every continued-fraction shape to depth 5 and 6 (quick) / also depth 7 and an 8-letter depth-5 alphabet (thorough)
	quot := []*big.Int{big.NewInt(1), big.NewInt(2), big.NewInt(3), pow2(16), pow2(64), pow2(100)}
	var rec func(alpha []*big.Int, depth int, cur []*big.Int, class string)
	rec = func(alpha []*big.Int, depth int, cur []*big.Int, class string) {
		if len(cur) == depth {
			v := cfValue(cur)
			add(v, class)
			if c.Thorough {
				add(new(big.Int).Sub(L, v), class+"/negated")
			}
			return
		}
		for _, a := range alpha {
			rec(alpha, depth, append(cur, a), class)
		}
	}
	rec(quot, 5, nil, "cf-depth5")
	rec([]*big.Int{big.NewInt(1), big.NewInt(2), big.NewInt(5), pow2(8), pow2(20), pow2(40)}, 5, nil, "cf-depth5-moderate")
	rec(quot, 6, nil, "cf-depth6")
	if c.Thorough {
		rec(quot, 7, nil, "cf-depth7")
		rec([]*big.Int{big.NewInt(1), big.NewInt(2), big.NewInt(5), pow2(8), pow2(32), pow2(63), pow2(126), pow2(127)}, 5, nil, "cf-depth5-alt")
	}
	// long runs of one partial quotient (a = 1 is the Fibonacci-like expansion), every depth
	for _, a := range []*big.Int{big.NewInt(1), big.NewInt(2), big.NewInt(3), pow2(16)} {
		var cur []*big.Int
		for d := 1; d <= 190; d++ {
			cur = append(cur, a)
			cl := "cf-run"
			if a.Cmp(one) == 0 {
				cl = "cf-fibonacci"
			}
			add(cfValue(cur), cl)
		}
	}
	// floor(j L / m) + e: all short expansions
	mmax := int64(c.Pick(100, 300))
	for m := int64(2); m <= mmax; m++ {
		for j := int64(1); j < m; j++ {
			q := new(big.Int).Div(new(big.Int).Mul(L, big.NewInt(j)), big.NewInt(m))
			for e := int64(-2); e <= 2; e++ {
				add(new(big.Int).Add(q, big.NewInt(e)), "jL/m")
			}
		}
	}
	// planted short vectors: k = +-d0/d1 mod L with coordinates at the 64/127/128-bit seams
	d1s := []*big.Int{one, big.NewInt(2), big.NewInt(3), pow2(63), pow2(64), new(big.Int).Add(pow2(64), one), pow2(100), pow2(125), pow2(126),
		new(big.Int).Add(pow2(126), one), new(big.Int).Sub(two127, big.NewInt(2)), new(big.Int).Sub(two127, one)}
	d0s := []*big.Int{one, big.NewInt(2), big.NewInt(3), pow2(32), pow2(63), pow2(64), new(big.Int).Add(pow2(64), one), pow2(100), pow2(126), new(big.Int).Sub(two127, one)}
	for _, d1 := range d1s {
		inv := new(big.Int).ModInverse(d1, L)
		for _, d0 := range d0s {
			k := ref.SMul(d0, inv)
			add(k, "planted")
			add(ref.SNeg(k), "planted")
			if kk := new(big.Int).Add(k, L); kk.Cmp(two255) < 0 {
				add(kk, "planted")
			}
		}
	}
	// generic, reduced and unreduced
	ng := c.Pick(10000, 100000)
	for i := 0; i < ng; i++ {
		v := ref.FromLE(mc.Bytes(c.Seed, "c16-k", i, 32))
		if i%2 == 0 {
			add(ref.SMod(v), "generic")
		} else {
			add(new(big.Int).And(v, mask255), "generic")
		}
	}
	return out
}

// Receivers previously hold an unrelated non-identity point (see C03): a result must not depend on it.
var dirtyPoint *curve.EdwardsPoint

func nr() *curve.EdwardsPoint { return curve.NewEdwardsPoint().Set(dirtyPoint) }

func nrr() *curve.RistrettoPoint { return curve.VerifRistrettoFromEdwards(dirtyPoint) }

type fsvResult struct{ d0, d1 *big.Int }

// runGuarded runs FindShortVector over ks in its own goroutine.  stuck >= 0 is the
// index that did not terminate before the deadline (the only wall-clock bound in
// the check; a batch normally takes well under a millisecond).
func runGuarded(ks []*big.Int, deadline time.Duration) (res []fsvResult, stuck int) {
	res = make([]fsvResult, len(ks))
	var progress int64 = -1
	done := make(chan interface{}, 1)
	go func() {
		defer func() { done <- recover() }()
		for i, k := range ks {
			atomic.StoreInt64(&progress, int64(i))
			d0, d1 := shortVector(ptalph.Sc(k))
			res[i] = fsvResult{d0, d1}
		}
	}()
	timer := time.NewTimer(deadline)
	defer timer.Stop()
	select {
	case p := <-done:
		if p != nil {
			panic(p)
		}
		return res, -1
	case <-timer.C:
		return nil, int(atomic.LoadInt64(&progress))
	}
}

// checkVector is the post-condition of FindShortVector.
func checkVector(w *mc.W, k *big.Int, r fsvResult, class string) {
	cas := map[string]string{"k": k.Text(16), "class": class, "d0": r.d0.String(), "d1": r.d1.String()}
	d := func(what string) string {
		return fmt.Sprintf("FindShortVector(0x%x) = (%s, %s): %s", k, r.d0, r.d1, what)
	}
	if r.d0.Sign() == 0 && r.d1.Sign() == 0 {
		w.Fail("FindShortVector/zero-vector", d("the zero vector"), cas)
	}
	lhs := ref.SMod(r.d0)
	rhs := ref.SMul(ref.SMod(r.d1), ref.SMod(k))
	if lhs.Cmp(rhs) != 0 {
		w.Fail("FindShortVector/congruence", d("d0 is not congruent to d1*k modulo L"), cas)
	}
	if ref.SMod(r.d1).Sign() == 0 {
		w.Fail("FindShortVector/d1-not-invertible", d("d1 = 0 mod L"), cas)
	}
	// both coordinates are signed 128-bit by type; the documented target is len(d0^2 + d1^2) <= 254,
	// which also keeps |d_i| < 2^127 so that Abs() cannot overflow.
	n := new(big.Int).Add(new(big.Int).Mul(r.d0, r.d0), new(big.Int).Mul(r.d1, r.d1))
	if n.BitLen() > 254 {
		w.Fail("FindShortVector/norm", d(fmt.Sprintf("squared norm has %d bits > 254", n.BitLen())), cas)
	}
}

func run(c *mc.Ctx) {
	t0 := time.Now()
	timings := map[string]float64{}
	c.Rep.Extra["phase_wall_s"] = timings
	lap := func(name string) {
		timings[name] = float64(int(time.Since(t0).Seconds()*100)) / 100
		t0 = time.Now()
	}

	// ------------------------------------------------------------ FindShortVector
	ks := kSpace(c)
	c.Rep.Extra["k_space"] = len(ks)
	const batch = 256
	nb := (len(ks) + batch - 1) / batch
	deadline := 120 * time.Second
	if c.Replaying() {
		deadline = 10 * time.Second // one 256-scalar batch; normal duration well under a millisecond
	}
	var signs [4]int64
	var nonterm int64
	c.Par("lattice", nb, func(w *mc.W, b int) {
		if atomic.LoadInt64(&nonterm) != 0 && !c.Replaying() {
			return // a non-terminating scalar has been reported; every further batch could cost another full deadline
		}
		lo, hi := b*batch, (b+1)*batch
		if hi > len(ks) {
			hi = len(ks)
		}
		vals := make([]*big.Int, hi-lo)
		for i := range vals {
			vals[i] = ks[lo+i].v
		}
		res, stuck := runGuarded(vals, deadline)
		if stuck >= 0 {
			atomic.StoreInt64(&nonterm, 1)
			k := vals[stuck]
			w.Fail("FindShortVector/nontermination", fmt.Sprintf("FindShortVector(0x%x) did not return within %v (batch %d, position %d)", k, deadline, b, stuck),
				map[string]string{"k": k.Text(16), "class": ks[lo+stuck].class})
			return
		}
		for i, r := range res {
			k := vals[i]
			checkVector(w, k, r, ks[lo+i].class)
			// non-trivial: (k, 1) itself is not short, i.e. at least one reduction step is required
			nt := new(big.Int).Add(new(big.Int).Mul(k, k), one).BitLen() > 254
			red := "reduced"
			if k.Cmp(ref.L) >= 0 {
				red = "unreduced"
			}
			w.Eval("lattice/"+ks[lo+i].class+"/"+red, nt)
			si := 0
			if r.d0.Sign() < 0 {
				si |= 1
			}
			if r.d1.Sign() < 0 {
				si |= 2
			}
			atomic.AddInt64(&signs[si], 1)
		}
		if b%16 == 0 {
			w.Sample(map[string]string{"op": "FindShortVector", "k": vals[0].Text(16), "class": ks[lo].class, "d0": res[0].d0.String(), "d1": res[0].d1.String()})
		}
	})
	// informational only (derived from the implementation's answers, therefore not a vacuity guard)
	c.Rep.Extra["observed_sign_patterns(d0>=0,d1>=0 | d0<0 | d1<0 | both<0)"] = []int64{signs[0], signs[1], signs[2], signs[3]}
	lap("lattice")

	intOps(c)
	lap("int-ops")

	if atomic.LoadInt64(&nonterm) != 0 {
		c.Cap("remaining lattice batches and the triple-base sub-spaces skipped: FindShortVector did not terminate on some scalar (reported as a violation)")
		return
	}
	func() {
		// a library panic while the operands are prepared (decode, Add, rescale, NewExpandedEdwardsPoint) is a violation, not a harness error
		defer func() {
			if p := recover(); p != nil {
				msg := fmt.Sprint(p)
				c.Seq("triple-setup", 1, func(w *mc.W, i int) {
					w.Fail("triple-setup/panic", "preparing the operands of the triple-base sub-spaces failed in the library: "+msg, nil)
				})
			}
		}()
		triple(c, ks)
	}()
	lap("triple")

	if c.Rep.NViolations > 0 {
		return // a violation is being reported; guards would only add noise
	}
	for _, cl := range []string{"alphabet/reduced", "alphabet/unreduced", "L/m/reduced", "sqrt(L)/reduced", "cf-depth5/reduced", "cf-fibonacci/reduced", "cf-run/reduced",
		"jL/m/reduced", "L-2^e/reduced", "near-2^128/reduced", "planted/reduced", "planted/unreduced", "generic/reduced", "generic/unreduced"} {
		c.Require("lattice/"+cl, 50)
	}
	c.Require("lattice/cf-depth5/reduced", 3500) // 7776 shapes; those whose quotient product exceeds L collapse onto the same rounded value
	c.Require("lattice/cf-depth5-moderate/reduced", 7000)
}

// ---------------------------------------------------------------------------------------------
// triple-base multiplication

type aPoint struct {
	el   *ptalph.Elem
	kind string // prime-order | mixed-order | torsion
	reps []*curve.EdwardsPoint
	exps []*curve.ExpandedEdwardsPoint
}

type rPoint struct {
	el        *ptalph.Elem
	inTorsion bool
}

func pickEvery(in []*big.Int, step int) []*big.Int {
	var out []*big.Int
	for i := 0; i < len(in); i += step {
		out = append(out, in[i])
	}
	return out
}

func triple(c *mc.Ctx, ks []kcase) {
	seed := c.Seed
	dirtyPoint = ptalph.Rep(seed, ptalph.Known("dirty", ptalph.Generic(seed, 9), 6).P, 4)
	g := func(i int) *big.Int { return ptalph.Generic(seed, i) }
	// --- a: a core of the k space
	byClass := map[string][]*big.Int{}
	for _, k := range ks {
		byClass[k.class] = append(byClass[k.class], k.v)
	}
	core := alph.Scalars(seed, true)
	var as []*big.Int
	seenA := map[string]bool{}
	addA := func(vs ...*big.Int) {
		for _, v := range vs {
			if !seenA[v.Text(16)] {
				seenA[v.Text(16)] = true
				as = append(as, v)
			}
		}
	}
	addA(big.NewInt(0), one, big.NewInt(2), new(big.Int).Sub(ref.L, one), ref.L, new(big.Int).Add(ref.L, one), new(big.Int).Sub(two255, one))
	// unreduced scalars >= 2^254 (accepted through NewFromBits): a, and b below
	addA(two254, new(big.Int).Add(new(big.Int).Mul(ref.L, big.NewInt(7)), one))
	if c.Thorough {
		addA(new(big.Int).Add(two254, one), new(big.Int).Sub(two255, new(big.Int).Lsh(one, 251)))
	}
	if c.Thorough {
		addA(pickEvery(core, 2)...)
		addA(pickEvery(byClass["cf-depth5"], 211)...)
		addA(pickEvery(byClass["cf-depth5-moderate"], 997)...)
		addA(pickEvery(byClass["planted"], 13)...)
		addA(pickEvery(byClass["cf-fibonacci"], 29)...)
		addA(pickEvery(byClass["L/m"], 211)...)
		addA(pickEvery(byClass["sqrt(L)"], 33)...)
		addA(pickEvery(byClass["generic"], 9973)...)
	} else {
		addA(pickEvery(core, 6)...)
		addA(pickEvery(byClass["cf-depth5"], 977)...)
		addA(pickEvery(byClass["planted"], 53)...)
		addA(pickEvery(byClass["cf-fibonacci"], 61)...)
		addA(pickEvery(byClass["L/m"], 499)...)
		addA(pickEvery(byClass["sqrt(L)"], 50)...)
		addA(pickEvery(byClass["generic"], 2503)...)
	}
	// --- b
	var bs []*big.Int
	seenB := map[string]bool{}
	addB := func(vs ...*big.Int) {
		for _, v := range vs {
			if !seenB[v.Text(16)] {
				seenB[v.Text(16)] = true
				bs = append(bs, v)
			}
		}
	}
	addB(two254)
	if c.Thorough {
		addB(new(big.Int).Sub(two255, big.NewInt(2)), new(big.Int).Add(two128, one))
	}
	addB(big.NewInt(0), one, new(big.Int).Sub(ref.L, one), ref.L, new(big.Int).Sub(two255, one), new(big.Int).Sub(two128, one), two128, two127,
		g(5), new(big.Int).And(ref.FromLE(mc.Bytes(seed, "c16-b", 0, 32)), mask255))
	if c.Thorough {
		addB(pickEvery(core, 12)...)
	}
	// --- A
	var aps []*aPoint
	addAp := func(el *ptalph.Elem, kind string) {
		ap := &aPoint{el: el, kind: kind}
		for r := 0; r < ptalph.NumReps; r++ {
			p := ptalph.Rep(seed, el.P, r)
			ap.reps = append(ap.reps, p)
			ap.exps = append(ap.exps, curve.NewExpandedEdwardsPoint(p))
		}
		aps = append(aps, ap)
	}
	addAp(ptalph.BaseElem, "prime-order")
	addAp(ptalph.Known("[g0]B", g(0), 0), "prime-order")
	addAp(ptalph.Known("[g2]B", g(2), 0), "prime-order")
	for i := 1; i < 8; i++ {
		if c.Thorough || i == 1 || i == 2 || i == 4 || i == 7 {
			addAp(ptalph.Known(fmt.Sprintf("[g0]B+T%d", i), g(0), i), "mixed-order")
		}
	}
	u0 := ptalph.NewElem("U0", ptalph.Unknown(seed, 0), nil, -1)
	u1 := ptalph.NewElem("U1", ptalph.Unknown(seed, 1), nil, -1)
	for i, u := range []*ptalph.Elem{u0, u1} {
		if !u.HasTorsion() {
			c.Broken("unknown-dlog point unexpectedly torsion-free; choose another seed")
		}
		if c.Thorough || i == 0 {
			addAp(u, "mixed-order")
		}
	}
	addAp(ptalph.NewElem("O", ref.Identity(), big.NewInt(0), 0), "torsion")
	for _, i := range []int{1, 4} {
		addAp(ptalph.Known(fmt.Sprintf("T%d", i), big.NewInt(0), i), "torsion")
	}
	if c.Thorough {
		for _, i := range []int{2, 3, 5, 6, 7} {
			addAp(ptalph.Known(fmt.Sprintf("T%d", i), big.NewInt(0), i), "torsion")
		}
	}
	// --- R = [a]A + [b]B - C
	var rs []*rPoint
	rs = append(rs, &rPoint{ptalph.NewElem("O", ref.Identity(), big.NewInt(0), 0), true})
	for i := 1; i < 8; i++ {
		rs = append(rs, &rPoint{ptalph.Known(fmt.Sprintf("T%d", i), big.NewInt(0), i), true})
	}
	rs = append(rs, &rPoint{ptalph.BaseElem, false}, &rPoint{ptalph.Known("[g1]B+T3", g(1), 3), false}, &rPoint{u0, false})
	for _, r := range rs {
		if r.el.P.IsSmallOrder() != r.inTorsion {
			c.Broken("R classification inconsistent with the reference")
		}
	}
	c.Rep.Extra["triple_a"] = len(as)
	c.Rep.Extra["triple_b"] = len(bs)
	c.Rep.Extra["triple_A"] = len(aps)
	c.Rep.Extra["triple_R"] = len(rs)

	libA := make([]*scalar.Scalar, len(as))
	for i, v := range as {
		libA[i] = ptalph.Sc(v)
	}
	libB := make([]*scalar.Scalar, len(bs))
	for i, v := range bs {
		libB[i] = ptalph.Sc(v)
	}

	bB := make([]*ref.Point, len(bs))
	mulB := func(bi int) ref.Point {
		if bB[bi] != nil {
			return *bB[bi]
		}
		return ptalph.BaseElem.Mul(bs[bi])
	}
	type mulCache [][]*ref.Point
	newCache := func(aps []*aPoint) mulCache {
		mcache := make(mulCache, len(aps))
		for i := range mcache {
			mcache[i] = make([]*ref.Point, len(as))
		}
		if c.Replaying() {
			return mcache
		}
		var next int64
		var wg sync.WaitGroup
		for k := 0; k < runtime.GOMAXPROCS(0); k++ {
			wg.Add(1)
			go func() {
				defer wg.Done()
				for {
					i := int(atomic.AddInt64(&next, 1) - 1)
					if i >= len(aps)*len(as) {
						return
					}
					p := aps[i/len(as)].el.Mul(as[i%len(as)])
					mcache[i/len(as)][i%len(as)] = &p
				}
			}()
		}
		wg.Wait()
		return mcache
	}
	mulA := func(mcache mulCache, aps []*aPoint, Ai, ai int) ref.Point {
		if p := mcache[Ai][ai]; p != nil {
			return *p
		}
		return aps[Ai].el.Mul(as[ai])
	}
	if !c.Replaying() {
		for i := range bs {
			p := ptalph.BaseElem.Mul(bs[i])
			bB[i] = &p
		}
	}
	eaps := aps
	ecache := newCache(eaps)
	var d1R sync.Map // (R index, d1) -> [d1]R, a pure function of its key
	mulR := func(rs []*rPoint, Ri int, d1 *big.Int) ref.Point {
		key := fmt.Sprintf("%p/%d/%s", rs, Ri, d1.String())
		if v, ok := d1R.Load(key); ok {
			return v.(ref.Point)
		}
		p := rs[Ri].el.Mul(d1)
		d1R.Store(key, p)
		return p
	}

	prod := mc.Product{Radix: []int{len(as), len(bs), len(aps), len(rs)}}
	// runCase is one (a, b, A, R) case.  x == nil: the shared expanded object of A's representation is used (many
	// goroutines read it); x != nil: the caller's own object, used for a whole sequence of cases (sub-space triple-reuse).
	runCase := func(w *mc.W, i, ai, bi, Ai, Ri int, x *curve.ExpandedEdwardsPoint, pre string) {
		a, b, ap, r := as[ai], bs[bi], eaps[Ai], rs[Ri]
		repA, repC := (ai+bi+Ri)%ptalph.NumReps, (ai+2*bi+Ai)%ptalph.NumReps
		// reference: W = [a]A + [b]B with the INTEGER a (A may carry torsion), C = W - R
		W := refgrp.Sum(mulA(ecache, eaps, Ai, ai), mulB(bi))
		C := refgrp.Sum(W, r.el.P.Neg())
		libC := ptalph.Rep(seed, C, repC)
		cas := map[string]string{"a": a.Text(16), "b": b.Text(16), "A": ap.el.Name + "/" + ptalph.RepName[repA], "A_enc": fmt.Sprintf("%x", ap.el.Enc),
			"C_enc": fmt.Sprintf("%x", C.Encode()), "C_rep": ptalph.RepName[repC], "aA+bB-C": r.el.Name}
		d0, d1 := shortVector(libA[ai])
		cas["d0"], cas["d1"] = d0.String(), d1.String()
		// documented contract: result = [delta]([a]A + [b]B - C) up to the torsion of A, delta = d1 (either sign is a valid delta)
		var want8 [2]ref.Point // [+-8 d1] R
		var exact [2]ref.Point // [+-d1] R, demanded only for torsion-free A
		if r.inTorsion {
			want8[0], want8[1] = ref.Identity(), ref.Identity()
			t := r.el.Tors
			j := int(new(big.Int).Mod(new(big.Int).Mul(d1, big.NewInt(int64(t))), big.NewInt(8)).Int64())
			exact[0], exact[1] = ptalph.T[j], ptalph.T[(8-j)%8]
		} else {
			e := mulR(rs, Ri, d1)
			exact[0], exact[1] = e, e.Neg()
			e8 := refgrp.FromAffine(e).Double().Double().Double().Affine()
			want8[0], want8[1] = e8, e8.Neg()
		}
		check := func(name string, resf func() *curve.EdwardsPoint) {
			defer func() {
				if p := recover(); p != nil {
					w.Fail(name+"/panic", fmt.Sprintf("%s panicked: %v", name, p), cas)
				}
			}()
			res := resf()
			if got := res.IsSmallOrder(); got != r.inTorsion {
				w.Fail(name+"/small-order-iff", fmt.Sprintf("%s(a=0x%x, A=%s, b=0x%x, C) with aA+bB-C = %s: result.IsSmallOrder() = %v, reference says %v",
					name, a, ap.el.Name, b, r.el.Name, got, r.inTorsion), cas)
				return
			}
			genc := ptalph.Enc(res)
			gp, ok, _ := ref.Decode(genc)
			if !ok {
				w.Fail(name+"/invalid-result", fmt.Sprintf("%s: result %x does not decode", name, genc), cas)
				return
			}
			g8 := refgrp.FromAffine(gp).Double().Double().Double().Affine()
			if !g8.Equal(want8[0]) && !g8.Equal(want8[1]) {
				w.Fail(name+"/delta-equation", fmt.Sprintf("%s(a=0x%x, A=%s, b=0x%x, C) with aA+bB-C = %s: [8]result = %x is not [+-8*d1](aA+bB-C) = %x for d1 = %s",
					name, a, ap.el.Name, b, r.el.Name, g8.Encode(), want8[0].Encode(), d1), cas)
				return
			}
			if ap.kind == "prime-order" && !gp.Equal(exact[0]) && !gp.Equal(exact[1]) {
				w.Fail(name+"/delta-equation-exact", fmt.Sprintf("%s(a=0x%x, A=%s (torsion-free), b=0x%x, C) with aA+bB-C = %s: result %x is not [+-d1](aA+bB-C) = %x for d1 = %s",
					name, a, ap.el.Name, b, r.el.Name, genc, exact[0].Encode(), d1), cas)
			}
		}
		cls := fmt.Sprintf("%s/A=%s/in-torsion=%v", pre, ap.kind, r.inTorsion)
		nt := a.Cmp(ref.L) >= 0 || b.Cmp(ref.L) >= 0 || ap.kind != "prime-order" || r.el.Tors != 0
		A := ap.reps[repA]
		if x == nil {
			x = ap.exps[repA]
		}
		sa, sb := libA[ai], libB[bi]
		if a.Cmp(b) == 0 {
			sb = sa // equal scalars: one object for both operands
		}
		snap := ptalph.Snap(sa, sb, A, x, libC)
		check("EdwardsPoint.TripleScalarMulBasepointVartime", func() *curve.EdwardsPoint {
			return nr().TripleScalarMulBasepointVartime(sa, A, sb, libC)
		})
		w.Eval(cls+"/plain", nt)
		check("EdwardsPoint.ExpandedTripleScalarMulBasepointVartime", func() *curve.EdwardsPoint {
			return nr().ExpandedTripleScalarMulBasepointVartime(sa, x, sb, libC)
		})
		w.Eval(cls+"/expanded", nt)
		if snap.Changed(sa, sb, A, x, libC) {
			w.Fail("TripleScalarMulBasepointVartime/input-modified", fmt.Sprintf("Triple/ExpandedTripleScalarMulBasepointVartime(a=0x%x, A=%s, b=0x%x, C): a scalar, A, the expanded A or C was modified by the call", a, ap.el.Name, b), cas)
		}
		// receiver aliases an operand
		if (ai+bi)%2 == 0 {
			rc := curve.NewEdwardsPoint().Set(A)
			check("EdwardsPoint.TripleScalarMulBasepointVartime/alias-A", func() *curve.EdwardsPoint { return rc.TripleScalarMulBasepointVartime(sa, rc, sb, libC) })
			rc2 := curve.NewEdwardsPoint().Set(libC)
			check("EdwardsPoint.ExpandedTripleScalarMulBasepointVartime/alias-C", func() *curve.EdwardsPoint { return rc2.ExpandedTripleScalarMulBasepointVartime(sa, x, sb, rc2) })
		} else {
			rc := curve.NewEdwardsPoint().Set(libC)
			check("EdwardsPoint.TripleScalarMulBasepointVartime/alias-C", func() *curve.EdwardsPoint { return rc.TripleScalarMulBasepointVartime(sa, A, sb, rc) })
		}
		if i%9973 == 0 {
			w.Sample(cas)
		}
	}
	c.Par("triple", prod.Size(), func(w *mc.W, i int) {
		var dg [4]int
		prod.Decode(i, dg[:])
		runCase(w, i, dg[0], dg[1], dg[2], dg[3], nil, "triple")
	})
	// ONE expanded object per A, used for the whole a-alphabet in a row in a single goroutine (the lattice-reduced d0 takes
	// both signs along the way); every result is checked and the object must be bit-identical after every call.
	c.Par("triple-reuse", len(eaps), func(w *mc.W, Ai int) {
		var x *curve.ExpandedEdwardsPoint
		func() {
			defer func() { _ = recover() }() // a panic here is reported by the first use below (nil object)
			x = curve.NewExpandedEdwardsPoint(eaps[Ai].reps[Ai%ptalph.NumReps])
		}()
		for ai := range as {
			runCase(w, 1, ai, ai%len(bs), Ai, (ai+Ai)%len(rs), x, "triple-reuse")
		}
		// by-value copy, then the ORIGINAL is set to another point: the copy must keep computing with A
		if x != nil {
			cpy := *x
			x.SetEdwardsPoint(eaps[(Ai+1)%len(eaps)].reps[0])
			for ai := 0; ai < len(as) && ai < 12; ai++ {
				runCase(w, 1, ai, (ai+3)%len(bs), Ai, (ai+Ai)%len(rs), &cpy, "triple-reuse/copy-after-original-reset")
			}
			// and the re-set original must compute with its new point
			for ai := 0; ai < len(as) && ai < 12; ai++ {
				runCase(w, 1, ai, (ai+5)%len(bs), (Ai+1)%len(eaps), (ai+Ai)%len(rs), x, "triple-reuse/original-after-reset")
			}
		}
	})

	// --- ristretto wrappers: representatives in 2E, verdict and equation in the quotient group
	var raps []*aPoint
	aps = nil
	addAp(ptalph.BaseElem, "prime-order")
	addAp(ptalph.Known("[g0]B", g(0), 0), "prime-order")
	for _, i := range []int{2, 4, 6} {
		addAp(ptalph.Known(fmt.Sprintf("[g0]B+T%d", i), g(0), i), "even-torsion-representative")
	}
	u2 := ptalph.NewElem("2U0", u0.P.Double(), nil, -1)
	u2.Even = true
	addAp(u2, "even-torsion-representative")
	addAp(ptalph.NewElem("O", ref.Identity(), big.NewInt(0), 0), "identity-coset")
	addAp(ptalph.Known("T4", big.NewInt(0), 4), "identity-coset")
	addAp(ptalph.Known("T6", big.NewInt(0), 6), "identity-coset")
	raps = aps
	rcache := newCache(raps)
	var rrs []*rPoint
	rrs = append(rrs, &rPoint{ptalph.NewElem("O", ref.Identity(), big.NewInt(0), 0), true})
	for _, i := range []int{2, 4, 6} {
		rrs = append(rrs, &rPoint{ptalph.Known(fmt.Sprintf("T%d", i), big.NewInt(0), i), true})
	}
	rrs = append(rrs, &rPoint{ptalph.BaseElem, false}, &rPoint{ptalph.Known("[g1]B+T2", g(1), 2), false}, &rPoint{u2, false})
	rprod := mc.Product{Radix: []int{len(as), len(bs), len(raps), len(rrs)}}
	zeroEnc := make([]byte, 32)
	c.Par("triple-ristretto", rprod.Size(), func(w *mc.W, i int) {
		var dg [4]int
		rprod.Decode(i, dg[:])
		ai, bi, Ai, Ri := dg[0], dg[1], dg[2], dg[3]
		a, b, ap, r := as[ai], bs[bi], raps[Ai], rrs[Ri]
		repA, repC := (ai+bi+Ri)%ptalph.NumReps, (ai+2*bi+Ai)%ptalph.NumReps
		W := refgrp.Sum(mulA(rcache, raps, Ai, ai), mulB(bi))
		C := refgrp.Sum(W, r.el.P.Neg())
		libC := curve.VerifRistrettoFromEdwards(ptalph.Rep(seed, C, repC))
		libAp := curve.VerifRistrettoFromEdwards(ap.reps[repA])
		_, d1 := shortVector(libA[ai])
		cas := map[string]string{"a": a.Text(16), "b": b.Text(16), "A": ap.el.Name + "/" + ptalph.RepName[repA], "C_edwards_enc": fmt.Sprintf("%x", C.Encode()),
			"aA+bB-C": r.el.Name, "d1": d1.String()}
		var wantEnc [2][]byte
		if r.inTorsion {
			wantEnc[0], wantEnc[1] = zeroEnc, zeroEnc
		} else {
			e := mulR(rrs, Ri, d1)
			wantEnc[0], wantEnc[1] = ref.RistrettoEncode(e), ref.RistrettoEncode(e.Neg())
		}
		check := func(name string, resf func() *curve.RistrettoPoint) {
			defer func() {
				if p := recover(); p != nil {
					w.Fail(name+"/panic", fmt.Sprintf("%s panicked: %v", name, p), cas)
				}
			}()
			res := resf()
			if got := res.IsIdentity(); got != r.inTorsion {
				w.Fail(name+"/identity-iff", fmt.Sprintf("%s(a=0x%x, A=%s, b=0x%x, C) with aA+bB-C = %s: result.IsIdentity() = %v, reference says %v",
					name, a, ap.el.Name, b, r.el.Name, got, r.inTorsion), cas)
				return
			}
			genc := ptalph.REnc(res)
			if !bytes.Equal(genc, wantEnc[0]) && !bytes.Equal(genc, wantEnc[1]) {
				w.Fail(name+"/delta-equation", fmt.Sprintf("%s(a=0x%x, A=%s, b=0x%x, C) with aA+bB-C = %s: result %x is not [+-d1](aA+bB-C) = %x (d1 = %s)",
					name, a, ap.el.Name, b, r.el.Name, genc, wantEnc[0], d1), cas)
			}
		}
		cls := fmt.Sprintf("triple-ristretto/A=%s/identity=%v", ap.kind, r.inTorsion)
		nt := a.Cmp(ref.L) >= 0 || b.Cmp(ref.L) >= 0 || ap.kind != "prime-order" || r.el.Tors != 0
		snap := ptalph.Snap(libA[ai], libB[bi], libAp, libC)
		check("RistrettoPoint.TripleScalarMulBasepointVartime", func() *curve.RistrettoPoint {
			return nrr().TripleScalarMulBasepointVartime(libA[ai], libAp, libB[bi], libC)
		})
		w.Eval(cls+"/plain", nt)
		check("RistrettoPoint.ExpandedTripleScalarMulBasepointVartime", func() *curve.RistrettoPoint {
			return nrr().ExpandedTripleScalarMulBasepointVartime(libA[ai], curve.NewExpandedRistrettoPoint(libAp), libB[bi], libC)
		})
		w.Eval(cls+"/expanded", nt)
		if (ai+bi)%2 == 0 {
			rc := curve.NewRistrettoPoint().Set(libAp)
			check("RistrettoPoint.TripleScalarMulBasepointVartime/alias-A", func() *curve.RistrettoPoint { return rc.TripleScalarMulBasepointVartime(libA[ai], rc, libB[bi], libC) })
			rc2 := curve.NewRistrettoPoint().Set(libC)
			check("RistrettoPoint.ExpandedTripleScalarMulBasepointVartime/alias-C", func() *curve.RistrettoPoint {
				return rc2.ExpandedTripleScalarMulBasepointVartime(libA[ai], curve.NewExpandedRistrettoPoint(libAp), libB[bi], rc2)
			})
		} else {
			rc := curve.NewRistrettoPoint().Set(libC)
			check("RistrettoPoint.TripleScalarMulBasepointVartime/alias-C", func() *curve.RistrettoPoint { return rc.TripleScalarMulBasepointVartime(libA[ai], libAp, libB[bi], rc) })
		}
		if snap.Changed(libA[ai], libB[bi], libAp, libC) {
			w.Fail("RistrettoPoint.TripleScalarMulBasepointVartime/input-modified", fmt.Sprintf("ristretto Triple/ExpandedTriple(a=0x%x, A=%s, b=0x%x, C): an input was modified by the call", a, ap.el.Name, b), cas)
		}
	})

	if c.Rep.NViolations > 0 {
		return
	}
	for _, k := range []string{"prime-order", "mixed-order", "torsion"} {
		for _, v := range []string{"plain", "expanded"} {
			c.Require(fmt.Sprintf("triple/A=%s/in-torsion=true/%s", k, v), 1000)
			c.Require(fmt.Sprintf("triple/A=%s/in-torsion=false/%s", k, v), 400)
		}
	}
	for _, k := range []string{"prime-order", "even-torsion-representative", "identity-coset"} {
		c.Require(fmt.Sprintf("triple-ristretto/A=%s/identity=true/plain", k), 400)
		c.Require(fmt.Sprintf("triple-ristretto/A=%s/identity=false/expanded", k), 200)
	}
}
