//go:build verifmin

package main

import "github.com/oasisprotocol/curve25519-voi/internal/verif/mc"

// intOps (reduced variant): the component accessors of internal/lattice did not compile against the tree under
// test and were dropped by the driver; the black-box sub-spaces (FindShortVector post-condition, triple products)
// still run.
func intOps(c *mc.Ctx) {
	c.Cap("component checks of Int128/int512/int384 skipped: their hook file does not compile against this tree")
}
