//go:build !verifmin

package main

import (
	"fmt"
	"math/big"

	"github.com/oasisprotocol/curve25519-voi/internal/lattice"
	"github.com/oasisprotocol/curve25519-voi/internal/verif/alph"
	"github.com/oasisprotocol/curve25519-voi/internal/verif/mc"
	"github.com/oasisprotocol/curve25519-voi/internal/verif/ptalph"
	"github.com/oasisprotocol/curve25519-voi/internal/verif/ref"
)

// Supplementary component checks: the fixed-width integer primitives the
// reduction is built from, each against its own doc comment evaluated with
// math/big in two's complement (wrap modulo 2^128 / 2^512 / 2^384).

func limbs(v *big.Int, n int) []uint64 {
	m := new(big.Int).Mod(v, pow2(uint(64*n)))
	out := make([]uint64, n)
	mask := new(big.Int).Sub(two64, one)
	for i := 0; i < n; i++ {
		out[i] = new(big.Int).And(new(big.Int).Rsh(m, uint(64*i)), mask).Uint64()
	}
	return out
}

func fromLimbs(l []uint64, signed bool) *big.Int {
	v := new(big.Int)
	for i := len(l) - 1; i >= 0; i-- {
		v.Lsh(v, 64).Add(v, new(big.Int).SetUint64(l[i]))
	}
	if signed && l[len(l)-1]>>63 == 1 {
		v.Sub(v, pow2(uint(64*len(l))))
	}
	return v
}

func l8(v *big.Int) (o [8]uint64) { copy(o[:], limbs(v, 8)); return }
func l6(v *big.Int) (o [6]uint64) { copy(o[:], limbs(v, 6)); return }

// wrap reduces v into the signed range of the given width.
func wrap(v *big.Int, bits uint) *big.Int {
	m := new(big.Int).Mod(v, pow2(bits))
	if m.Bit(int(bits)-1) == 1 {
		m.Sub(m, pow2(bits))
	}
	return m
}

// twosBitLen is the documented BitLen: size of the two's complement representation without the sign bit.
func twosBitLen(v *big.Int) uint {
	if v.Sign() >= 0 {
		return uint(v.BitLen())
	}
	return uint(new(big.Int).Not(v).BitLen())
}

func wideAlphabet(seed int64, bits uint) []*big.Int {
	var out []*big.Int
	seen := map[string]bool{}
	add := func(v *big.Int) {
		v = wrap(v, bits)
		if !seen[v.String()] {
			seen[v.String()] = true
			out = append(out, v)
		}
	}
	add(big.NewInt(0))
	add(one)
	add(big.NewInt(-1))
	for _, j := range []uint{63, 64, 65, 127, 128, 191, 192, 255, 256, 319, 320, 382, 383, 384, 447, 448, 510, 511} {
		if j >= bits {
			continue
		}
		add(pow2(j))
		add(new(big.Int).Sub(pow2(j), one))
		add(new(big.Int).Neg(pow2(j)))
		add(new(big.Int).Add(pow2(j), one))
	}
	l2 := new(big.Int).Mul(ref.L, ref.L)
	add(l2)
	add(new(big.Int).Add(l2, one))
	add(new(big.Int).Neg(l2))
	add(ref.L)
	for i := 0; i < 6; i++ {
		g := ref.FromLE(mc.Bytes(seed, "c16-wide", i, 64))
		add(g)
		add(new(big.Int).Rsh(g, uint(40*(i+1))))
		add(new(big.Int).Neg(new(big.Int).Rsh(g, uint(64*i+7))))
	}
	return out
}

func intOps(c *mc.Ctx) {
	// ---- Int128
	var x128 []*big.Int
	{
		seen := map[string]bool{}
		add := func(v *big.Int) {
			v = wrap(v, 128)
			if !seen[v.String()] {
				seen[v.String()] = true
				x128 = append(x128, v)
			}
		}
		for _, v := range []*big.Int{big.NewInt(0), one, big.NewInt(-1), big.NewInt(2), pow2(63), pow2(64), pow2(126), new(big.Int).Sub(two127, one), new(big.Int).Neg(two127),
			new(big.Int).Add(new(big.Int).Neg(two127), one), new(big.Int).Neg(pow2(64)), new(big.Int).Neg(pow2(63))} {
			add(v)
			add(new(big.Int).Add(v, one))
			add(new(big.Int).Sub(v, one))
		}
		eh, el := lattice.VerifEllLowerHalf()
		add(i128(eh, el))
		for i := 0; i < 6; i++ {
			add(ref.FromLE(mc.Bytes(c.Seed, "c16-i128", i, 16)))
		}
		for _, b := range []byte{0x55, 0xaa, 0x0f, 0xf0} {
			buf := make([]byte, 16)
			for i := range buf {
				buf[i] = b
			}
			add(new(big.Int).SetBytes(buf))
		}
	}
	c.Rep.Extra["int128_alphabet"] = len(x128)
	n1 := len(x128)
	c.Par("int128", n1*n1, func(w *mc.W, i int) {
		x, y := x128[i/n1], x128[i%n1]
		xh, xl := parts128(x)
		yh, yl := parts128(y)
		cas := map[string]string{"x": x.String(), "y": y.String()}
		chk := func(op string, n uint, want *big.Int) {
			h, l := lattice.VerifInt128Op(op, xh, xl, yh, yl, n)
			if got := i128(h, l); got.Cmp(wrap(want, 128)) != 0 {
				w.Fail("lattice.Int128."+op, fmt.Sprintf("Int128 %s(x=%s, y=%s, n=%d) = %s want %s", op, x, y, n, got, wrap(want, 128)), cas)
			}
		}
		chk("add", 0, new(big.Int).Add(x, y))
		chk("sub", 0, new(big.Int).Sub(x, y))
		w.EvalN("int128/add-sub", 2, true)
		if i%n1 == 0 { // unary operations once per x
			chk("neg", 0, new(big.Int).Neg(x))
			chk("abs", 0, new(big.Int).Abs(x))
			for n := uint(0); n <= 130; n++ {
				chk("shl", n, new(big.Int).Lsh(x, n))
			}
			if got := lattice.VerifInt128IsNegative(xh, xl); got != (x.Sign() < 0) {
				w.Fail("lattice.Int128.IsNegative", fmt.Sprintf("IsNegative(%s) = %v", x, got), cas)
			}
			if got := lattice.VerifInt128IsZero(xh, xl); got != (x.Sign() == 0) {
				w.Fail("lattice.Int128.isZero", fmt.Sprintf("isZero(%s) = %v", x, got), cas)
			}
			var sb [32]byte
			_ = lattice.VerifInt128ToScalar(xh, xl).ToBytes(sb[:])
			if got := ref.FromLE(sb[:]); got.Cmp(ref.SMod(x)) != 0 {
				w.Fail("lattice.Int128.ToScalar", fmt.Sprintf("ToScalar(%s) = %x want %x", x, got, ref.SMod(x)), cas)
			}
			w.EvalN("int128/unary", 136, true)
		}
	})

	// ---- int512 / int384
	v512 := wideAlphabet(c.Seed, 512)
	v384 := wideAlphabet(c.Seed, 384)
	// Shift amounts are restricted to what FindShortVector can request (so that removing unreachable
	// code is not reported): while the loop runs, len(N_v) > 254 and |p| <= sqrt(N_u N_v), hence
	// s = len(p) - len(N_v) <= (len(N_u) - len(N_v)) / 2 <= 128 in the 512-bit pass (N_u < 2^511) and
	// <= 64 in the 384-bit pass (N_u < 2^383); the shifts used are s, s+1 and 2s.
	shifts := []uint{0, 1, 2, 31, 32, 63, 64, 65, 66, 127, 128, 129, 130, 191, 192, 193, 255, 256, 257, 258}
	c.Rep.Extra["int512_alphabet"] = len(v512)
	c.Rep.Extra["int384_alphabet"] = len(v384)
	n5 := len(v512)
	c.Par("int512", n5*n5, func(w *mc.W, i int) {
		a, b := v512[i/n5], v512[i%n5]
		cas := map[string]string{"a": a.String(), "b": b.String()}
		la, lb := l8(a), l8(b)
		for _, s := range shifts {
			sh := new(big.Int).Lsh(b, s)
			if got, want := fromLimbs(sl8(lattice.VerifInt512AddShifted(la, lb, s)), true), wrap(new(big.Int).Add(a, sh), 512); got.Cmp(want) != 0 {
				w.Fail("lattice.int512.AddShifted", fmt.Sprintf("int512 AddShifted(%s, %s, %d) = %s want %s", a, b, s, got, want), cas)
			}
			if got, want := fromLimbs(sl8(lattice.VerifInt512SubShifted(la, lb, s)), true), wrap(new(big.Int).Sub(a, sh), 512); got.Cmp(want) != 0 {
				w.Fail("lattice.int512.SubShifted", fmt.Sprintf("int512 SubShifted(%s, %s, %d) = %s want %s", a, b, s, got, want), cas)
			}
		}
		if got, want := fromLimbs(sl8(lattice.VerifInt512Add(la, lb)), true), wrap(new(big.Int).Add(a, b), 512); got.Cmp(want) != 0 {
			w.Fail("lattice.int512.Add", fmt.Sprintf("int512 Add(%s, %s) = %s want %s", a, b, got, want), cas)
		}
		w.EvalN("int512/add-sub-shifted", int64(2*len(shifts)+1), true)
		if a.Sign() >= 0 && b.Sign() >= 0 { // documented precondition of PositiveLt
			if got := lattice.VerifInt512PositiveLt(la, lb); got != (a.Cmp(b) < 0) {
				w.Fail("lattice.int512.PositiveLt", fmt.Sprintf("int512 PositiveLt(%s, %s) = %v", a, b, got), cas)
			}
			w.Eval("int512/PositiveLt", true)
		}
		if i%n5 == 0 {
			if got := lattice.VerifInt512BitLen(la); got != twosBitLen(a) {
				w.Fail("lattice.int512.BitLen", fmt.Sprintf("int512 BitLen(%s) = %d want %d", a, got, twosBitLen(a)), cas)
			}
			if got := lattice.VerifInt512IsNegative(la); got != (a.Sign() < 0) {
				w.Fail("lattice.int512.IsNegative", fmt.Sprintf("int512 IsNegative(%s) = %v", a, got), cas)
			}
			if a.Sign() >= 0 { // only ever applied to N_u > 0
				if got := lattice.VerifInt512SafeToShrink(la); got != (a.BitLen() <= 383) {
					w.Fail("lattice.int512.SafeToShrink", fmt.Sprintf("int512 SafeToShrink(%s) = %v", a, got), cas)
				}
			}
			if wrap(a, 384).Cmp(a) == 0 { // fits: the shrink must preserve the value
				sl := lattice.VerifInt384FromInt512(la)
				if got := fromLimbs(sl[:], true); got.Cmp(a) != 0 {
					w.Fail("lattice.int384.FromInt512", fmt.Sprintf("int384 FromInt512(%s) = %s", a, got), cas)
				}
			}
			w.EvalN("int512/unary", 4, true)
		}
	})
	n3 := len(v384)
	c.Par("int384", n3*n3, func(w *mc.W, i int) {
		a, b := v384[i/n3], v384[i%n3]
		cas := map[string]string{"a": a.String(), "b": b.String()}
		la, lb := l6(a), l6(b)
		for _, s := range shifts {
			if s > 130 {
				continue
			}
			sh := new(big.Int).Lsh(b, s)
			r := lattice.VerifInt384AddShifted(la, lb, s)
			if got, want := fromLimbs(r[:], true), wrap(new(big.Int).Add(a, sh), 384); got.Cmp(want) != 0 {
				w.Fail("lattice.int384.AddShifted", fmt.Sprintf("int384 AddShifted(%s, %s, %d) = %s want %s", a, b, s, got, want), cas)
			}
			r = lattice.VerifInt384SubShifted(la, lb, s)
			if got, want := fromLimbs(r[:], true), wrap(new(big.Int).Sub(a, sh), 384); got.Cmp(want) != 0 {
				w.Fail("lattice.int384.SubShifted", fmt.Sprintf("int384 SubShifted(%s, %s, %d) = %s want %s", a, b, s, got, want), cas)
			}
			w.EvalN("int384/add-sub-shifted", 2, true)
		}
		if a.Sign() >= 0 && b.Sign() >= 0 {
			if got := lattice.VerifInt384PositiveLt(la, lb); got != (a.Cmp(b) < 0) {
				w.Fail("lattice.int384.PositiveLt", fmt.Sprintf("int384 PositiveLt(%s, %s) = %v", a, b, got), cas)
			}
			w.Eval("int384/PositiveLt", true)
		}
		if i%n3 == 0 {
			if got := lattice.VerifInt384BitLen(la); got != twosBitLen(a) {
				w.Fail("lattice.int384.BitLen", fmt.Sprintf("int384 BitLen(%s) = %d want %d", a, got, twosBitLen(a)), cas)
			}
			if got := lattice.VerifInt384IsNegative(la); got != (a.Sign() < 0) {
				w.Fail("lattice.int384.IsNegative", fmt.Sprintf("int384 IsNegative(%s) = %v", a, got), cas)
			}
			w.EvalN("int384/unary", 2, true)
		}
	})

	// ---- the 256x256 -> 512 multiplication and the constants
	sc := alph.Scalars(c.Seed, true)
	ns := len(sc)
	c.Par("int512-mul", ns*ns, func(w *mc.W, i int) {
		a, b := sc[i/ns], sc[i%ns]
		r := lattice.VerifInt512Mul(ptalph.Sc(a), ptalph.Sc(b))
		if got, want := fromLimbs(r[:], false), new(big.Int).Mul(a, b); got.Cmp(want) != 0 {
			w.Fail("lattice.int512.Mul", fmt.Sprintf("int512 Mul(0x%x, 0x%x) = 0x%x want 0x%x", a, b, got, want), map[string]string{"a": a.Text(16), "b": b.Text(16)})
		}
		if i%ns == 0 {
			h, l := lattice.VerifInt128FromScalar(ptalph.Sc(a))
			if got, want := new(big.Int).Mod(i128(h, l), two128), new(big.Int).Mod(a, two128); got.Cmp(want) != 0 {
				w.Fail("lattice.newInt128FromScalar", fmt.Sprintf("newInt128FromScalar(0x%x) = 0x%x", a, got), nil)
			}
		}
		w.Eval("int512/mul", a.Cmp(ref.L) >= 0 || b.Cmp(ref.L) >= 0)
	})
	c.Seq("constants", 1, func(w *mc.W, i int) {
		e := lattice.VerifEllSquared()
		if got, want := fromLimbs(e[:], true), new(big.Int).Mul(ref.L, ref.L); got.Cmp(want) != 0 {
			w.Fail("lattice.ellSquared", fmt.Sprintf("ellSquared() = 0x%x want 0x%x", got, want), nil)
		}
		ehh, ell := lattice.VerifEllLowerHalf()
		if got, want := new(big.Int).Mod(i128(ehh, ell), two128), new(big.Int).Mod(ref.L, two128); got.Cmp(want) != 0 {
			w.Fail("lattice.constELL_LOWER_HALF", fmt.Sprintf("constELL_LOWER_HALF = 0x%x want L mod 2^128 = 0x%x", got, want), nil)
		}
		w.Eval("int512/constants", true)
	})
}

func sl8(a [8]uint64) []uint64 { return a[:] }
