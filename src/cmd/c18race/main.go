// c18race: the free-running pass of C18.  Built with -race.  N goroutines run
// the thread bodies of the interleaving harness and a whole-API workload on
// SHARED objects; every result must equal the sequential result and the race
// detector must stay silent.  (Cooperative hand-offs in cmd/c18 are
// happens-before edges and would blind the detector; hence this separate pass.)
package main

import (
	"bytes"
	"crypto"
	"crypto/sha256"
	"crypto/sha512"
	"flag"
	"fmt"
	"os"
	"reflect"
	"strings"
	"sync"
	"sync/atomic"

	"github.com/oasisprotocol/curve25519-voi/curve"
	"github.com/oasisprotocol/curve25519-voi/curve/scalar"
	"github.com/oasisprotocol/curve25519-voi/primitives/ed25519"
	"github.com/oasisprotocol/curve25519-voi/primitives/ed25519/extra/cache"
	"github.com/oasisprotocol/curve25519-voi/primitives/ed25519/extra/ecvrf"
	"github.com/oasisprotocol/curve25519-voi/primitives/h2c"
	"github.com/oasisprotocol/curve25519-voi/primitives/merlin"
	"github.com/oasisprotocol/curve25519-voi/primitives/sr25519"
	"github.com/oasisprotocol/curve25519-voi/primitives/x25519"
)

type zr struct{}

func (zr) Read(p []byte) (int, error) {
	for i := range p {
		p[i] = 7
	}
	return len(p), nil
}

type sharedT struct {
	v     *cache.Verifier
	lru   cache.Cache
	epk   *ed25519.ExpandedPublicKey
	pk    ed25519.PublicKey
	sk    ed25519.PrivateKey
	sig   []byte
	P     *curve.EdwardsPoint
	eP    *curve.ExpandedEdwardsPoint
	tbl   *curve.EdwardsBasepointTable
	R     *curve.RistrettoPoint
	eR    *curve.ExpandedRistrettoPoint
	rtbl  *curve.RistrettoBasepointTable
	ctx   *sr25519.SigningContext
	kp    *sr25519.KeyPair
	ssig  *sr25519.Signature
	tr    *merlin.Transcript
	keys  [4]curve.CompressedEdwardsY
	exps  [4]*ed25519.ExpandedPublicKey
	xsk   []byte
	xpriv x25519.PrivateKey // deliberately NOT clamped: read-only methods must not normalise it in place
	xpeer x25519.PublicKey
	us    *scalar.Scalar // an UNREDUCED scalar (value >= L): read-only methods must not normalise it in place
	spk   *sr25519.PublicKey
}

// workSafe: a library call that misbehaves under concurrency may hand the workload something it cannot digest (a nil
// slice where a digest was promised ...).  That is the library's failure, not the harness's: the panic becomes this
// goroutine's result, which then differs from the sequential result (exit 3 = concurrent-result-mismatch).
var workPanics int32

func workSafe(id int, shared *sharedT, rounds int) (res string) {
	defer func() {
		if r := recover(); r != nil {
			atomic.AddInt32(&workPanics, 1)
			fmt.Println("RESULT-MISMATCH the workload of goroutine", id, "panicked on a library result:", r)
			res = fmt.Sprint("PANIC: ", r)
		}
	}()
	return work(id, shared, rounds)
}

func work(id int, shared *sharedT, rounds int) string {
	var out bytes.Buffer
	msg := []byte("message")
	for it := 0; it < rounds; it++ {
		seed := bytes.Repeat([]byte{byte(it%3 + 1)}, 32)
		sk := ed25519.NewKeyFromSeed(seed)
		pk := sk.Public().(ed25519.PublicKey)
		sig := ed25519.Sign(sk, msg)
		fmt.Fprintf(&out, "%x %v ", sig[:4], ed25519.Verify(pk, msg, sig))
		// shared private key (signing must not mutate it), shared caching verifier, shared expanded key
		sig2, _ := shared.sk.Sign(nil, msg, &ed25519.Options{})
		fmt.Fprintf(&out, "%x ", sig2[:4])
		sig3, _ := shared.sk.Sign(zr{}, msg, &ed25519.Options{AddedRandomness: true, SelfVerify: true})
		fmt.Fprintf(&out, "%x ", sig3[:4])
		{
			// non-pure variants with a context that is DIFFERENT in every goroutine (any scratch the library shares
			// between calls - a prefix buffer, a pooled hasher - then carries another goroutine's bytes)
			cx := fmt.Sprintf("context of goroutine %d / %s", id, string(make([]byte, id*17)))
			sc1, _ := shared.sk.Sign(nil, msg, &ed25519.Options{Context: cx})
			ph := sha512.Sum512(msg)
			sc2, _ := shared.sk.Sign(nil, ph[:], &ed25519.Options{Hash: crypto.SHA512, Context: cx})
			sc3, _ := sk.Sign(nil, ph[:], &ed25519.Options{Hash: crypto.SHA512})
			fmt.Fprintf(&out, "%x %x %x %v %v %v ", sc1[:6], sc2[:6], sc3[:6],
				ed25519.VerifyWithOptions(shared.pk, msg, sc1, &ed25519.Options{Context: cx}),
				ed25519.VerifyWithOptions(shared.pk, ph[:], sc2, &ed25519.Options{Hash: crypto.SHA512, Context: cx}),
				ed25519.VerifyWithOptions(shared.pk, msg, sc1, &ed25519.Options{Context: cx + "x"}))
			cbv := ed25519.NewBatchVerifier()
			cbv.AddWithOptions(shared.pk, msg, sc1, &ed25519.Options{Context: cx})
			cbv.AddWithOptions(shared.pk, ph[:], sc2, &ed25519.Options{Hash: crypto.SHA512, Context: cx})
			cok, _ := cbv.Verify(zr{})
			sctx2 := sr25519.NewSigningContext([]byte(cx))
			var mk sr25519.MiniSecretKey
			mk[0] = byte(id)
			kq := mk.ExpandUniform().KeyPair()
			sq, _ := kq.Sign(zr{}, sctx2.NewTranscriptBytes(msg))
			sqb, _ := sq.MarshalBinary()
			tq := merlin.NewTranscript(cx)
			tq.AppendMessage("m", []byte(cx))
			cq := make([]byte, 8)
			tq.ExtractBytes(cq, "c")
			fmt.Fprintf(&out, "%v %x %v %x ", cok, sqb[:6], kq.PublicKey().Verify(sctx2.NewTranscriptBytes(msg), sq), cq)
		}
		fmt.Fprintf(&out, "%v ", shared.v.Verify(pk, msg, sig))
		fmt.Fprintf(&out, "%v ", shared.v.Verify(shared.pk, msg, shared.sig))
		fmt.Fprintf(&out, "%v ", ed25519.VerifyExpanded(shared.epk, msg, shared.sig))
		for _, vo := range []*ed25519.VerifyOptions{ed25519.VerifyOptionsDefault, ed25519.VerifyOptionsStdLib, ed25519.VerifyOptionsFIPS_186_5, ed25519.VerifyOptionsZIP_215} {
			fmt.Fprintf(&out, "%v ", ed25519.VerifyWithOptions(shared.pk, msg, shared.sig, &ed25519.Options{Verify: vo}))
		}
		bv := ed25519.NewBatchVerifier()
		for j := 0; j < 5; j++ {
			bv.Add(pk, msg, sig)
			shared.v.Add(bv, shared.pk, msg, shared.sig)
			bv.AddExpanded(shared.epk, msg, shared.sig)
		}
		ok, _ := bv.Verify(zr{})
		fmt.Fprintf(&out, "%v ", ok)
		nilRandDefaults(&out)
		if it == 0 {
			// size thresholds (T14): a FAILING batch beyond every dispatch / chunking threshold (Pippenger at 95
			// entries, anything the library might do per 128 entries), so that the per-entry fallback runs on a large
			// batch while other goroutines do the same; the summary must be false and exactly the bad entries false
			for _, n := range []int{130, 260} {
				lbv := ed25519.NewBatchVerifier()
				bad := append([]byte{}, sig...)
				bad[33] ^= 1
				for j := 0; j < n; j++ {
					switch {
					case j == 77 || j == n-1:
						lbv.Add(pk, msg, bad)
					case j%3 == 0:
						lbv.AddExpanded(shared.epk, msg, shared.sig)
					default:
						lbv.Add(pk, msg, sig)
					}
				}
				lall, leach := lbv.Verify(zr{})
				nbad, wrong := 0, false
				for j, v := range leach {
					if !v {
						nbad++
					}
					if v != (j != 77 && j != n-1) {
						wrong = true
					}
				}
				fmt.Fprintf(&out, "L%d:%v/%d/%v ", n, lall, nbad, wrong)
				if lall || wrong || nbad != 2 {
					fmt.Fprintf(&out, "ORACLE-FAIL(batch of %d with bad entries 77 and %d: all=%v per-entry-false=%d) ", n, n-1, lall, nbad)
				}
				lall2, _ := lbv.Verify(zr{})
				fmt.Fprintf(&out, "%v ", lall2)
			}
		}
		// error paths: malformed inputs and invalid options must be as thread-safe as the happy path
		// (pooled or cached scratch state released twice on an error path only shows up afterwards)
		{
			ebv := ed25519.NewBatchVerifier()
			ebv.AddWithOptions(pk, msg[:5], sig, &ed25519.Options{Hash: crypto.SHA512})            // ph with a non-64-byte message
			ebv.AddWithOptions(pk, msg, sig, &ed25519.Options{Context: string(make([]byte, 300))}) // context too long
			ebv.AddWithOptions(pk, msg, sig[:63], &ed25519.Options{})                              // short signature
			ebv.AddWithOptions(pk[:31], msg, sig, &ed25519.Options{})                              // short key
			ebv.AddWithOptions(pk, msg, sig, &ed25519.Options{Verify: &ed25519.VerifyOptions{AllowNonCanonicalR: true, CofactorlessVerify: true}})
			ebv.AddExpandedWithOptions(nil, msg, sig, &ed25519.Options{})
			ebv.Add(pk, msg, sig)
			eall, eeach := ebv.Verify(zr{})
			fmt.Fprintf(&out, "%v%v ", eall, eeach)
			bad := append([]byte{}, sig...)
			bad[40] ^= 4
			fmt.Fprintf(&out, "%v%v ", ed25519.Verify(pk, msg, bad), shared.v.Verify(pk, msg, bad))
			func() {
				defer func() { _ = recover() }()
				ed25519.VerifyWithOptions(pk, msg[:5], sig, &ed25519.Options{Hash: crypto.SHA512}) // documented panic
			}()
			_, e1 := shared.sk.Sign(nil, msg, &ed25519.Options{Hash: crypto.SHA512})
			_, e2 := shared.sk.Sign(nil, msg, &ed25519.Options{Context: string(make([]byte, 300))})
			_, e3 := x25519.X25519(seed, make([]byte, 32)) // low order point
			_, e4 := x25519.X25519(seed[:31], x25519.Basepoint)
			okp, _ := ecvrf.Verify(pk, make([]byte, 80), msg)
			okq, _ := ecvrf.Verify(pk, make([]byte, 79), msg)
			_, e5 := sr25519.NewSignatureFromBytes(make([]byte, 64))
			_, e6 := sr25519.NewPublicKeyFromBytes(bytes.Repeat([]byte{0xff}, 32))
			e7 := h2c.ExpandMessageXMD(make([]byte, 70000), crypto.SHA512, []byte("d"), msg)
			var ep curve.EdwardsPoint
			e8 := ep.UnmarshalBinary(bytes.Repeat([]byte{2}, 32))
			_, e9 := scalar.NewFromCanonicalBytes(bytes.Repeat([]byte{0xff}, 32))
			fmt.Fprintf(&out, "%v%v%v%v%v%v%v%v%v%v%v ", e1 != nil, e2 != nil, e3 != nil, e4 != nil, okp, okq, e5 != nil, e6 != nil, e7 != nil, e8 != nil, e9 != nil)
			// after the failures, the happy path again
			ebv2 := ed25519.NewBatchVerifier()
			for j := 0; j < 3; j++ {
				ebv2.Add(pk, msg, sig)
			}
			fmt.Fprintf(&out, "%v ", ebv2.VerifyBatchOnly(zr{}))
		}
		// direct LRU traffic on the shared cache (thread bodies of the interleaving harness)
		for j := 0; j < 4; j++ {
			k := (id + j + it) % 4
			shared.lru.Put(&shared.keys[k], shared.exps[k])
			if r := shared.lru.Get(&shared.keys[(k+1)%4]); r != nil && r.CompressedY() != shared.keys[(k+1)%4] {
				fmt.Fprintf(&out, "FOREIGN-EXPANSION ")
			}
		}
		x, _ := x25519.X25519(seed, x25519.Basepoint)
		y, _ := x25519.X25519(shared.xsk, x)
		fmt.Fprintf(&out, "%x ", y[:4])
		xpub := shared.xpriv.Public()
		xss := shared.xpriv.DiffieHellman(&shared.xpeer)
		fmt.Fprintf(&out, "%x %x ", xpub[:4], xss[:4])
		var xa, xb [32]byte
		copy(xb[:], seed)
		x25519.ScalarBaseMult(&xa, &xb)
		fmt.Fprintf(&out, "%x ", xa[:4])
		xpk, _ := x25519.EdPublicKeyToX25519(shared.pk)
		fmt.Fprintf(&out, "%x %x ", xpk[:4], x25519.EdPrivateKeyToX25519(shared.sk)[:4])
		var p curve.EdwardsPoint
		s, _ := scalar.NewFromBits(seed)
		p.Mul(shared.P, s)
		p.MulBasepoint(shared.tbl, s)
		p.MulBasepoint(curve.ED25519_BASEPOINT_TABLE, s)
		p.DoubleScalarMulBasepointVartime(s, shared.P, s)
		p.ExpandedDoubleScalarMulBasepointVartime(s, shared.eP, s)
		p.TripleScalarMulBasepointVartime(s, shared.P, s, shared.P)
		p.ExpandedTripleScalarMulBasepointVartime(s, shared.eP, s, shared.P)
		p.MultiscalarMul([]*scalar.Scalar{s, s}, []*curve.EdwardsPoint{shared.P, curve.ED25519_BASEPOINT_POINT})
		p.MultiscalarMulVartime([]*scalar.Scalar{s, s}, []*curve.EdwardsPoint{shared.P, &p})
		p.ExpandedMultiscalarMulVartime([]*scalar.Scalar{s}, []*curve.ExpandedEdwardsPoint{shared.eP}, []*scalar.Scalar{s}, []*curve.EdwardsPoint{shared.P})
		b, _ := p.MarshalBinary()
		fmt.Fprintf(&out, "%x %v %v ", b[:4], shared.P.IsTorsionFree(), shared.P.IsSmallOrder())
		{
			// read-only methods on values every goroutine shares (a projective point with Z != 1, an unreduced scalar, a
			// decoded public key): encoding, comparing, testing or recoding a value must not write to it, not even
			// transiently ("normalise in place", "cache the affine form")
			pb, _ := shared.P.MarshalBinary()
			var cy curve.CompressedEdwardsY
			cy.SetEdwardsPoint(shared.P)
			var mu curve.MontgomeryPoint
			mu.SetEdwards(shared.P)
			var q curve.EdwardsPoint
			q.Add(shared.P, shared.P)
			qb, _ := q.MarshalBinary()
			rb0, _ := shared.R.MarshalBinary()
			var cr curve.CompressedRistretto
			cr.SetRistrettoPoint(shared.R)
			fmt.Fprintf(&out, "%x%x%x%x%x%x %v%v%v ", pb[:4], cy[:4], mu[:4], qb[:4], rb0[:4], cr[:4], shared.P.Equal(&p), shared.P.IsIdentity(), shared.R.Equal(shared.R))
			us := shared.us
			ub, _ := us.MarshalBinary()
			var tb [32]byte
			_ = us.ToBytes(tb[:])
			bits, r16, naf, r2w := us.Bits(), us.ToRadix16(), us.NonAdjacentForm(5), us.ToRadix2w(8)
			var red scalar.Scalar
			red.Reduce(us)
			redb, _ := red.MarshalBinary()
			fmt.Fprintf(&out, "%v %x%x %d%d %d%d%d %x %v ", us.IsCanonical(), ub[28:], tb[28:], bits[255], bits[252], r16[63], naf[255], r2w[42], redb[:4], us.Equal(&red))
			spb, _ := shared.spk.MarshalBinary()
			fmt.Fprintf(&out, "%x %v ", spb[:4], shared.spk.Verify(shared.ctx.NewTranscriptBytes([]byte("shared")), shared.ssig))
		}
		var r curve.RistrettoPoint
		r.Mul(shared.R, s)
		r.MulBasepoint(shared.rtbl, s)
		r.MulBasepoint(curve.RISTRETTO_BASEPOINT_TABLE, s)
		r.ExpandedDoubleScalarMulBasepointVartime(s, shared.eR, s)
		rb, _ := r.MarshalBinary()
		fmt.Fprintf(&out, "%x ", rb[:4])
		var sc scalar.Scalar
		sc.Mul(s, scalar.BASEPOINT_ORDER)
		sc.Invert(s)
		sb, _ := sc.MarshalBinary()
		fmt.Fprintf(&out, "%x ", sb[:4])
		pi := ecvrf.Prove(shared.sk, msg)
		okv, beta := ecvrf.Verify(shared.pk, pi, msg)
		fmt.Fprintf(&out, "%v %x ", okv, beta[:4])
		var msk sr25519.MiniSecretKey
		copy(msk[:], seed)
		kp := msk.ExpandUniform().KeyPair()
		st := shared.ctx.NewTranscriptBytes(msg)
		ssig, _ := kp.Sign(zr{}, st)
		fmt.Fprintf(&out, "%v ", kp.PublicKey().Verify(shared.ctx.NewTranscriptBytes(msg), ssig))
		ssig2, _ := shared.kp.Sign(zr{}, shared.ctx.NewTranscriptBytes(msg))
		sb2, _ := ssig2.MarshalBinary()
		fmt.Fprintf(&out, "%x %v ", sb2[:4], shared.kp.PublicKey().Verify(shared.ctx.NewTranscriptBytes([]byte("shared")), shared.ssig))
		sbv := sr25519.NewBatchVerifier()
		sbv.Add(shared.kp.PublicKey(), shared.ctx.NewTranscriptBytes([]byte("shared")), shared.ssig)
		sbv.Add(kp.PublicKey(), shared.ctx.NewTranscriptBytes(msg), ssig)
		okb, _ := sbv.Verify(zr{})
		fmt.Fprintf(&out, "%v ", okb)
		// a shared transcript is only read through Clone
		tc := shared.tr.Clone()
		tc.AppendMessage("l", seed)
		ch := make([]byte, 8)
		tc.ExtractBytes(ch, "c")
		fmt.Fprintf(&out, "%x ", ch[:4])
		hp, _ := h2c.Edwards25519_XMD_SHA512_ELL2_RO([]byte("dst"), msg)
		hb, _ := hp.MarshalBinary()
		hr, _ := h2c.Ristretto255_XMD_R255MAP_RO(crypto.SHA512, []byte("dst"), msg)
		hrb, _ := hr.MarshalBinary()
		fmt.Fprintf(&out, "%x %x\n", hb[:4], hrb[:4])
	}
	return out.String()
}

// globalDigest hashes exported package-level state ("written only during init").
func globalDigest() string {
	h := sha256.New()
	b, _ := curve.ED25519_BASEPOINT_POINT.MarshalBinary()
	h.Write(b)
	h.Write(curve.ED25519_BASEPOINT_COMPRESSED[:])
	h.Write(curve.X25519_BASEPOINT[:])
	b, _ = curve.RISTRETTO_BASEPOINT_POINT.MarshalBinary()
	h.Write(b)
	h.Write(curve.RISTRETTO_BASEPOINT_COMPRESSED[:])
	for _, t := range curve.EIGHT_TORSION {
		b, _ = t.MarshalBinary()
		h.Write(b)
	}
	b, _ = scalar.BASEPOINT_ORDER.MarshalBinary()
	h.Write(b)
	h.Write(x25519.Basepoint)
	for _, vo := range []*ed25519.VerifyOptions{ed25519.VerifyOptionsDefault, ed25519.VerifyOptionsStdLib, ed25519.VerifyOptionsFIPS_186_5, ed25519.VerifyOptionsZIP_215} {
		fmt.Fprintf(h, "%+v", *vo)
	}
	// the tables, observed through multiplications that touch every row
	for i := 0; i < 8; i++ {
		s, _ := scalar.NewFromBits(bytes.Repeat([]byte{byte(0x11 * (i + 1))}, 32))
		var p curve.EdwardsPoint
		p.MulBasepoint(curve.ED25519_BASEPOINT_TABLE, s)
		b, _ = p.MarshalBinary()
		h.Write(b)
		p.DoubleScalarMulBasepointVartime(s, curve.ED25519_BASEPOINT_POINT, s)
		b, _ = p.MarshalBinary()
		h.Write(b)
	}
	return fmt.Sprintf("%x", h.Sum(nil))
}

// coldStart makes the FIRST use of every API family in this process concurrent: all goroutines meet at a
// barrier and then enter the same family together, before anything has been called sequentially (a lazily
// initialised package-level table or cache is only racy the first time).  Returns one result string per goroutine.
// fresh holds objects whose FIRST use happens concurrently in the cold-start phase.
var fresh struct {
	o    [7]*ed25519.Options
	snap [7]ed25519.Options
	epk  *ed25519.ExpandedPublicKey
	v    *cache.Verifier
	tbl  *curve.EdwardsBasepointTable
	eP   *curve.ExpandedEdwardsPoint
	kp   *sr25519.KeyPair
	sctx *sr25519.SigningContext
	spk  *sr25519.PublicKey // freshly decoded, never used: its first Verify is concurrent
	ssig *sr25519.Signature
	P    *curve.EdwardsPoint // a fresh projective point (Z != 1): its first encoding is concurrent
}

// nilRandDefaults calls every entry point whose entropy source defaults to crypto/rand when nil is passed (T12): the
// default source is process-wide, so whatever the library wraps around it is shared between goroutines.  The values are
// random; only facts that must hold are reported (the call succeeds, the key pair works, two results differ).
func nilRandDefaults(out *bytes.Buffer) {
	msg := []byte("nil rand")
	pk, sk, err := ed25519.GenerateKey(nil)
	pk2, _, err2 := ed25519.GenerateKey(nil)
	ok := err == nil && err2 == nil && ed25519.Verify(pk, msg, ed25519.Sign(sk, msg)) && !bytes.Equal(pk, pk2)
	fmt.Fprintf(out, "g%v ", ok)
	sg, err := sk.Sign(nil, msg, &ed25519.Options{AddedRandomness: true})
	fmt.Fprintf(out, "%v ", err == nil && ed25519.Verify(pk, msg, sg))
	xpub, xpriv, err := x25519.GenerateKey(nil)
	xp2, err2 := x25519.GeneratePrivateKey(nil)
	fmt.Fprintf(out, "%v ", err == nil && err2 == nil && *xpriv.Public() == *xpub && *xp2 != *xpriv)
	kp, err := sr25519.GenerateKeyPair(nil)
	_, err2 = sr25519.GenerateMiniSecretKey(nil)
	_, err3 := sr25519.GenerateSecretKey(nil)
	sok := false
	if err == nil && err2 == nil && err3 == nil {
		sctx := sr25519.NewSigningContext([]byte("nil rand"))
		ssig, e := kp.Sign(nil, sctx.NewTranscriptBytes(msg))
		sok = e == nil && kp.PublicKey().Verify(sctx.NewTranscriptBytes(msg), ssig)
	}
	fmt.Fprintf(out, "%v ", sok)
	var s1, s2 scalar.Scalar
	_, err = s1.SetRandom(nil)
	_, err2 = s2.SetRandom(nil)
	var r1, r2 curve.RistrettoPoint
	_, err3 = r1.SetRandom(nil)
	_, err4 := r2.SetRandom(nil)
	fmt.Fprintf(out, "%v ", err == nil && err2 == nil && err3 == nil && err4 == nil && s1.Equal(&s2) == 0 && r1.Equal(&r2) == 0)
	bv := ed25519.NewBatchVerifier()
	bv.Add(pk, msg, ed25519.Sign(sk, msg))
	bv.Add(pk2, msg, ed25519.Sign(sk, msg))
	all, each := bv.Verify(nil)
	fmt.Fprintf(out, "%v%v ", all, each)
	pi, err := ecvrf.ProveWithAddedRandomness(nil, sk, msg)
	vok, _ := ecvrf.Verify(pk, pi, msg)
	fmt.Fprintf(out, "%v ", err == nil && vok)
	tr := merlin.NewTranscript("nil rand")
	rng, err := tr.BuildRng().Finalize(nil)
	b1 := make([]byte, 16)
	if err == nil {
		_, err = rng.Read(b1)
	}
	fmt.Fprintf(out, "%v ", err == nil && !bytes.Equal(b1, make([]byte, 16)))
}

func coldStart(n int) []string {
	res := make([]string, n)
	outs := make([]bytes.Buffer, n)
	msg := []byte("cold")
	type st struct {
		sk   ed25519.PrivateKey
		pk   ed25519.PublicKey
		sig  []byte
		pi   []byte
		kp   *sr25519.KeyPair
		ssig *sr25519.Signature
	}
	sts := make([]st, n)
	steps := []func(id int){
		func(id int) {
			sts[id].sk = ed25519.NewKeyFromSeed(bytes.Repeat([]byte{7}, 32))
			sts[id].pk = sts[id].sk.Public().(ed25519.PublicKey)
		},
		func(id int) {
			sts[id].sig = ed25519.Sign(sts[id].sk, msg)
			fmt.Fprintf(&outs[id], "%x ", sts[id].sig[:6])
		},
		func(id int) { fmt.Fprintf(&outs[id], "%v ", ed25519.Verify(sts[id].pk, msg, sts[id].sig)) },
		func(id int) {
			fmt.Fprintf(&outs[id], "%v ", ed25519.VerifyWithOptions(sts[id].pk, msg, sts[id].sig, &ed25519.Options{Verify: ed25519.VerifyOptionsStdLib}))
		},
		func(id int) {
			e, _ := ed25519.NewExpandedPublicKey(sts[id].pk)
			fmt.Fprintf(&outs[id], "%v ", ed25519.VerifyExpanded(e, msg, sts[id].sig))
		},
		func(id int) {
			bv := ed25519.NewBatchVerifier()
			for j := 0; j < 100; j++ {
				bv.Add(sts[id].pk, msg, sts[id].sig)
			}
			ok, _ := bv.Verify(zr{})
			fmt.Fprintf(&outs[id], "%v ", ok)
		},
		func(id int) {
			x, _ := x25519.X25519(bytes.Repeat([]byte{9}, 32), x25519.Basepoint)
			y, _ := x25519.X25519(bytes.Repeat([]byte{9}, 32), x)
			fmt.Fprintf(&outs[id], "%x ", y[:6])
		},
		func(id int) { sts[id].pi = ecvrf.Prove(sts[id].sk, msg); fmt.Fprintf(&outs[id], "%x ", sts[id].pi[:6]) },
		func(id int) {
			ok, b := ecvrf.Verify(sts[id].pk, sts[id].pi, msg)
			fmt.Fprintf(&outs[id], "%v%x ", ok, b[:4])
		},
		func(id int) {
			var msk sr25519.MiniSecretKey
			sts[id].kp = msk.ExpandUniform().KeyPair()
			sts[id].ssig, _ = sts[id].kp.Sign(zr{}, sr25519.NewSigningContext([]byte("c")).NewTranscriptBytes(msg))
			b, _ := sts[id].ssig.MarshalBinary()
			fmt.Fprintf(&outs[id], "%x ", b[:6])
		},
		func(id int) {
			fmt.Fprintf(&outs[id], "%v ", sts[id].kp.PublicKey().Verify(sr25519.NewSigningContext([]byte("c")).NewTranscriptBytes(msg), sts[id].ssig))
		},
		func(id int) {
			p, _ := h2c.Edwards25519_XMD_SHA512_ELL2_RO([]byte("d"), msg)
			b, _ := p.MarshalBinary()
			r, _ := h2c.Ristretto255_XMD_R255MAP_RO(crypto.SHA512, []byte("d"), msg)
			rb, _ := r.MarshalBinary()
			fmt.Fprintf(&outs[id], "%x%x ", b[:4], rb[:4])
		},
		func(id int) {
			s, _ := scalar.NewFromBits(bytes.Repeat([]byte{0x5a}, 32))
			var p curve.EdwardsPoint
			p.Mul(curve.ED25519_BASEPOINT_POINT, s)
			p.MultiscalarMulVartime([]*scalar.Scalar{s, s}, []*curve.EdwardsPoint{&p, curve.ED25519_BASEPOINT_POINT})
			p.MultiscalarMul([]*scalar.Scalar{s}, []*curve.EdwardsPoint{&p})
			ss := make([]*scalar.Scalar, 200)
			ps := make([]*curve.EdwardsPoint, 200)
			for j := range ss {
				ss[j], ps[j] = s, curve.ED25519_BASEPOINT_POINT
			}
			p.MultiscalarMulVartime(ss, ps)
			b, _ := p.MarshalBinary()
			var r curve.RistrettoPoint
			r.MulBasepoint(curve.RISTRETTO_BASEPOINT_TABLE, s)
			rb, _ := r.MarshalBinary()
			fmt.Fprintf(&outs[id], "%x%x ", b[:4], rb[:4])
		},
		func(id int) {
			t := merlin.NewTranscript("cold")
			t.AppendMessage("m", msg)
			o := make([]byte, 8)
			t.ExtractBytes(o, "c")
			fmt.Fprintf(&outs[id], "%x ", o)
		},
		func(id int) {
			v := cache.NewVerifier(cache.NewLRUCache(1))
			fmt.Fprintf(&outs[id], "%v ", v.Verify(sts[id].pk, msg, sts[id].sig))
		},
		func(id int) { nilRandDefaults(&outs[id]) },
		// first use of FRESH objects that all goroutines share (anything the library fills in lazily on first use -
		// a defaulted option field, a lazily built table - is then written concurrently).  One fresh object per
		// entry point: after one completed call the lazy write would not happen again.
		func(id int) {
			fmt.Fprintf(&outs[id], "%v ", ed25519.VerifyWithOptions(sts[id].pk, msg, sts[id].sig, fresh.o[0]))
		},
		func(id int) {
			sg, err := sts[id].sk.Sign(nil, msg, fresh.o[1])
			fmt.Fprintf(&outs[id], "%x%v ", sg[:6], err)
		},
		func(id int) {
			sg, err := sts[id].sk.Sign(nil, msg, fresh.o[2]) // SelfVerify with Verify == nil
			fmt.Fprintf(&outs[id], "%x%v ", sg[:6], err)
		},
		func(id int) {
			fmt.Fprintf(&outs[id], "%v ", ed25519.VerifyExpandedWithOptions(fresh.epk, msg, sts[id].sig, fresh.o[3]))
		},
		func(id int) {
			bv := ed25519.NewBatchVerifier()
			bv.AddWithOptions(sts[id].pk, msg, sts[id].sig, fresh.o[4])
			bv.AddExpandedWithOptions(fresh.epk, msg, sts[id].sig, fresh.o[5])
			ok, _ := bv.Verify(zr{})
			fmt.Fprintf(&outs[id], "%v ", ok)
		},
		func(id int) {
			fmt.Fprintf(&outs[id], "%v ", fresh.v.VerifyWithOptions(sts[id].pk, msg, sts[id].sig, fresh.o[6]))
		},
		func(id int) {
			var p curve.EdwardsPoint
			s, _ := scalar.NewFromBits(bytes.Repeat([]byte{0x3c}, 32))
			p.MulBasepoint(fresh.tbl, s)
			b, _ := p.MarshalBinary()
			p.ExpandedDoubleScalarMulBasepointVartime(s, fresh.eP, s)
			b2, _ := p.MarshalBinary()
			fmt.Fprintf(&outs[id], "%x%x ", b[:4], b2[:4])
		},
		func(id int) {
			sg, _ := fresh.kp.Sign(zr{}, fresh.sctx.NewTranscriptBytes(msg))
			fmt.Fprintf(&outs[id], "%v ", fresh.kp.PublicKey().Verify(fresh.sctx.NewTranscriptBytes(msg), sg))
		},
		func(id int) {
			fmt.Fprintf(&outs[id], "%v ", fresh.spk.Verify(fresh.sctx.NewTranscriptBytes(msg), fresh.ssig))
		},
		func(id int) {
			b, _ := fresh.P.MarshalBinary()
			var q curve.EdwardsPoint
			q.Add(fresh.P, curve.ED25519_BASEPOINT_POINT)
			qb, _ := q.MarshalBinary()
			fmt.Fprintf(&outs[id], "%x%x ", b[:4], qb[:4])
		},
	}
	{
		sk := ed25519.NewKeyFromSeed(bytes.Repeat([]byte{7}, 32))
		for i := range fresh.o {
			fresh.o[i] = &ed25519.Options{}
		}
		fresh.o[2].SelfVerify = true
		fresh.epk, _ = ed25519.NewExpandedPublicKey(sk.Public().(ed25519.PublicKey))
		fresh.v = cache.NewVerifier(cache.NewLRUCache(2))
		fresh.tbl = curve.NewEdwardsBasepointTable(curve.ED25519_BASEPOINT_POINT)
		fresh.eP = curve.NewExpandedEdwardsPoint(curve.ED25519_BASEPOINT_POINT)
		var msk sr25519.MiniSecretKey
		msk[3] = 9
		fresh.kp = msk.ExpandUniform().KeyPair()
		fresh.sctx = sr25519.NewSigningContext([]byte("fresh"))
		{
			var msk2 sr25519.MiniSecretKey
			msk2[5] = 11
			kp2 := msk2.ExpandUniform().KeyPair()
			fresh.ssig, _ = kp2.Sign(zr{}, fresh.sctx.NewTranscriptBytes(msg))
			pkb, _ := kp2.PublicKey().MarshalBinary()
			fresh.spk, _ = sr25519.NewPublicKeyFromBytes(pkb)
			var fp curve.EdwardsPoint
			fp.Add(curve.ED25519_BASEPOINT_POINT, curve.ED25519_BASEPOINT_POINT)
			fp.Add(&fp, curve.ED25519_BASEPOINT_POINT)
			fresh.P = &fp
		}
		for i := range fresh.o {
			fresh.snap[i] = *fresh.o[i]
		}
	}
	for _, step := range steps {
		var ready, done sync.WaitGroup
		start := make(chan struct{})
		ready.Add(n)
		done.Add(n)
		for id := 0; id < n; id++ {
			go func(id int) {
				defer done.Done()
				defer func() {
					// a library result the workload cannot digest (nil where bytes were promised) is the library's failure
					if r := recover(); r != nil {
						atomic.AddInt32(&workPanics, 1)
						fmt.Println("RESULT-MISMATCH cold-start step of goroutine", id, "panicked on a library result:", r)
						fmt.Fprintf(&outs[id], "PANIC(%v) ", r)
					}
				}()
				ready.Done()
				<-start
				step(id)
			}(id)
		}
		ready.Wait()
		close(start)
		done.Wait()
	}
	for i := range res {
		res[i] = outs[i].String()
	}
	// arguments passed by pointer belong to the caller: the library must not have written to them
	for i := range fresh.o {
		if !reflect.DeepEqual(*fresh.o[i], fresh.snap[i]) {
			res[0] += fmt.Sprintf("ORACLE-FAIL(caller's Options #%d was modified by the library: %+v -> %+v) ", i, fresh.snap[i], *fresh.o[i])
		}
	}
	return res
}

func main() {
	n := flag.Int("goroutines", 8, "")
	rounds := flag.Int("rounds", 12, "")
	flag.Parse()
	cold := coldStart(*n)
	coldBad := 0
	if i := strings.Index(cold[0], "ORACLE-FAIL"); i >= 0 {
		fmt.Println("RESULT-MISMATCH cold-start oracle:", cold[0][i:])
		coldBad++
		cold[0] = cold[0][:i]
	}
	for i := range cold {
		if cold[i] != cold[0] {
			fmt.Println("RESULT-MISMATCH cold-start goroutine", i)
			coldBad++
		}
	}
	// the same steps again, now sequentially warm: results must not depend on who initialised what
	if again := coldStart(1); again[0] != cold[0] {
		fmt.Println("RESULT-MISMATCH cold-start results differ from the warm re-run")
		coldBad++
	}
	sh := &sharedT{}
	sh.lru = cache.NewLRUCache(2)
	sh.v = cache.NewVerifier(cache.NewLRUCache(2))
	sh.sk = ed25519.NewKeyFromSeed(bytes.Repeat([]byte{9}, 32))
	sh.pk = sh.sk.Public().(ed25519.PublicKey)
	sh.sig = ed25519.Sign(sh.sk, []byte("message"))
	sh.epk, _ = ed25519.NewExpandedPublicKey(sh.pk)
	for i := range sh.keys {
		pk := ed25519.NewKeyFromSeed(bytes.Repeat([]byte{byte(40 + i)}, 32)).Public().(ed25519.PublicKey)
		copy(sh.keys[i][:], pk)
		sh.exps[i], _ = ed25519.NewExpandedPublicKey(pk)
	}
	var P curve.EdwardsPoint
	P.Add(curve.ED25519_BASEPOINT_POINT, curve.ED25519_BASEPOINT_POINT)
	sh.P = &P
	sh.eP = curve.NewExpandedEdwardsPoint(&P)
	sh.tbl = curve.NewEdwardsBasepointTable(&P)
	var R curve.RistrettoPoint
	R.Add(curve.RISTRETTO_BASEPOINT_POINT, curve.RISTRETTO_BASEPOINT_POINT)
	sh.R = &R
	sh.eR = curve.NewExpandedRistrettoPoint(&R)
	sh.rtbl = curve.NewRistrettoBasepointTable(&R)
	sh.ctx = sr25519.NewSigningContext([]byte("ctx"))
	var msk sr25519.MiniSecretKey
	sh.kp = msk.ExpandEd25519().KeyPair()
	sh.ssig, _ = sh.kp.Sign(zr{}, sh.ctx.NewTranscriptBytes([]byte("shared")))
	sh.tr = merlin.NewTranscript("shared")
	sh.us, _ = scalar.NewFromBits(bytes.Repeat([]byte{0xff}, 32)) // 2^256-1: not reduced, bit 255 set
	{
		pkb, _ := sh.kp.PublicKey().MarshalBinary()
		sh.spk, _ = sr25519.NewPublicKeyFromBytes(pkb)
	}
	sh.xsk = bytes.Repeat([]byte{0x42}, 32)
	copy(sh.xpriv[:], bytes.Repeat([]byte{0xff}, 32))
	copy(sh.xpeer[:], x25519.Basepoint)
	sharedInputs := func() string {
		h := sha256.New()
		h.Write(sh.sk)
		h.Write(sh.pk)
		h.Write(sh.sig)
		h.Write(sh.xsk)
		h.Write(sh.xpriv[:])
		h.Write(sh.xpeer[:])
		for i := range sh.keys {
			h.Write(sh.keys[i][:])
		}
		b, _ := sh.P.MarshalBinary()
		h.Write(b)
		kb, _ := sh.kp.MarshalBinary()
		h.Write(kb)
		ub, _ := sh.us.MarshalBinary()
		h.Write(ub)
		spb, _ := sh.spk.MarshalBinary()
		h.Write(spb)
		return fmt.Sprintf("%x", h.Sum(nil))
	}
	inputsBefore := sharedInputs()

	before := globalDigest()
	seq := workSafe(0, sh, *rounds)
	// the sequential reference ran on the shared objects too; results must not depend on cache content
	var wg sync.WaitGroup
	res := make([]string, *n)
	for i := range res {
		wg.Add(1)
		go func(i int) { defer wg.Done(); res[i] = workSafe(i, sh, *rounds) }(i)
	}
	wg.Wait()
	bad := coldBad
	seq0 := workSafe(0, sh, *rounds)
	if seq0 != seq {
		fmt.Println("RESULT-MISMATCH sequential rerun differs")
		bad++
	}
	if atomic.LoadInt32(&workPanics) > 0 {
		bad++
	}
	for i := range res {
		// the expected output of goroutine i is work(i) run on its own (sequentially, afterwards)
		if exp := workSafe(i, sh, *rounds); res[i] != exp {
			fmt.Println("RESULT-MISMATCH goroutine", i)
			bad++
		}
	}
	if _, _, _, pr := cache.VerifLRUState(sh.lru); len(pr) > 0 && !(len(pr) == 1 && pr[0] == cache.VerifUninspectable) {
		fmt.Println("LRU-INVARIANT", pr)
		bad++
	}
	if sharedInputs() != inputsBefore {
		fmt.Println("SHARED-INPUT-MODIFIED a caller-owned key, signature or point was written to by a (read-only) API call")
		bad++
	}
	if after := globalDigest(); after != before {
		fmt.Println("GLOBAL-STATE-CHANGED package-level state differs after the concurrent phase")
		bad++
	}
	if i := strings.Index(seq, "ORACLE-FAIL"); i >= 0 {
		fmt.Println("RESULT-MISMATCH sequential run fails its own oracle:", seq[i:])
		bad++
	}
	fmt.Printf("done goroutines=%d rounds=%d api_calls_per_goroutine=%d result_bytes=%d\n", *n, *rounds, *rounds*60, len(seq))
	if bad > 0 {
		os.Exit(3)
	}
}
