package main

import (
	"bytes"
	"fmt"
	"math/big"

	"github.com/oasisprotocol/curve25519-voi/internal/field"
	"github.com/oasisprotocol/curve25519-voi/internal/verif/alph"
	"github.com/oasisprotocol/curve25519-voi/internal/verif/mc"
	"github.com/oasisprotocol/curve25519-voi/internal/verif/ref"
)

// ph is one member of the field-value alphabet Phi: a 32-byte string and the
// value it denotes (low 255 bits, mod p).
type ph struct {
	b   [32]byte
	raw *big.Int // integer value of the low 255 bits (may be >= p)
	v   *big.Int // raw mod p
	fe  field.Element
}

var two255 = new(big.Int).Lsh(big.NewInt(1), 255)

// buildPhi returns (all strings incl. the bit-255 variants, the strings with bit 255 clear).
func buildPhi(c *mc.Ctx) (all, clear []*ph) {
	seen := map[string]bool{}
	var raws []*big.Int
	add := func(v *big.Int) {
		if v.Sign() < 0 || v.Cmp(two255) >= 0 {
			return
		}
		k := v.Text(16)
		if !seen[k] {
			seen[k] = true
			raws = append(raws, new(big.Int).Set(v))
		}
	}
	for _, x := range []int64{0, 1, 2, 19} {
		add(big.NewInt(x))
	}
	for e := int64(19); e >= 1; e-- { // p-19 .. p-1
		add(new(big.Int).Sub(P, big.NewInt(e)))
	}
	for e := int64(0); e < 19; e++ { // the 19 strings in [p, 2^255)
		add(new(big.Int).Add(P, big.NewInt(e)))
	}
	d2 := ref.FAdd(ref.D, ref.D)
	for _, x := range []*big.Int{ref.SqrtM1, ref.FNeg(ref.SqrtM1), ref.D, d2, ref.FNeg(ref.D), big.NewInt(121665), big.NewInt(121666), big.NewInt(486662)} {
		add(x)
	}
	for k := uint(0); k < 255; k++ {
		add(new(big.Int).Lsh(big.NewInt(1), k))
		if c.Thorough {
			add(new(big.Int).Sub(new(big.Int).Lsh(big.NewInt(1), k), big.NewInt(1)))
			add(new(big.Int).Add(new(big.Int).Lsh(big.NewInt(1), k), big.NewInt(1)))
		}
	}
	// limb seams of both radices as values
	for _, k := range []uint{25, 26, 51, 77, 102, 128, 153, 179, 204, 230} {
		add(new(big.Int).Sub(new(big.Int).Lsh(big.NewInt(1), k), big.NewInt(1)))
	}
	for i := 0; i < c.Pick(16, 64); i++ {
		v := ref.FromLE(mc.Bytes(c.Seed, "phi", i, 32))
		v.SetBit(v, 255, 0)
		add(v)
	}
	mk := func(raw *big.Int, top bool) *ph {
		p := &ph{raw: raw, v: new(big.Int).Mod(raw, P)}
		copy(p.b[:], ref.LE32(raw))
		if top {
			p.b[31] |= 0x80
		}
		if _, err := p.fe.SetBytes(p.b[:]); err != nil {
			panic(err)
		}
		return p
	}
	for _, r := range raws {
		p := mk(r, false)
		clear = append(clear, p)
		all = append(all, p)
	}
	for _, r := range raws {
		all = append(all, mk(r, true))
	}
	return
}

// garbage is a receiver that "held something else": every limb at the top of the headroom.
var garbage = func() field.Element {
	l := make([]uint64, nl)
	for i := range l {
		l[i] = fullCorners().ev[len(fullCorners().ev)-1]
		if i&1 == 1 {
			l[i] = fullCorners().od[len(fullCorners().od)-1]
		}
	}
	return field.VerifC04FromLimbs(l)
}()

func values(c *mc.Ctx) {
	all, phi := buildPhi(c)
	n := len(phi)
	sizes := map[string]interface{}{"phi_strings": len(all), "phi_bit255_clear": n}

	// --- decoding / encoding / unary value-level routines on every string of Phi
	c.Par("phi-unary", len(all), func(w *mc.W, i int) {
		s := pool.Get().(*scratch)
		defer pool.Put(s)
		ck := chk{w, s}
		p := all[i]
		cas := func() interface{} { return map[string]string{"bytes": mc.Hex(p.b[:])} }
		switch {
		case p.b[31]&0x80 != 0:
			w.Eval("setbytes/bit255", true)
		case p.raw.Cmp(P) >= 0:
			w.Eval("setbytes/noncanonical", true)
		default:
			w.Eval("setbytes/canonical", false)
		}
		w.Eval("invert-value", p.v.Sign() != 0)
		w.Eval("invsqrt", true)
		// the receiver held something else before (T3): nothing of it may survive a decode
		fe := garbage
		in := p.b
		ret, err := fe.SetBytes(in[:])
		if err != nil || ret != &fe {
			w.Fail("SetBytes/accept", fmt.Sprintf("SetBytes(%x) err=%v", p.b, err), cas())
			return
		}
		if in != p.b {
			w.Fail("SetBytes/modifies-input", fmt.Sprintf("SetBytes changed its input %x -> %x", p.b, in), cas())
		}
		ck.val("SetBytes", &fe, p.v, bStrict, cas)
		// round trip: canonical strings re-encode to themselves, all others to the reduced value
		var out [32]byte
		if err := fe.ToBytes(out[:]); err != nil {
			w.Fail("ToBytes/err", err.Error(), cas())
		}
		if canon := p.b[31]&0x80 == 0 && p.raw.Cmp(P) < 0; canon != bytes.Equal(out[:], p.b[:]) {
			w.Fail("ToBytes/roundtrip", fmt.Sprintf("SetBytes(%x).ToBytes() = %x (canonical input: %v)", p.b, out, canon), cas())
		}
		if ref.FromLE(out[:]).Cmp(P) >= 0 {
			w.Fail("ToBytes/canonical", fmt.Sprintf("ToBytes produced %x >= p", out), cas())
		}
		// arguments that are sub-slices of a larger caller buffer with spare capacity (T1): decode from the middle, encode
		// into the middle; the result is the same and the guard bytes on both sides survive
		var ib, ob [48]byte
		for k := range ib {
			ib[k], ob[k] = 0xa5, 0x5a
		}
		copy(ib[5:37], p.b[:])
		fe2 := garbage
		if _, err := fe2.SetBytes(ib[5:37]); err != nil {
			w.Fail("SetBytes/sub-slice", err.Error(), cas())
		}
		ck.sameAs("SetBytes/sub-slice", &fe2, &fe, cas)
		if err := fe.ToBytes(ob[7:39]); err != nil || !bytes.Equal(ob[7:39], out[:]) {
			w.Fail("ToBytes/sub-slice", fmt.Sprintf("ToBytes into a sub-slice gives %x, want %x", ob[7:39], out), cas())
		}
		for k := range ib {
			if (k < 5 || k >= 37) && ib[k] != 0xa5 || (k < 7 || k >= 39) && ob[k] != 0x5a || k >= 5 && k < 37 && ib[k] != p.b[k-5] {
				w.Fail("SetBytes-ToBytes/guard", fmt.Sprintf("bytes outside the slices handed over were modified (in %x, out %x)", ib, ob), cas())
				break
			}
		}
		if got, want := fe.IsZero() == 1, p.v.Sign() == 0; got != want {
			w.Fail("IsZero", fmt.Sprintf("IsZero(%x)=%v", p.b, got), cas())
		}
		if got, want := fe.IsNegative() == 1, p.v.Bit(0) == 1; got != want {
			w.Fail("IsNegative", fmt.Sprintf("IsNegative(%x)=%v", p.b, got), cas())
		}
		// Invert: literal Fermat reference (0 -> 0)
		var inv field.Element
		if inv.Invert(&fe) != &inv {
			w.Fail("Invert/ret", "Invert does not return its receiver", cas())
		}
		ck.val("Invert", &inv, ref.FInv(p.v), bReduced, cas)
		x := fe
		x.Invert(&x)
		if x.Equal(&inv) != 1 {
			w.Fail("Invert/alias", "x.Invert(x) differs", cas())
		}
		// InvSqrt = SqrtRatioI(1, fe), literal reference
		is := fe
		_, flag := is.InvSqrt()
		wf, wr := ref.SqrtRatioI(one, p.v)
		if (flag == 1) != wf {
			w.Fail("InvSqrt/flag", fmt.Sprintf("InvSqrt(%x) flag=%d want %v", p.v, flag, wf), cas())
		}
		ck.val("InvSqrt", &is, wr, bReduced, cas)
		// ConditionalNegate, complete choice domain
		for ch := 0; ch <= 1; ch++ {
			x = fe
			x.ConditionalNegate(ch)
			wv := p.v
			if ch == 1 {
				wv = ref.FNeg(p.v)
			}
			ck.val("ConditionalNegate", &x, wv, bNone, cas)
		}
		// Set / Zero / One / MinusOne
		y := garbage
		y.Set(&fe)
		ck.val("Set", &y, p.v, bNone, cas)
		y = garbage
		ck.val("Zero", y.Zero(), zero, bStrict, cas)
		y = garbage
		ck.val("One", y.One(), one, bStrict, cas)
		y = garbage
		ck.val("MinusOne", y.MinusOne(), ref.FNeg(one), bStrict, cas)
		if i%97 == 0 {
			w.Sample(map[string]string{"op": "SetBytes/ToBytes/Invert/InvSqrt", "bytes": mc.Hex(p.b[:])})
		}
	})

	// package-level elements
	c.Par("phi-package-vars", 3, func(w *mc.W, i int) {
		s := pool.Get().(*scratch)
		defer pool.Put(s)
		ck := chk{w, s}
		w.Eval("package-vars", true)
		switch i {
		case 0:
			ck.val("field.One", &field.One, one, bStrict, func() interface{} { return nil })
		case 1:
			ck.val("field.MinusOne", &field.MinusOne, ref.FNeg(one), bStrict, func() interface{} { return nil })
		case 2:
			ck.val("field.Two", &field.Two, big.NewInt(2), bStrict, func() interface{} { return nil })
		}
	})

	// --- pairs: SqrtRatioI, Equal, conditional operations (complete choice domain), arithmetic on decoded values
	c.Par("phi-pairs", n*n, func(w *mc.W, i int) {
		s := pool.Get().(*scratch)
		defer pool.Put(s)
		ck := chk{w, s}
		a, b := phi[i/n], phi[i%n]
		cas := func() interface{} { return map[string]string{"u": mc.Hex(a.b[:]), "v": mc.Hex(b.b[:])} }
		sqrtCase(ck, &a.fe, &b.fe, a.v, b.v, cas)
		if got, want := a.fe.Equal(&b.fe) == 1, a.v.Cmp(b.v) == 0; got != want {
			w.Fail("Equal", fmt.Sprintf("Equal(%x, %x) = %v", a.b, b.b, got), cas())
		}
		w.Eval("equal", a.v.Cmp(b.v) == 0 && a.raw.Cmp(b.raw) != 0)
		for ch := 0; ch <= 1; ch++ {
			want, other := a, b
			if ch == 1 {
				want, other = b, a
			}
			var x field.Element
			x.ConditionalSelect(&a.fe, &b.fe, ch)
			ck.val("ConditionalSelect", &x, want.v, bNone, cas)
			x = a.fe
			x.ConditionalAssign(&b.fe, ch)
			ck.val("ConditionalAssign", &x, want.v, bNone, cas)
			x, y := a.fe, b.fe
			x.ConditionalSwap(&y, ch)
			ck.val("ConditionalSwap/receiver", &x, want.v, bNone, cas)
			ck.val("ConditionalSwap/other", &y, other.v, bNone, cas)
			// receiver aliasing the first / the second operand
			x = a.fe
			x.ConditionalSelect(&x, &b.fe, ch)
			ck.val("ConditionalSelect/alias(fe,fe,b)", &x, want.v, bNone, cas)
			x = b.fe
			x.ConditionalSelect(&a.fe, &x, ch)
			ck.val("ConditionalSelect/alias(fe,a,fe)", &x, want.v, bNone, cas)
		}
		w.Eval("conditional", a.v.Cmp(b.v) != 0)
		if i%1009 == 0 {
			w.Sample(map[string]string{"op": "SqrtRatioI/Equal/Conditional*", "u": mc.Hex(a.b[:]), "v": mc.Hex(b.b[:])})
		}
	})

	// literal reference SqrtRatioI (Tonelli-style, ref.SqrtRatioI) on a core subset: (flag, root) byte for byte
	var core []*ph
	for i, p := range phi {
		if i < 48 || i%9 == 0 {
			core = append(core, p)
		}
	}
	nc := len(core)
	sizes["phi_core"] = nc
	c.Par("phi-sqrt-literal", nc*nc, func(w *mc.W, i int) {
		s := pool.Get().(*scratch)
		defer pool.Put(s)
		a, b := core[i/nc], core[i%nc]
		cas := func() interface{} { return map[string]string{"u": mc.Hex(a.b[:]), "v": mc.Hex(b.b[:])} }
		var r field.Element
		ret, flag := r.SqrtRatioI(&a.fe, &b.fe)
		wf, wr := ref.SqrtRatioI(a.v, b.v)
		w.Eval("sqrt-literal", true)
		if ret != &r || (flag == 1) != wf {
			w.Fail("SqrtRatioI/flag", fmt.Sprintf("SqrtRatioI(%x,%x) flag=%d want %v", a.v, b.v, flag, wf), cas())
		}
		chk{w, s}.val("SqrtRatioI", &r, wr, bReduced, cas)
	})

	// --- BatchInvert (T5, T1).  Alphabet: zero in FOUR representations (the strings 0 and p, a limb form of k*p, and the
	// zero the library itself produces as x + Neg(x)), 1, p-1, 2^255-1 (= 18), an unreduced 1 + p, generic values.
	// All vectors of length 0..4 over the whole alphabet and all vectors of length 5 over {unreduced zero, canonical zero,
	// 1, two generic}: a zero therefore occurs at EVERY index (index 0 included) and in every multiplicity, next to every
	// kind of neighbour.  Oracle, as documented: "replaces each element by its inverse.  When an input Element is zero,
	// its value is unchanged."
	type bel struct {
		fe   field.Element
		v    *big.Int
		inv  *big.Int
		desc string
	}
	var pick []*bel
	addB := func(fe field.Element, desc string) {
		s := pool.Get().(*scratch)
		v := new(big.Int).Mod(s.limbInt(field.VerifC04Limbs(&fe), new(big.Int)), P)
		pool.Put(s)
		pick = append(pick, &bel{fe, v, ref.FInv(v), desc})
	}
	for _, k := range []string{"0", P.Text(16), "1", new(big.Int).Sub(P, one).Text(16), new(big.Int).Sub(two255, one).Text(16)} {
		for _, p := range phi {
			if p.raw.Text(16) == k {
				addB(p.fe, "bytes "+mc.Hex(p.b[:]))
			}
		}
	}
	{
		var n, z field.Element
		n.Neg(&phi[2].fe)
		z.Add(&phi[2].fe, &n) // 2 + Neg(2): the unreduced zero the library produces itself
		addB(z, "2 + Neg(2)")
	}
	for _, e := range residueElements() {
		if e.unred && e.v.Sign() == 0 {
			addB(e.fe, "limbs "+e.hex()) // a limb form of k*p
			break
		}
	}
	for _, e := range residueElements() {
		if e.unred && e.v.Cmp(one) == 0 {
			addB(e.fe, "limbs "+e.hex()) // 1 + k*p
			break
		}
	}
	addB(phi[n-1].fe, "generic")
	addB(phi[n-2].fe, "generic")
	if c.Thorough {
		addB(phi[n-3].fe, "generic")
		addB(phi[40].fe, "bytes "+mc.Hex(phi[40].b[:]))
	}
	np := len(pick)
	// the 5-element sub-alphabet for length 5: unreduced zero (x + Neg(x)), canonical zero, 1, two generic values
	var five []*bel
	for _, b := range pick {
		if b.desc == "2 + Neg(2)" || b.desc == "generic" && len(five) < 5 {
			five = append(five, b)
		}
	}
	five = append(five, pick[0], pick[2])
	offs, total := []int{}, 0
	for l, p := 0, 1; l <= 4; l++ {
		offs = append(offs, total)
		total += p
		p *= np
	}
	n5 := 1
	for k := 0; k < 5; k++ {
		n5 *= len(five)
	}
	sizes["batchinvert_alphabet"] = np
	sizes["batchinvert_vectors"] = total + n5
	runBatch := func(w *mc.W, s *scratch, vec []*bel) {
		l := len(vec)
		desc := ""
		hasZero := false
		for k := range vec {
			desc += vec[k].desc + "; "
			if vec[k].v.Sign() == 0 {
				hasZero = true
			}
		}
		switch {
		case hasZero && vec[0].v.Sign() == 0 && l >= 2:
			w.Eval("batchinvert/zero-at-index-0", true)
			w.Eval("batchinvert/with-zero", true)
		case hasZero:
			w.Eval("batchinvert/with-zero", true)
		default:
			w.Eval("batchinvert/no-zero", l > 0)
		}
		in := make([]*field.Element, l)
		for k := range vec {
			fe := vec[k].fe
			in[k] = &fe
		}
		cas := func() interface{} { return map[string]string{"inputs": desc} }
		field.BatchInvert(in)
		for k := 0; k < l; k++ {
			chk{w, s}.val(fmt.Sprintf("BatchInvert/elem(index=%d of %d, zero=%v)", k, l, vec[k].v.Sign() == 0), in[k], vec[k].inv, bNone, cas)
		}
	}
	c.Par("phi-batchinvert", total+n5, func(w *mc.W, i int) {
		s := pool.Get().(*scratch)
		defer pool.Put(s)
		var vec []*bel
		if i < total {
			l := 0
			for l+1 < len(offs) && i >= offs[l+1] {
				l++
			}
			j := i - offs[l]
			for k := 0; k < l; k++ {
				vec = append(vec, pick[j%np])
				j /= np
			}
		} else {
			j := i - total
			for k := 0; k < 5; k++ {
				vec = append(vec, five[j%len(five)])
				j /= len(five)
			}
		}
		runBatch(w, s, vec)
	})
	// The same element (the same pointer) more than once in the slice (T1).  The library documents nothing for this use
	// and the unchanged tree does not support it in general (Montgomery's trick re-reads an input after an earlier
	// occurrence has been overwritten: [q, p, p] corrupts q, [p, p, p] corrupts p; only [p, p] happens to work), so no
	// value can be demanded without exceeding the documentation.  What is checked: the call terminates without a panic
	// for every duplication pattern, and elements that are NOT in the slice are untouched.  (Recorded in notes/C04.md.)
	patterns := [][]int{{0, 0}, {0, 1, 0}, {0, 0, 1}, {1, 0, 0}, {0, 0, 0}, {0, 1, 0, 1}, {0, 1, 1, 0}}
	c.Par("phi-batchinvert-alias", len(patterns)*np*np, func(w *mc.W, i int) {
		s := pool.Get().(*scratch)
		defer pool.Put(s)
		pat := patterns[i/(np*np)]
		src := []*bel{pick[i%np], pick[(i/np)%np], pick[(i+3)%np]}
		w.Eval("batchinvert/aliased", true)
		objs := []field.Element{src[0].fe, src[1].fe, src[2].fe}
		in := make([]*field.Element, len(pat))
		for k, o := range pat {
			in[k] = &objs[o]
		}
		field.BatchInvert(in)
		// object 2 is never part of the slice
		chk{w, s}.val("BatchInvert/alias(bystander)", &objs[2], src[2].v, bNone, func() interface{} {
			return map[string]string{"pattern": fmt.Sprint(pat)}
		})
	})
	// nil and empty slices
	c.Par("phi-batchinvert-empty", 2, func(w *mc.W, i int) {
		w.Eval("batchinvert/empty", false)
		if i == 0 {
			field.BatchInvert(nil)
		} else {
			field.BatchInvert([]*field.Element{})
		}
	})

	// --- SqrtRatioI / Equal with unreduced representations on one side and Phi values on the other (T5)
	res := residueElements()
	var coreS []*ph
	for i, p := range phi {
		if i < 40 || i%11 == 0 {
			coreS = append(coreS, p)
		}
	}
	sizes["residue_x_phi"] = []int{len(res), len(coreS)}
	c.Par("residue-sqrt", len(res)*len(coreS), func(w *mc.W, i int) {
		s := pool.Get().(*scratch)
		defer pool.Put(s)
		ck := chk{w, s}
		e, p := res[i/len(coreS)], coreS[i%len(coreS)]
		sqrtCase(ck, &e.fe, &p.fe, e.v, p.v, func() interface{} { return map[string]string{"u_limbs": e.hex(), "v": mc.Hex(p.b[:])} })
		sqrtCase(ck, &p.fe, &e.fe, p.v, e.v, func() interface{} { return map[string]string{"u": mc.Hex(p.b[:]), "v_limbs": e.hex()} })
		if got, want := e.fe.Equal(&p.fe) == 1, e.v.Cmp(p.v) == 0; got != want || (p.fe.Equal(&e.fe) == 1) != want {
			w.Fail("Equal", fmt.Sprintf("Equal(limbs %s, %x) = %v, values %x and %x", e.hex(), p.b, got, e.v, p.v), nil)
		}
	})

	// --- SetBytesWide: the 512-bit little-endian integer mod p (bits 255 and 511 included)
	var wide [][]byte
	seenW := map[string]bool{}
	addW := func(b []byte) {
		if !seenW[string(b)] {
			seenW[string(b)] = true
			wide = append(wide, b)
		}
	}
	for _, v := range alph.Wide(c.Seed, 512, false) {
		addW(ref.LEn(v, 64))
	}
	var halves []*ph
	for i, p := range all {
		if c.Thorough || i%5 == 0 || p.raw.Cmp(P) >= 0 || p.raw.BitLen() <= 5 {
			halves = append(halves, p)
		}
	}
	for _, lo := range halves {
		for _, hi := range halves {
			addW(append(append([]byte{}, lo.b[:]...), hi.b[:]...))
		}
	}
	sizes["wide_strings"] = len(wide)
	c.Par("phi-setbyteswide", len(wide), func(w *mc.W, i int) {
		s := pool.Get().(*scratch)
		defer pool.Put(s)
		b := wide[i]
		cas := func() interface{} { return map[string]string{"bytes": mc.Hex(b)} }
		if b[31]&0x80 != 0 {
			w.Eval("wide/bit255", true)
		}
		if b[63]&0x80 != 0 {
			w.Eval("wide/bit511", true)
		}
		w.Eval("wide", true)
		fe := garbage
		in := append([]byte{}, b...)
		ret, err := fe.SetBytesWide(in)
		if err != nil || ret != &fe {
			w.Fail("SetBytesWide/accept", fmt.Sprintf("SetBytesWide(%x) err=%v", b, err), cas())
			return
		}
		if !bytes.Equal(in, b) {
			w.Fail("SetBytesWide/modifies-input", fmt.Sprintf("SetBytesWide changed its input %x", b), cas())
		}
		// the same from the middle of a larger buffer
		wb := bytes.Repeat([]byte{0xa5}, 80)
		copy(wb[9:73], b)
		fe2 := garbage
		if _, err := fe2.SetBytesWide(wb[9:73]); err != nil {
			w.Fail("SetBytesWide/sub-slice", err.Error(), cas())
		}
		chk{w, s}.sameAs("SetBytesWide/sub-slice", &fe2, &fe, cas)
		if !bytes.Equal(wb[9:73], b) || !bytes.Equal(wb[:9], bytes.Repeat([]byte{0xa5}, 9)) || !bytes.Equal(wb[73:], bytes.Repeat([]byte{0xa5}, 7)) {
			w.Fail("SetBytesWide/guard", "SetBytesWide modified the caller's buffer", cas())
		}
		chk{w, s}.val("SetBytesWide", &fe, new(big.Int).Mod(ref.FromLE(b), P), bReduced, cas)
		if i%499 == 0 {
			w.Sample(map[string]string{"op": "SetBytesWide", "bytes": mc.Hex(b)})
		}
	})

	// --- lengths: every length 0..300 for the three byte-slice routines (error iff wrong length, as the code documents)
	c.Par("phi-lengths", 301, func(w *mc.W, l int) {
		b := make([]byte, l)
		var fe field.Element
		w.Eval("lengths", l != 32 && l != 64)
		if _, err := fe.SetBytes(b); (err == nil) != (l == field.ElementSize) {
			w.Fail("SetBytes/length", fmt.Sprintf("SetBytes(%d bytes) err=%v", l, err), nil)
		}
		if _, err := fe.SetBytesWide(b); (err == nil) != (l == field.ElementWideSize) {
			w.Fail("SetBytesWide/length", fmt.Sprintf("SetBytesWide(%d bytes) err=%v", l, err), nil)
		}
		if err := fe.ToBytes(b); (err == nil) != (l == field.ElementSize) {
			w.Fail("ToBytes/length", fmt.Sprintf("ToBytes(%d bytes) err=%v", l, err), nil)
		}
	})
	c.Rep.Extra["value_spaces"] = sizes
}
