package main

import (
	"bytes"
	"fmt"
	"math/big"

	"github.com/oasisprotocol/curve25519-voi/internal/field"
	"github.com/oasisprotocol/curve25519-voi/internal/verif/alph"
	"github.com/oasisprotocol/curve25519-voi/internal/verif/mc"
	"github.com/oasisprotocol/curve25519-voi/internal/verif/ref"
)

// ph is one member of the field-value alphabet Phi: a 32-byte string and the
// value it denotes (low 255 bits, mod p).
type ph struct {
	b   [32]byte
	raw *big.Int // integer value of the low 255 bits (may be >= p)
	v   *big.Int // raw mod p
	fe  field.Element
}

var two255 = new(big.Int).Lsh(big.NewInt(1), 255)

// buildPhi returns (all strings incl. the bit-255 variants, the strings with bit 255 clear).
func buildPhi(c *mc.Ctx) (all, clear []*ph) {
	seen := map[string]bool{}
	var raws []*big.Int
	add := func(v *big.Int) {
		if v.Sign() < 0 || v.Cmp(two255) >= 0 {
			return
		}
		k := v.Text(16)
		if !seen[k] {
			seen[k] = true
			raws = append(raws, new(big.Int).Set(v))
		}
	}
	for _, x := range []int64{0, 1, 2, 19} {
		add(big.NewInt(x))
	}
	for e := int64(19); e >= 1; e-- { // p-19 .. p-1
		add(new(big.Int).Sub(P, big.NewInt(e)))
	}
	for e := int64(0); e < 19; e++ { // the 19 strings in [p, 2^255)
		add(new(big.Int).Add(P, big.NewInt(e)))
	}
	d2 := ref.FAdd(ref.D, ref.D)
	for _, x := range []*big.Int{ref.SqrtM1, ref.FNeg(ref.SqrtM1), ref.D, d2, ref.FNeg(ref.D), big.NewInt(121665), big.NewInt(121666), big.NewInt(486662)} {
		add(x)
	}
	for k := uint(0); k < 255; k++ {
		add(new(big.Int).Lsh(big.NewInt(1), k))
		if c.Thorough {
			add(new(big.Int).Sub(new(big.Int).Lsh(big.NewInt(1), k), big.NewInt(1)))
			add(new(big.Int).Add(new(big.Int).Lsh(big.NewInt(1), k), big.NewInt(1)))
		}
	}
	// limb seams of both radices as values
	for _, k := range []uint{25, 26, 51, 77, 102, 128, 153, 179, 204, 230} {
		add(new(big.Int).Sub(new(big.Int).Lsh(big.NewInt(1), k), big.NewInt(1)))
	}
	for i := 0; i < c.Pick(16, 64); i++ {
		v := ref.FromLE(mc.Bytes(c.Seed, "phi", i, 32))
		v.SetBit(v, 255, 0)
		add(v)
	}
	mk := func(raw *big.Int, top bool) *ph {
		p := &ph{raw: raw, v: new(big.Int).Mod(raw, P)}
		copy(p.b[:], ref.LE32(raw))
		if top {
			p.b[31] |= 0x80
		}
		if _, err := p.fe.SetBytes(p.b[:]); err != nil {
			panic(err)
		}
		return p
	}
	for _, r := range raws {
		p := mk(r, false)
		clear = append(clear, p)
		all = append(all, p)
	}
	for _, r := range raws {
		all = append(all, mk(r, true))
	}
	return
}

func values(c *mc.Ctx) {
	all, phi := buildPhi(c)
	n := len(phi)
	sizes := map[string]interface{}{"phi_strings": len(all), "phi_bit255_clear": n}

	// --- decoding / encoding / unary value-level routines on every string of Phi
	c.Par("phi-unary", len(all), func(w *mc.W, i int) {
		s := pool.Get().(*scratch)
		defer pool.Put(s)
		ck := chk{w, s}
		p := all[i]
		cas := func() interface{} { return map[string]string{"bytes": mc.Hex(p.b[:])} }
		var fe field.Element
		ret, err := fe.SetBytes(p.b[:])
		if err != nil || ret != &fe {
			w.Fail("SetBytes/accept", fmt.Sprintf("SetBytes(%x) err=%v", p.b, err), cas())
			return
		}
		switch {
		case p.b[31]&0x80 != 0:
			w.Eval("setbytes/bit255", true)
		case p.raw.Cmp(P) >= 0:
			w.Eval("setbytes/noncanonical", true)
		default:
			w.Eval("setbytes/canonical", false)
		}
		ck.val("SetBytes", &fe, p.v, bStrict, cas)
		// round trip: canonical strings re-encode to themselves, all others to the reduced value
		var out [32]byte
		if err := fe.ToBytes(out[:]); err != nil {
			w.Fail("ToBytes/err", err.Error(), cas())
		}
		if canon := p.b[31]&0x80 == 0 && p.raw.Cmp(P) < 0; canon != bytes.Equal(out[:], p.b[:]) {
			w.Fail("ToBytes/roundtrip", fmt.Sprintf("SetBytes(%x).ToBytes() = %x (canonical input: %v)", p.b, out, canon), cas())
		}
		if ref.FromLE(out[:]).Cmp(P) >= 0 {
			w.Fail("ToBytes/canonical", fmt.Sprintf("ToBytes produced %x >= p", out), cas())
		}
		if got, want := fe.IsZero() == 1, p.v.Sign() == 0; got != want {
			w.Fail("IsZero", fmt.Sprintf("IsZero(%x)=%v", p.b, got), cas())
		}
		if got, want := fe.IsNegative() == 1, p.v.Bit(0) == 1; got != want {
			w.Fail("IsNegative", fmt.Sprintf("IsNegative(%x)=%v", p.b, got), cas())
		}
		// Invert: literal Fermat reference (0 -> 0)
		var inv field.Element
		if inv.Invert(&fe) != &inv {
			w.Fail("Invert/ret", "Invert does not return its receiver", cas())
		}
		w.Eval("invert-value", p.v.Sign() != 0)
		ck.val("Invert", &inv, ref.FInv(p.v), bReduced, cas)
		x := fe
		x.Invert(&x)
		if x.Equal(&inv) != 1 {
			w.Fail("Invert/alias", "x.Invert(x) differs", cas())
		}
		// InvSqrt = SqrtRatioI(1, fe), literal reference
		is := fe
		_, flag := is.InvSqrt()
		wf, wr := ref.SqrtRatioI(one, p.v)
		w.Eval("invsqrt", true)
		if (flag == 1) != wf {
			w.Fail("InvSqrt/flag", fmt.Sprintf("InvSqrt(%x) flag=%d want %v", p.v, flag, wf), cas())
		}
		ck.val("InvSqrt", &is, wr, bReduced, cas)
		// ConditionalNegate, complete choice domain
		for ch := 0; ch <= 1; ch++ {
			x = fe
			x.ConditionalNegate(ch)
			wv := p.v
			if ch == 1 {
				wv = ref.FNeg(p.v)
			}
			ck.val("ConditionalNegate", &x, wv, bNone, cas)
		}
		// Set / Zero / One / MinusOne
		var y field.Element
		y.Set(&fe)
		ck.val("Set", &y, p.v, bNone, cas)
		ck.val("Zero", y.Zero(), zero, bStrict, cas)
		ck.val("One", y.One(), one, bStrict, cas)
		ck.val("MinusOne", y.MinusOne(), ref.FNeg(one), bStrict, cas)
		if i%97 == 0 {
			w.Sample(map[string]string{"op": "SetBytes/ToBytes/Invert/InvSqrt", "bytes": mc.Hex(p.b[:])})
		}
	})

	// package-level elements
	c.Par("phi-package-vars", 3, func(w *mc.W, i int) {
		s := pool.Get().(*scratch)
		defer pool.Put(s)
		ck := chk{w, s}
		w.Eval("package-vars", true)
		switch i {
		case 0:
			ck.val("field.One", &field.One, one, bStrict, func() interface{} { return nil })
		case 1:
			ck.val("field.MinusOne", &field.MinusOne, ref.FNeg(one), bStrict, func() interface{} { return nil })
		case 2:
			ck.val("field.Two", &field.Two, big.NewInt(2), bStrict, func() interface{} { return nil })
		}
	})

	// --- pairs: SqrtRatioI, Equal, conditional operations (complete choice domain), arithmetic on decoded values
	c.Par("phi-pairs", n*n, func(w *mc.W, i int) {
		s := pool.Get().(*scratch)
		defer pool.Put(s)
		ck := chk{w, s}
		a, b := phi[i/n], phi[i%n]
		cas := func() interface{} { return map[string]string{"u": mc.Hex(a.b[:]), "v": mc.Hex(b.b[:])} }
		sqrtCase(ck, &a.fe, &b.fe, a.v, b.v, cas)
		if got, want := a.fe.Equal(&b.fe) == 1, a.v.Cmp(b.v) == 0; got != want {
			w.Fail("Equal", fmt.Sprintf("Equal(%x, %x) = %v", a.b, b.b, got), cas())
		}
		w.Eval("equal", a.v.Cmp(b.v) == 0 && a.raw.Cmp(b.raw) != 0)
		for ch := 0; ch <= 1; ch++ {
			want, other := a, b
			if ch == 1 {
				want, other = b, a
			}
			var x field.Element
			x.ConditionalSelect(&a.fe, &b.fe, ch)
			ck.val("ConditionalSelect", &x, want.v, bNone, cas)
			x = a.fe
			x.ConditionalAssign(&b.fe, ch)
			ck.val("ConditionalAssign", &x, want.v, bNone, cas)
			x, y := a.fe, b.fe
			x.ConditionalSwap(&y, ch)
			ck.val("ConditionalSwap/receiver", &x, want.v, bNone, cas)
			ck.val("ConditionalSwap/other", &y, other.v, bNone, cas)
		}
		w.Eval("conditional", a.v.Cmp(b.v) != 0)
		if i%1009 == 0 {
			w.Sample(map[string]string{"op": "SqrtRatioI/Equal/Conditional*", "u": mc.Hex(a.b[:]), "v": mc.Hex(b.b[:])})
		}
	})

	// literal reference SqrtRatioI (Tonelli-style, ref.SqrtRatioI) on a core subset: (flag, root) byte for byte
	var core []*ph
	for i, p := range phi {
		if i < 48 || i%9 == 0 {
			core = append(core, p)
		}
	}
	nc := len(core)
	sizes["phi_core"] = nc
	c.Par("phi-sqrt-literal", nc*nc, func(w *mc.W, i int) {
		s := pool.Get().(*scratch)
		defer pool.Put(s)
		a, b := core[i/nc], core[i%nc]
		cas := func() interface{} { return map[string]string{"u": mc.Hex(a.b[:]), "v": mc.Hex(b.b[:])} }
		var r field.Element
		ret, flag := r.SqrtRatioI(&a.fe, &b.fe)
		wf, wr := ref.SqrtRatioI(a.v, b.v)
		w.Eval("sqrt-literal", true)
		if ret != &r || (flag == 1) != wf {
			w.Fail("SqrtRatioI/flag", fmt.Sprintf("SqrtRatioI(%x,%x) flag=%d want %v", a.v, b.v, flag, wf), cas())
		}
		chk{w, s}.val("SqrtRatioI", &r, wr, bReduced, cas)
	})

	// --- BatchInvert: every vector of length 0..maxLen over a small set containing two representations of zero
	pick := []*ph{}
	want := []string{"0", P.Text(16), "1", new(big.Int).Sub(P, one).Text(16), new(big.Int).Sub(two255, one).Text(16)}
	for _, k := range want {
		for _, p := range phi {
			if p.raw.Text(16) == k {
				pick = append(pick, p)
			}
		}
	}
	pick = append(pick, phi[n-1], phi[n-2]) // generic
	if c.Thorough {
		pick = append(pick, phi[n-3], phi[4], phi[40])
	}
	maxLen := 4
	offs, total := []int{}, 0
	for l, p := 0, 1; l <= maxLen; l++ {
		offs = append(offs, total)
		total += p
		p *= len(pick)
	}
	sizes["batchinvert_alphabet"] = len(pick)
	sizes["batchinvert_vectors"] = total
	c.Par("phi-batchinvert", total, func(w *mc.W, i int) {
		s := pool.Get().(*scratch)
		defer pool.Put(s)
		ck := chk{w, s}
		l := 0
		for l+1 < len(offs) && i >= offs[l+1] {
			l++
		}
		j := i - offs[l]
		vec := make([]*ph, l)
		in := make([]*field.Element, l)
		desc := ""
		hasZero := false
		for k := 0; k < l; k++ {
			vec[k] = pick[j%len(pick)]
			j /= len(pick)
			fe := vec[k].fe
			in[k] = &fe
			desc += mc.Hex(vec[k].b[:]) + ","
			if vec[k].v.Sign() == 0 {
				hasZero = true
			}
		}
		cas := func() interface{} { return map[string]string{"inputs": desc} }
		field.BatchInvert(in)
		if hasZero {
			w.Eval("batchinvert/with-zero", true)
		} else {
			w.Eval("batchinvert/no-zero", l > 0)
		}
		for k := 0; k < l; k++ {
			// documented: "replaces each element by its inverse. When an input Element is zero, its value is unchanged."
			ck.val(fmt.Sprintf("BatchInvert/elem(zero=%v)", vec[k].v.Sign() == 0), in[k], ref.FInv(vec[k].v), bNone, cas)
		}
	})

	// --- SetBytesWide: the 512-bit little-endian integer mod p (bits 255 and 511 included)
	var wide [][]byte
	seenW := map[string]bool{}
	addW := func(b []byte) {
		if !seenW[string(b)] {
			seenW[string(b)] = true
			wide = append(wide, b)
		}
	}
	for _, v := range alph.Wide(c.Seed, 512, false) {
		addW(ref.LEn(v, 64))
	}
	var halves []*ph
	for i, p := range all {
		if c.Thorough || i%5 == 0 || p.raw.Cmp(P) >= 0 || p.raw.BitLen() <= 5 {
			halves = append(halves, p)
		}
	}
	for _, lo := range halves {
		for _, hi := range halves {
			addW(append(append([]byte{}, lo.b[:]...), hi.b[:]...))
		}
	}
	sizes["wide_strings"] = len(wide)
	c.Par("phi-setbyteswide", len(wide), func(w *mc.W, i int) {
		s := pool.Get().(*scratch)
		defer pool.Put(s)
		b := wide[i]
		cas := func() interface{} { return map[string]string{"bytes": mc.Hex(b)} }
		var fe field.Element
		ret, err := fe.SetBytesWide(b)
		if err != nil || ret != &fe {
			w.Fail("SetBytesWide/accept", fmt.Sprintf("SetBytesWide(%x) err=%v", b, err), cas())
			return
		}
		if b[31]&0x80 != 0 {
			w.Eval("wide/bit255", true)
		}
		if b[63]&0x80 != 0 {
			w.Eval("wide/bit511", true)
		}
		w.Eval("wide", true)
		chk{w, s}.val("SetBytesWide", &fe, new(big.Int).Mod(ref.FromLE(b), P), bReduced, cas)
		if i%499 == 0 {
			w.Sample(map[string]string{"op": "SetBytesWide", "bytes": mc.Hex(b)})
		}
	})

	// --- lengths: every length 0..70 for the three byte-slice routines (error iff wrong length, as the code documents)
	c.Par("phi-lengths", 71, func(w *mc.W, l int) {
		b := make([]byte, l)
		var fe field.Element
		w.Eval("lengths", l != 32 && l != 64)
		if _, err := fe.SetBytes(b); (err == nil) != (l == field.ElementSize) {
			w.Fail("SetBytes/length", fmt.Sprintf("SetBytes(%d bytes) err=%v", l, err), nil)
		}
		if _, err := fe.SetBytesWide(b); (err == nil) != (l == field.ElementWideSize) {
			w.Fail("SetBytesWide/length", fmt.Sprintf("SetBytesWide(%d bytes) err=%v", l, err), nil)
		}
		if err := fe.ToBytes(b); (err == nil) != (l == field.ElementSize) {
			w.Fail("ToBytes/length", fmt.Sprintf("ToBytes(%d bytes) err=%v", l, err), nil)
		}
	})
	c.Rep.Extra["value_spaces"] = sizes
}
