package main

import (
	"fmt"
	"math/big"

	"github.com/oasisprotocol/curve25519-voi/curve"
	"github.com/oasisprotocol/curve25519-voi/internal/field"
	"github.com/oasisprotocol/curve25519-voi/internal/verif/mc"
)

// AVX2 lanes: every fieldElement2625x4 routine of curve/edwards_vector_amd64.{go,s}
// is run on vectors whose four lanes hold radix-2^25.5 corner elements, and each
// lane of the result is compared with math/big.
//
// Lane input ranges follow what the library itself feeds to each routine
// (the port does not restate dalek's pre-conditions, so the ranges are derived
// from the call sites in edwards_vector_amd64.go):
//
//   reduced      output of Reduce/Mul/Square/new: excess b < 0.007
//   Mul lhs      up to 2*S3 + S1 + 2p - S2 (Double step 2, lane C)  ~ 5*2^26   (b < 2.34)
//   Mul rhs      up to S4 + S1 + S2 / 2p + a - b                    ~ 3*2^26   (b < 1.60; 19*y must fit 32 bits)
//   Square       (X, Y, Z, X+Y) of reduced values                   ~ 2*2^26   (b < 1.01)
//   Neg          reduced values (cachedPoint.SetExtended); 16p - x needs x < 16p
//   lazy steps   reduced values (negate_lazy needs x <= 2p limb-wise)

type lane [10]uint32

var vshift [10]uint

func init() {
	for j := range vshift {
		vshift[j] = uint((51*j + 1) / 2)
	}
}

func laneVal(l *lane) *big.Int {
	s := pool.Get().(*scratch)
	defer pool.Put(s)
	return s.laneInto(l, new(big.Int))
}

// laneInto sets dst to the value of the lane mod p (no allocation once dst has capacity).
func (s *scratch) laneInto(l *lane, dst *big.Int) *big.Int {
	var acc [5]uint64
	for j, v := range l {
		w, off := vshift[j]/64, vshift[j]%64
		lo := uint64(v) << off
		var hi uint64
		if off != 0 {
			hi = uint64(v) >> (64 - off)
		}
		var c uint64
		acc[w], c = add64(acc[w], lo, 0)
		acc[w+1], c = add64(acc[w+1], hi, c)
		for k := w + 2; c != 0 && k < 5; k++ {
			acc[k], c = add64(acc[k], 0, c)
		}
	}
	dst.SetBits(append(dst.Bits()[:0], s.fillWords(acc[:])...))
	return s.modP(dst)
}

type vset struct{ ev, od []uint32 }

func (s vset) size() int {
	n := 1
	for i := 0; i < 10; i++ {
		n *= len(s.ev)
	}
	return n
}

func (s vset) lane(i int) (l lane) {
	n := len(s.ev)
	for k := 9; k >= 0; k-- {
		d := i % n
		i /= n
		if k&1 == 0 {
			l[k] = s.ev[d]
		} else {
			l[k] = s.od[d]
		}
	}
	return
}

type vel struct {
	l lane
	v *big.Int
}

func (s vset) all() []vel {
	out := make([]vel, s.size())
	for i := range out {
		out[i].l = s.lane(i)
		out[i].v = laneVal(&out[i].l)
	}
	return out
}

func half(ev []uint32) []uint32 {
	od := make([]uint32, len(ev))
	for i, x := range ev {
		od[i] = (x + 1) / 2
		if x&1 == 1 {
			od[i] = (x+1)/2 - 1
		}
		if x <= 1 {
			od[i] = x
		}
	}
	return od
}

func vs(ev ...uint32) vset { return vset{ev, half(ev)} }

const (
	vEvenBound = 67435269 // floor(2^26.007)
	vOddBound  = 33717634 // floor(2^25.007)
)

// quad picks four different members so that every lane sweeps the whole set
// while the lanes of one vector differ.
func quad(es []vel, i int) (q [4]*vel, raw [4][10]uint32) {
	n := len(es)
	for k := 0; k < 4; k++ {
		q[k] = &es[(i+k*(n/4+1))%n]
		raw[k] = q[k].l
	}
	return
}

func laneHex(q [4]*vel) string {
	return fmt.Sprintf("A=%x B=%x C=%x D=%x", q[0].l, q[1].l, q[2].l, q[3].l)
}

// vcheck compares each lane of v with want; reduced additionally enforces the b < 0.007 output bound.
func vcheck(w *mc.W, key string, ls *curve.VerifLanes, want [4]*big.Int, reduced bool, cas func() interface{}) bool {
	s := pool.Get().(*scratch)
	defer pool.Put(s)
	for k := 0; k < 4; k++ {
		l := (*lane)(&ls[k])
		got := s.laneInto(l, s.r)
		if got.Cmp(want[k]) != 0 {
			w.Fail(key, fmt.Sprintf("%s: lane %c limbs %x represent %x, want %x", key, 'A'+k, *l, got, want[k]), cas())
			return false
		}
		if reduced {
			for j, x := range l {
				lim := uint32(vEvenBound)
				if j&1 == 1 {
					lim = vOddBound
				}
				if x >= lim {
					w.Fail(key+"/output-bound", fmt.Sprintf("%s: lane %c limb %d = %#x exceeds the reduced bound %#x", key, 'A'+k, j, x, lim), cas())
					return false
				}
			}
		}
	}
	return true
}

func fm(a, b *big.Int) *big.Int {
	s := pool.Get().(*scratch)
	defer pool.Put(s)
	return s.modP(new(big.Int).Mul(a, b))
}
func fa(a, b *big.Int) *big.Int { t := new(big.Int).Add(a, b); return t.Mod(t, P) }
func fs(a, b *big.Int) *big.Int { t := new(big.Int).Sub(a, b); return t.Mod(t, P) }
func fn(a *big.Int) *big.Int    { t := new(big.Int).Neg(a); return t.Mod(t, P) }
func fk(a *big.Int, k int64) *big.Int {
	t := new(big.Int).Mul(a, big.NewInt(k))
	return t.Mod(t, P)
}

// vreg looks a vector accessor up; an accessor whose hook file was dropped against this tree caps its sub-space only.
var vregCapped = map[string]bool{}

func vreg(c *mc.Ctx, name string) interface{} {
	v, ok := curve.VerifC04Reg[name]
	if !ok {
		if vregCapped[name] {
			return nil
		}
		vregCapped[name] = true
		c.Cap("vector accessor " + name + " is not available against this tree (its hook file no longer compiles and was dropped): its sub-space is skipped")
		return nil
	}
	return v
}

func vectorLanes(c *mc.Ctx) {
	if c.Config != "avx2" || !curve.VerifSupportsVector() {
		c.Rep.Extra["vector_lanes"] = "AVX2 backend not active in this configuration"
		if c.Config == "avx2" {
			c.Cap("avx2 configuration requested but the CPU/runtime does not enable the vector backend")
		}
		return
	}
	const (
		e26  = 1 << 26
		rTop = e26 + 1<<18 - 1 // reduced, b < 0.006
		yTop = 3*e26 + 1<<21 - 1
		xTop = 5*e26 + 1<<21 - 1
		sTop = 2*e26 + 1<<19 - 1
	)
	sizes := map[string]interface{}{}
	type L = curve.VerifLanes
	vals := func(q [4]*vel) [4]*big.Int { return [4]*big.Int{q[0].v, q[1].v, q[2].v, q[3].v} }

	// --- Mul: lhs corners x rhs corners, with every aliasing form
	if mul, ok := vreg(c, "vec.mul").(func(a, b *L, alias int) L); ok {
		type mulSpace struct {
			name string
			x, y vset
		}
		spaces := []mulSpace{
			{"vec-mul/minmax", vs(0, xTop), vs(0, yTop)},
			{"vec-mul/seam", vs(e26-1, e26), vs(e26-1, yTop)},
		}
		if c.Thorough {
			spaces = append(spaces,
				mulSpace{"vec-mul/seam-b", vs(e26-1, xTop), vs(e26, 3*e26-1)},
				mulSpace{"vec-mul/one-top", vs(1, xTop), vs(1, yTop)})
		}
		for _, sp := range spaces {
			xs, ys := sp.x.all(), sp.y.all()
			nx, ny := len(xs), len(ys)
			sizes[sp.name] = []int{nx, ny}
			name := sp.name
			c.Par(name, nx*ny, func(w *mc.W, i int) {
				w.EvalN("vec-mul", 4, true)
				xq, xr := quad(xs, i/ny)
				yq, yr := quad(ys, i%ny)
				cas := func() interface{} { return map[string]string{"x": laneHex(xq), "y": laneHex(yq)} }
				out := mul(&xr, &yr, 0)
				var want [4]*big.Int
				for k := range want {
					want[k] = fm(xq[k].v, yq[k].v)
				}
				vcheck(w, "vecMul", &out, want, true, cas)
				// aliasing (T1): out == a is what the library does (tmp0.Mul(&tmp0, &b)); out == b on the other cases
				switch i % 4 {
				case 0:
					o := mul(&xr, &yr, 1)
					vcheck(w, "vecMul/alias(out=a)", &o, want, true, cas)
				case 2:
					o := mul(&xr, &yr, 2)
					vcheck(w, "vecMul/alias(out=b)", &o, want, true, cas)
				}
				if i%200003 == 0 {
					w.Sample(map[string]string{"op": "vecMul", "x": laneHex(xq), "y": laneHex(yq)})
				}
			})
		}
		// v.Mul(v, v): operand values must be admissible on both sides (rhs range)
		sqs := vs(0, e26-1, yTop).all()
		sizes["vec-mul/self"] = len(sqs)
		c.Par("vec-mul/self", len(sqs), func(w *mc.W, i int) {
			w.EvalN("vec-mul", 4, true)
			q, r := quad(sqs, i)
			o := mul(&r, &r, 3)
			var want [4]*big.Int
			for k := range want {
				want[k] = fm(q[k].v, q[k].v)
			}
			vcheck(w, "vecMul/alias(out=a=b)", &o, want, true, func() interface{} { return map[string]string{"x": laneHex(q)} })
		})
		// single-limb products (T9): exactly one non-zero limb on each side, at every pair of positions, with values at the
		// limb seams and at the tops - one partial product (with its 19-fold and its doubling for odd*odd) at a time, so that
		// a wrong coefficient or a carry lost in one column cannot be compensated by another term
		type single struct {
			pos int
			v   uint32
		}
		var sx, sy []single
		for pos := 0; pos < 10; pos++ {
			for _, ev := range []uint32{1, e26 - 1, e26, 2*e26 - 1, xTop} {
				v := ev
				if pos&1 == 1 && ev > 1 {
					v = (ev + 1) / 2
					if ev&1 == 1 {
						v--
					}
				}
				sx = append(sx, single{pos, v})
			}
			for _, ev := range []uint32{1, e26 - 1, e26, 2*e26 - 1, yTop} {
				v := ev
				if pos&1 == 1 && ev > 1 {
					v = (ev + 1) / 2
					if ev&1 == 1 {
						v--
					}
				}
				sy = append(sy, single{pos, v})
			}
		}
		sizes["vec-mul/single-limb"] = []int{len(sx), len(sy)}
		c.Par("vec-mul/single-limb", len(sx)*len(sy), func(w *mc.W, i int) {
			w.EvalN("vec-mul", 4, true)
			var xr, yr L
			var xl, yl [4]lane
			for k := 0; k < 4; k++ {
				a, b := sx[(i/len(sy)+k*13)%len(sx)], sy[(i%len(sy)+k*7)%len(sy)]
				xl[k][a.pos], yl[k][b.pos] = a.v, b.v
				xr[k], yr[k] = xl[k], yl[k]
			}
			out := mul(&xr, &yr, 0)
			var want [4]*big.Int
			for k := range want {
				want[k] = fm(laneVal(&xl[k]), laneVal(&yl[k]))
			}
			vcheck(w, "vecMul/single-limb", &out, want, true, func() interface{} {
				return map[string]string{"x": fmt.Sprintf("%x", xr), "y": fmt.Sprintf("%x", yr)}
			})
		})
	}

	// --- unary routines
	type un struct {
		name string
		need []string
		set  vset
		f    func(w *mc.W, q [4]*vel, raw L, cas func() interface{})
	}
	sqf, _ := curve.VerifC04Reg["vec.square"].(func(*L) L)
	negf, _ := curve.VerifC04Reg["vec.neg"].(func(*L) L)
	redf, _ := curve.VerifC04Reg["vec.reduce"].(func(*L) L)
	splitf, _ := curve.VerifC04Reg["vec.split"].(func(*L) [4]field.Element)
	sq := func(w *mc.W, q [4]*vel, raw L, cas func() interface{}) {
		w.EvalN("vec-square", 4, true)
		v := sqf(&raw)
		want := [4]*big.Int{fm(q[0].v, q[0].v), fm(q[1].v, q[1].v), fm(q[2].v, q[2].v), fn(fm(q[3].v, q[3].v))}
		vcheck(w, "vecSquareAndNegateD", &v, want, true, cas)
	}
	neg := func(w *mc.W, q [4]*vel, raw L, cas func() interface{}) {
		w.EvalN("vec-neg", 4, true)
		v := negf(&raw)
		want := [4]*big.Int{fn(q[0].v), fn(q[1].v), fn(q[2].v), fn(q[3].v)}
		vcheck(w, "vecNegate", &v, want, true, cas)
	}
	splitCheck := func(w *mc.W, v *L, want [4]*big.Int, cas func() interface{}) {
		if splitf == nil {
			return
		}
		fes := splitf(v)
		s := pool.Get().(*scratch)
		defer pool.Put(s)
		for k := range fes {
			chk{w, s}.val("Split", &fes[k], want[k], bNone, cas)
			for _, x := range field.VerifC04Limbs(&fes[k]) {
				if x >= 1<<52 {
					w.Fail("Split/output-bound", fmt.Sprintf("Split produced limb %#x >= 2^52", x), cas())
				}
			}
		}
	}
	red := func(w *mc.W, q [4]*vel, raw L, cas func() interface{}) {
		w.EvalN("vec-reduce", 4, true)
		v := redf(&raw)
		want := vals(q)
		vcheck(w, "vecReduce", &v, want, true, cas)
		splitCheck(w, &v, want, cas) // Split of the reduced vector
	}
	one1, _ := curve.VerifC04Reg["vec.addsub1"].(func(*L) L)
	two1, _ := curve.VerifC04Reg["vec.addsub2"].(func(*L) (L, L))
	dbl1, _ := curve.VerifC04Reg["vec.double1"].(func(*L) L)
	dbl2, _ := curve.VerifC04Reg["vec.double2"].(func(*L) (L, L))
	nlc, _ := curve.VerifC04Reg["vec.neglazycached"].(func(*L) L)
	ccn, _ := curve.VerifC04Reg["vec.cachedcondneg"].(func(*L, int) L)
	cfe, _ := curve.VerifC04Reg["vec.cachedfromext1"].(func(*L) L)
	cse, _ := curve.VerifC04Reg["vec.cachedsetext"].(func(*L) L)
	addsub := func(w *mc.W, q [4]*vel, raw L, cas func() interface{}) {
		A, B, C, D := q[0].v, q[1].v, q[2].v, q[3].v
		w.EvalN("vec-steps", 4*3, true)
		// add/sub step 1: (X,Y,Z,T) -> (Y-X, Y+X, Z, T)
		o := one1(&raw)
		vcheck(w, "vecAddSubExtendedCached_Step1", &o, [4]*big.Int{fs(B, A), fa(B, A), C, D}, false, cas)
		// add/sub step 2: (a,b,c,d) -> diff_sum(a,b,d,c) = (b-a, b+a, c-d, c+d) =: (A',B',C',D'); t0 = (A',D',D',A'), t1 = (C',B',C',B')
		t0, t1 := two1(&raw)
		a2, b2, c2, d2 := fs(B, A), fa(B, A), fs(C, D), fa(C, D)
		vcheck(w, "vecAddSubExtendedCached_Step2/t0", &t0, [4]*big.Int{a2, d2, d2, a2}, false, cas)
		vcheck(w, "vecAddSubExtendedCached_Step2/t1", &t1, [4]*big.Int{c2, b2, c2, b2}, false, cas)
	}
	double := func(w *mc.W, q [4]*vel, raw L, cas func() interface{}) {
		A, B, C, D := q[0].v, q[1].v, q[2].v, q[3].v
		w.EvalN("vec-steps", 4*3, true)
		// double step 1: (X,Y,Z,T) -> (X, Y, Z, X+Y)
		o := dbl1(&raw)
		vcheck(w, "vecDoubleExtended_Step1", &o, [4]*big.Int{A, B, C, fa(A, B)}, false, cas)
		// double step 2 on (S1,S2,S3,S4): tmp = (S1+S2, S1-S2, 2*S3+S1-S2, S4+S1+S2); tmp0 = (C,A,C,A), tmp1 = (D,B,B,D) of tmp
		u0, u1 := dbl2(&raw)
		ta, tb, tc, td := fa(A, B), fs(A, B), fa(fa(C, C), fs(A, B)), fa(D, fa(A, B))
		vcheck(w, "vecDoubleExtended_Step2/tmp0", &u0, [4]*big.Int{tc, ta, tc, ta}, false, cas)
		vcheck(w, "vecDoubleExtended_Step2/tmp1", &u1, [4]*big.Int{td, tb, tb, td}, false, cas)
	}
	cached := func(w *mc.W, q [4]*vel, raw L, cas func() interface{}) {
		A, B, C, D := q[0].v, q[1].v, q[2].v, q[3].v
		w.EvalN("vec-steps", 4*5, true)
		// cached negation: (A,B,C,D) -> (B, A, C, -D), lazily, and the conditional form for both choices (in place inside the library)
		ng := [4]*big.Int{B, A, C, fn(D)}
		o := nlc(&raw)
		vcheck(w, "vecNegateLazyCached", &o, ng, false, cas)
		o = ccn(&raw, 1)
		vcheck(w, "cachedPoint.ConditionalNegate/1", &o, ng, false, cas)
		o = ccn(&raw, 0)
		vcheck(w, "cachedPoint.ConditionalNegate/0", &o, [4]*big.Int{A, B, C, D}, false, cas)
		// extended -> cached
		k1, k2, k3 := int64(121666), int64(2*121666), int64(2*121665)
		o = cfe(&raw)
		vcheck(w, "vecCachedFromExtended_Step1", &o, [4]*big.Int{fk(fs(B, A), k1), fk(fa(B, A), k1), fk(C, k2), fk(D, k3)}, true, cas)
		o = cse(&raw)
		vcheck(w, "cachedPoint.SetExtended", &o, [4]*big.Int{fk(fs(B, A), k1), fk(fa(B, A), k1), fk(C, k2), fn(fk(D, k3))}, true, cas)
	}
	uns := []un{
		{"vec-square/a", []string{"vec.square"}, vs(0, e26-1, sTop), sq},
		{"vec-square/b", []string{"vec.square"}, vs(1, e26, sTop), sq},
		{"vec-neg/a", []string{"vec.neg"}, vs(0, e26-1, rTop), neg},
		{"vec-neg/b", []string{"vec.neg"}, vs(1, e26, rTop), neg},
		{"vec-reduce/a", []string{"vec.reduce"}, vs(0, e26-1, yTop), red},
		{"vec-reduce/b", []string{"vec.reduce"}, vs(1, e26, xTop), red},
		// odd limbs as large as newFieldElement2625x4 can hand vecReduce (limb >> 26 of a 54-bit limb)
		{"vec-reduce/wide-odd", []string{"vec.reduce"}, vset{[]uint32{0, e26 - 1}, []uint32{0, 1<<28 - 1}}, red},
		{"vec-steps/addsub-a", []string{"vec.addsub1", "vec.addsub2"}, vs(0, e26-1, rTop), addsub},
		{"vec-steps/addsub-b", []string{"vec.addsub1", "vec.addsub2"}, vs(1, e26, rTop), addsub},
		{"vec-steps/double-a", []string{"vec.double1", "vec.double2"}, vs(0, e26-1, rTop), double},
		{"vec-steps/double-b", []string{"vec.double1", "vec.double2"}, vs(1, e26, rTop), double},
		{"vec-steps/cached-a", []string{"vec.neglazycached", "vec.cachedcondneg", "vec.cachedfromext1", "vec.cachedsetext"}, vs(0, e26-1, rTop), cached},
		{"vec-steps/cached-b", []string{"vec.neglazycached", "vec.cachedcondneg", "vec.cachedfromext1", "vec.cachedsetext"}, vs(1, e26, rTop), cached},
	}
	for _, u := range uns {
		u := u
		have := true
		for _, n := range u.need {
			if vreg(c, n) == nil {
				have = false
			}
		}
		if !have {
			continue
		}
		es := u.set.all()
		sizes[u.name] = len(es)
		c.Par(u.name, len(es), func(w *mc.W, i int) {
			q, raw := quad(es, i)
			u.f(w, q, raw, func() interface{} { return map[string]string{"lanes": laneHex(q)} })
			if i%20011 == 0 {
				w.Sample(map[string]string{"op": u.name, "lanes": laneHex(q)})
			}
		})
	}

	// --- newFieldElement2625x4 from 51-bit elements, then Split: all 6^5 corner elements (limbs up to 2^54-1), the
	// residue-class representations, and the packing seams (T9): a limb just above 2^51 - in particular the TOP limb in
	// [2^51, 2^51 + 2^13], whose excess must be folded back with the factor 19 - next to neighbours that do / do not
	// hand a carry on (what Sub/Neg/Add/Square2 outputs look like).
	if vnew, ok := vreg(c, "vec.new").(func(a, b, c, d *field.Element) L); ok {
		full := fullCorners().all()
		for _, top := range []uint64{1<<51 + 1, 1<<51 + 19, 1<<51 + 1<<13 - 1, 1<<51 + 1<<13, 1<<51 + 19<<13 - 1, 1<<52 + 1<<14} {
			for pos := 0; pos < 5; pos++ {
				for m := 0; m < 16; m++ {
					l := make([]uint64, 5)
					k := 0
					for i := range l {
						if i == pos {
							l[i] = top
							continue
						}
						if m>>uint(k)&1 == 1 {
							l[i] = 1<<51 - 1
						}
						k++
					}
					full = append(full, mkEl(l))
				}
			}
		}
		full = dedup(append(full, residueElements()...))
		nf := len(full)
		sizes["vec-new"] = nf
		c.Par("vec-new", nf, func(w *mc.W, i int) {
			w.EvalN("vec-new", 4, true)
			var q [4]*el
			for k := range q {
				q[k] = full[(i+k*(nf/4+1))%nf]
			}
			cas := func() interface{} {
				return map[string]string{"A": q[0].hex(), "B": q[1].hex(), "C": q[2].hex(), "D": q[3].hex()}
			}
			// the same element in several lanes is what the library does (SetEdwards of a point with X == Y, doubling)
			if i%5 == 4 {
				q[1], q[3] = q[0], q[2]
			}
			v := vnew(&q[0].fe, &q[1].fe, &q[2].fe, &q[3].fe)
			want := [4]*big.Int{q[0].v, q[1].v, q[2].v, q[3].v}
			if vcheck(w, "newFieldElement2625x4", &v, want, true, cas) {
				splitCheck(w, &v, want, cas)
			}
		})
	}

	// --- ConditionalSelect / ConditionalAssign, complete choice domain, every aliasing form
	selF, ok1 := vreg(c, "vec.select").(func(a, b *L, choice, alias int) L)
	asgF, ok2 := vreg(c, "vec.assign").(func(a, b *L, choice int, same bool) L)
	if ok1 && ok2 {
		sel := vs(0, e26-1, rTop).all()
		sizes["vec-select"] = len(sel)
		c.Par("vec-select", len(sel), func(w *mc.W, i int) {
			w.EvalN("vec-select", 8, true)
			aq, ar := quad(sel, i)
			bq, br := quad(sel, len(sel)-1-i)
			cas := func() interface{} { return map[string]string{"a": laneHex(aq), "b": laneHex(bq)} }
			for ch := 0; ch <= 1; ch++ {
				want := vals(aq)
				if ch == 1 {
					want = vals(bq)
				}
				for alias := 0; alias <= 2; alias++ {
					o := selF(&ar, &br, ch, alias)
					vcheck(w, fmt.Sprintf("vecConditionalSelect/alias=%d", alias), &o, want, false, cas)
				}
				o := selF(&ar, &br, ch, 3)
				vcheck(w, "vecConditionalSelect/alias(out=a=b)", &o, vals(aq), false, cas)
				o = asgF(&ar, &br, ch, false)
				vcheck(w, "fieldElement2625x4.ConditionalAssign", &o, want, false, cas)
				o = asgF(&ar, &br, ch, true)
				vcheck(w, "fieldElement2625x4.ConditionalAssign(x, x)", &o, vals(aq), false, cas)
			}
		})
	}
	c.Rep.Extra["vector_lanes"] = sizes
	if c.Rep.NViolations > 0 || !c.Rep.Exhaustive {
		return // vacuity guards protect a "held, exhaustive" verdict only
	}
	c.Require("vec-mul", 4000000)
	c.Require("vec-square", 100000)
	c.Require("vec-steps", 100000)
	c.Require("vec-new", 7776*4)
}
