//go:build amd64 && !purego && !force32bit

package main

import (
	"fmt"
	"math/big"

	"github.com/oasisprotocol/curve25519-voi/curve"
	"github.com/oasisprotocol/curve25519-voi/internal/field"
	"github.com/oasisprotocol/curve25519-voi/internal/verif/mc"
)

// AVX2 lanes: every fieldElement2625x4 routine of curve/edwards_vector_amd64.{go,s}
// is run on vectors whose four lanes hold radix-2^25.5 corner elements, and each
// lane of the result is compared with math/big.
//
// Lane input ranges follow what the library itself feeds to each routine
// (the port does not restate dalek's pre-conditions, so the ranges are derived
// from the call sites in edwards_vector_amd64.go):
//
//   reduced      output of Reduce/Mul/Square/new: excess b < 0.007
//   Mul lhs      up to 2*S3 + S1 + 2p - S2 (Double step 2, lane C)  ~ 5*2^26   (b < 2.34)
//   Mul rhs      up to S4 + S1 + S2 / 2p + a - b                    ~ 3*2^26   (b < 1.60; 19*y must fit 32 bits)
//   Square       (X, Y, Z, X+Y) of reduced values                   ~ 2*2^26   (b < 1.01)
//   Neg          reduced values (cachedPoint.SetExtended); 16p - x needs x < 16p
//   lazy steps   reduced values (negate_lazy needs x <= 2p limb-wise)

type lane [10]uint32

var vshift [10]uint

func init() {
	for j := range vshift {
		vshift[j] = uint((51*j + 1) / 2)
	}
}

func laneVal(l *lane) *big.Int {
	s := pool.Get().(*scratch)
	defer pool.Put(s)
	return s.laneInto(l, new(big.Int))
}

// laneInto sets dst to the value of the lane mod p (no allocation once dst has capacity).
func (s *scratch) laneInto(l *lane, dst *big.Int) *big.Int {
	var acc [5]uint64
	for j, v := range l {
		w, off := vshift[j]/64, vshift[j]%64
		lo := uint64(v) << off
		var hi uint64
		if off != 0 {
			hi = uint64(v) >> (64 - off)
		}
		var c uint64
		acc[w], c = add64(acc[w], lo, 0)
		acc[w+1], c = add64(acc[w+1], hi, c)
		for k := w + 2; c != 0 && k < 5; k++ {
			acc[k], c = add64(acc[k], 0, c)
		}
	}
	for i := range acc {
		s.words[i] = big.Word(acc[i])
	}
	dst.SetBits(append(dst.Bits()[:0], s.words[:5]...))
	return s.modP(dst)
}

type vset struct{ ev, od []uint32 }

func (s vset) size() int {
	n := 1
	for i := 0; i < 10; i++ {
		n *= len(s.ev)
	}
	return n
}

func (s vset) lane(i int) (l lane) {
	n := len(s.ev)
	for k := 9; k >= 0; k-- {
		d := i % n
		i /= n
		if k&1 == 0 {
			l[k] = s.ev[d]
		} else {
			l[k] = s.od[d]
		}
	}
	return
}

type vel struct {
	l lane
	v *big.Int
}

func (s vset) all() []vel {
	out := make([]vel, s.size())
	for i := range out {
		out[i].l = s.lane(i)
		out[i].v = laneVal(&out[i].l)
	}
	return out
}

func half(ev []uint32) []uint32 {
	od := make([]uint32, len(ev))
	for i, x := range ev {
		od[i] = (x + 1) / 2
		if x&1 == 1 {
			od[i] = (x+1)/2 - 1
		}
		if x <= 1 {
			od[i] = x
		}
	}
	return od
}

func vs(ev ...uint32) vset { return vset{ev, half(ev)} }

const (
	vEvenBound = 67435269 // floor(2^26.007)
	vOddBound  = 33717634 // floor(2^25.007)
)

// quad picks four different members so that every lane sweeps the whole set
// while the lanes of one vector differ.
func quad(es []vel, i int) (q [4]*vel, raw [4][10]uint32) {
	n := len(es)
	for k := 0; k < 4; k++ {
		q[k] = &es[(i+k*(n/4+1))%n]
		raw[k] = q[k].l
	}
	return
}

func laneHex(q [4]*vel) string {
	return fmt.Sprintf("A=%x B=%x C=%x D=%x", q[0].l, q[1].l, q[2].l, q[3].l)
}

// vcheck compares each lane of v with want; reduced additionally enforces the b < 0.007 output bound.
func vcheck(w *mc.W, key string, v *curve.VerifVec, want [4]*big.Int, reduced bool, cas func() interface{}) {
	s := pool.Get().(*scratch)
	defer pool.Put(s)
	ls := v.Lanes()
	for k := 0; k < 4; k++ {
		l := (*lane)(&ls[k])
		got := s.laneInto(l, s.r)
		if got.Cmp(want[k]) != 0 {
			w.Fail(key, fmt.Sprintf("%s: lane %c limbs %x represent %x, want %x", key, 'A'+k, *l, got, want[k]), cas())
			return
		}
		if reduced {
			for j, x := range l {
				lim := uint32(vEvenBound)
				if j&1 == 1 {
					lim = vOddBound
				}
				if x >= lim {
					w.Fail(key+"/output-bound", fmt.Sprintf("%s: lane %c limb %d = %#x exceeds the reduced bound %#x", key, 'A'+k, j, x, lim), cas())
					return
				}
			}
		}
	}
}

func fm(a, b *big.Int) *big.Int {
	s := pool.Get().(*scratch)
	defer pool.Put(s)
	return s.modP(new(big.Int).Mul(a, b))
}
func fa(a, b *big.Int) *big.Int { t := new(big.Int).Add(a, b); return t.Mod(t, P) }
func fs(a, b *big.Int) *big.Int { t := new(big.Int).Sub(a, b); return t.Mod(t, P) }
func fn(a *big.Int) *big.Int    { t := new(big.Int).Neg(a); return t.Mod(t, P) }
func fk(a *big.Int, k int64) *big.Int {
	t := new(big.Int).Mul(a, big.NewInt(k))
	return t.Mod(t, P)
}

func vectorLanes(c *mc.Ctx) {
	if c.Config != "avx2" || !curve.VerifSupportsVector() {
		c.Rep.Extra["vector_lanes"] = "AVX2 backend not active in this configuration"
		if c.Config == "avx2" {
			c.Cap("avx2 configuration requested but the CPU/runtime does not enable the vector backend")
		}
		return
	}
	const (
		e26  = 1 << 26
		rTop = e26 + 1<<18 - 1 // reduced, b < 0.006
		yTop = 3*e26 + 1<<21 - 1
		xTop = 5*e26 + 1<<21 - 1
		sTop = 2*e26 + 1<<19 - 1
	)
	sizes := map[string]interface{}{}

	// --- Mul: lhs corners x rhs corners
	type mulSpace struct {
		name string
		x, y vset
	}
	spaces := []mulSpace{
		{"vec-mul/minmax", vs(0, xTop), vs(0, yTop)},
		{"vec-mul/seam", vs(e26-1, e26), vs(e26-1, yTop)},
	}
	if c.Thorough {
		spaces = append(spaces,
			mulSpace{"vec-mul/seam-b", vs(e26-1, xTop), vs(e26, 3*e26-1)},
			mulSpace{"vec-mul/one-top", vs(1, xTop), vs(1, yTop)})
	}
	for _, sp := range spaces {
		xs, ys := sp.x.all(), sp.y.all()
		nx, ny := len(xs), len(ys)
		sizes[sp.name] = []int{nx, ny}
		name := sp.name
		c.Par(name, nx*ny, func(w *mc.W, i int) {
			xq, xr := quad(xs, i/ny)
			yq, yr := quad(ys, i%ny)
			cas := func() interface{} { return map[string]string{"x": laneHex(xq), "y": laneHex(yq)} }
			x, y := curve.VerifVecFromLanes(&xr), curve.VerifVecFromLanes(&yr)
			var out curve.VerifVec
			out.Mul(x, y)
			var want [4]*big.Int
			for k := range want {
				want[k] = fm(xq[k].v, yq[k].v)
			}
			w.EvalN("vec-mul", 4, true)
			vcheck(w, "vecMul", &out, want, true, cas)
			// aliasing used by the library: tmp0.Mul(&tmp0, &b) (every fourth case; the routine spills both inputs first)
			if i%4 == 0 {
				x.Mul(x, y)
				vcheck(w, "vecMul/alias", x, want, true, cas)
			}
			if i%200003 == 0 {
				w.Sample(map[string]string{"op": "vecMul", "x": laneHex(xq), "y": laneHex(yq)})
			}
		})
	}

	// --- unary routines
	type un struct {
		name string
		set  vset
		f    func(w *mc.W, q [4]*vel, raw [4][10]uint32, cas func() interface{})
	}
	sq := func(w *mc.W, q [4]*vel, raw [4][10]uint32, cas func() interface{}) {
		v := curve.VerifVecFromLanes(&raw)
		v.SquareAndNegateD()
		want := [4]*big.Int{fm(q[0].v, q[0].v), fm(q[1].v, q[1].v), fm(q[2].v, q[2].v), fn(fm(q[3].v, q[3].v))}
		w.EvalN("vec-square", 4, true)
		vcheck(w, "vecSquareAndNegateD", v, want, true, cas)
	}
	neg := func(w *mc.W, q [4]*vel, raw [4][10]uint32, cas func() interface{}) {
		v := curve.VerifVecFromLanes(&raw)
		v.Neg()
		want := [4]*big.Int{fn(q[0].v), fn(q[1].v), fn(q[2].v), fn(q[3].v)}
		w.EvalN("vec-neg", 4, true)
		vcheck(w, "vecNegate", v, want, true, cas)
	}
	red := func(w *mc.W, q [4]*vel, raw [4][10]uint32, cas func() interface{}) {
		v := curve.VerifVecFromLanes(&raw)
		v.Reduce()
		want := [4]*big.Int{q[0].v, q[1].v, q[2].v, q[3].v}
		w.EvalN("vec-reduce", 4, true)
		vcheck(w, "vecReduce", v, want, true, cas)
		// Split of the reduced vector
		a, b, cc, d := v.Split()
		for k, fe := range []*field.Element{&a, &b, &cc, &d} {
			s := pool.Get().(*scratch)
			chk{w, s}.val("Split", fe, want[k], bNone, cas)
			pool.Put(s)
			for _, x := range field.VerifLimbs(fe) {
				if x >= 1<<52 {
					w.Fail("Split/output-bound", fmt.Sprintf("Split produced limb %#x >= 2^52", x), cas())
				}
			}
		}
	}
	steps := func(w *mc.W, q [4]*vel, raw [4][10]uint32, cas func() interface{}) {
		A, B, C, D := q[0].v, q[1].v, q[2].v, q[3].v
		in := curve.VerifVecFromLanes(&raw)
		w.EvalN("vec-steps", 4*8, true)
		// add/sub step 1: (X,Y,Z,T) -> (Y-X, Y+X, Z, T)
		vcheck(w, "vecAddSubExtendedCached_Step1", curve.VerifVecAddSubStep1(in), [4]*big.Int{fs(B, A), fa(B, A), C, D}, false, cas)
		// add/sub step 2: (a,b,c,d) -> diff_sum(a,b,d,c) = (b-a, b+a, c-d, c+d) =: (A',B',C',D'); t0 = (A',D',D',A'), t1 = (C',B',C',B')
		t0, t1 := curve.VerifVecAddSubStep2(in)
		a2, b2, c2, d2 := fs(B, A), fa(B, A), fs(C, D), fa(C, D)
		vcheck(w, "vecAddSubExtendedCached_Step2/t0", t0, [4]*big.Int{a2, d2, d2, a2}, false, cas)
		vcheck(w, "vecAddSubExtendedCached_Step2/t1", t1, [4]*big.Int{c2, b2, c2, b2}, false, cas)
		// double step 1: (X,Y,Z,T) -> (X, Y, Z, X+Y)
		vcheck(w, "vecDoubleExtended_Step1", curve.VerifVecDoubleStep1(in), [4]*big.Int{A, B, C, fa(A, B)}, false, cas)
		// double step 2 on (S1,S2,S3,S4): tmp = (S1+S2, S1-S2, 2*S3+S1-S2, S4+S1+S2); tmp0 = (C,A,C,A), tmp1 = (D,B,B,D) of tmp
		u0, u1 := curve.VerifVecDoubleStep2(in)
		ta, tb, tc, td := fa(A, B), fs(A, B), fa(fa(C, C), fs(A, B)), fa(D, fa(A, B))
		vcheck(w, "vecDoubleExtended_Step2/tmp0", u0, [4]*big.Int{tc, ta, tc, ta}, false, cas)
		vcheck(w, "vecDoubleExtended_Step2/tmp1", u1, [4]*big.Int{td, tb, tb, td}, false, cas)
		// cached negation: (A,B,C,D) -> (B, A, C, -D), lazily, and the conditional form for both choices
		ng := [4]*big.Int{B, A, C, fn(D)}
		vcheck(w, "vecNegateLazyCached", curve.VerifVecNegateLazyCached(in), ng, false, cas)
		vcheck(w, "cachedPoint.ConditionalNegate/1", curve.VerifVecCachedConditionalNegate(in, 1), ng, false, cas)
		vcheck(w, "cachedPoint.ConditionalNegate/0", curve.VerifVecCachedConditionalNegate(in, 0), [4]*big.Int{A, B, C, D}, false, cas)
		// extended -> cached
		k1, k2, k3 := int64(121666), int64(2*121666), int64(2*121665)
		vcheck(w, "vecCachedFromExtended_Step1", curve.VerifVecCachedFromExtendedStep1(in), [4]*big.Int{fk(fs(B, A), k1), fk(fa(B, A), k1), fk(C, k2), fk(D, k3)}, true, cas)
		vcheck(w, "cachedPoint.SetExtended", curve.VerifVecCachedSetExtended(in), [4]*big.Int{fk(fs(B, A), k1), fk(fa(B, A), k1), fk(C, k2), fn(fk(D, k3))}, true, cas)
	}
	uns := []un{
		{"vec-square/a", vs(0, e26-1, sTop), sq},
		{"vec-square/b", vs(1, e26, sTop), sq},
		{"vec-neg/a", vs(0, e26-1, rTop), neg},
		{"vec-neg/b", vs(1, e26, rTop), neg},
		{"vec-reduce/a", vs(0, e26-1, yTop), red},
		{"vec-reduce/b", vs(1, e26, xTop), red},
		{"vec-steps/a", vs(0, e26-1, rTop), steps},
		{"vec-steps/b", vs(1, e26, rTop), steps},
	}
	for _, u := range uns {
		es := u.set.all()
		u := u
		sizes[u.name] = len(es)
		c.Par(u.name, len(es), func(w *mc.W, i int) {
			q, raw := quad(es, i)
			u.f(w, q, raw, func() interface{} { return map[string]string{"lanes": laneHex(q)} })
			if i%20011 == 0 {
				w.Sample(map[string]string{"op": u.name, "lanes": laneHex(q)})
			}
		})
	}
	// vecReduce accepts arbitrary 32-bit limbs: odd limbs as large as newFieldElement2625x4 can hand it (limb >> 26 of a 54-bit limb)
	{
		es := vset{[]uint32{0, e26 - 1}, []uint32{0, 1<<28 - 1}}.all()
		sizes["vec-reduce/wide-odd"] = len(es)
		c.Par("vec-reduce/wide-odd", len(es), func(w *mc.W, i int) {
			q, raw := quad(es, i)
			red(w, q, raw, func() interface{} { return map[string]string{"lanes": laneHex(q)} })
		})
	}

	// --- newFieldElement2625x4 from 51-bit corner elements (all 6^5, limbs up to 2^54-1), then Split
	full := fullCorners().all()
	nf := len(full)
	sizes["vec-new"] = nf
	c.Par("vec-new", nf, func(w *mc.W, i int) {
		var q [4]*el
		for k := range q {
			q[k] = full[(i+k*(nf/4+1))%nf]
		}
		cas := func() interface{} {
			return map[string]string{"A": q[0].hex(), "B": q[1].hex(), "C": q[2].hex(), "D": q[3].hex()}
		}
		v := curve.VerifVecNew(&q[0].fe, &q[1].fe, &q[2].fe, &q[3].fe)
		want := [4]*big.Int{q[0].v, q[1].v, q[2].v, q[3].v}
		w.EvalN("vec-new", 4, true)
		vcheck(w, "newFieldElement2625x4", v, want, true, cas)
		a, b, cc, d := v.Split()
		s := pool.Get().(*scratch)
		for k, fe := range []*field.Element{&a, &b, &cc, &d} {
			chk{w, s}.val("Split", fe, want[k], bNone, cas)
		}
		pool.Put(s)
	})

	// --- ConditionalSelect / ConditionalAssign, complete choice domain
	sel := vs(0, e26-1, rTop).all()
	sizes["vec-select"] = len(sel)
	c.Par("vec-select", len(sel), func(w *mc.W, i int) {
		aq, ar := quad(sel, i)
		bq, br := quad(sel, len(sel)-1-i)
		cas := func() interface{} { return map[string]string{"a": laneHex(aq), "b": laneHex(bq)} }
		a, b := curve.VerifVecFromLanes(&ar), curve.VerifVecFromLanes(&br)
		for ch := 0; ch <= 1; ch++ {
			src := aq
			if ch == 1 {
				src = bq
			}
			want := [4]*big.Int{src[0].v, src[1].v, src[2].v, src[3].v}
			var out curve.VerifVec
			out.ConditionalSelect(a, b, ch)
			vcheck(w, "vecConditionalSelect", &out, want, false, cas)
			x := a.Copy()
			x.ConditionalAssign(b, ch)
			vcheck(w, "fieldElement2625x4.ConditionalAssign", x, want, false, cas)
		}
		w.EvalN("vec-select", 8, true)
	})
	c.Rep.Extra["vector_lanes"] = sizes
	c.Require("vec-mul", 4000000)
	c.Require("vec-square", 100000)
	c.Require("vec-steps", 100000)
	c.Require("vec-new", 7776*4)
}
