// C04: field arithmetic is exact modulo p = 2^255-19 for every admissible
// (unreduced) representation, in every backend.
//
// The harness calls internal/field directly.  Two families of sub-spaces:
//
//   - limb corners: Cartesian products of per-limb corner values up to the top
//     of the documented headroom (field_u64.go: a[i], b[i] < 2^(51+b), b < 3;
//     field_u32.go: x[i] < 2^(26+b) / 2^(25+b), b < 1.75), for every arithmetic
//     routine, including the portable 64-bit loops through the hook;
//   - field values: the alphabet Phi of 32-byte strings for the value-level
//     routines (Invert, BatchInvert, SqrtRatioI, decoders, predicates, selects).
//
// Oracle: math/big (package ref).  A result is compared twice: through the
// library's canonical encoding (ToBytes) and directly from its raw limbs
// (sum limb_i * 2^shift_i mod p), and its limbs must lie inside the bound the
// code documents for that routine's output, so that chained operations stay
// inside the analysed headroom.
package main

import (
	"fmt"
	"math/big"
	"math/bits"
	"runtime"
	"sync"

	"github.com/oasisprotocol/curve25519-voi/internal/field"
	"github.com/oasisprotocol/curve25519-voi/internal/verif/mc"
	"github.com/oasisprotocol/curve25519-voi/internal/verif/ref"
)

const nl = field.VerifC04LimbCount

var (
	is64   = nl == 5
	shifts [nl]uint // bit position of limb i
	radix  [nl]uint // nominal width of limb i
	P      = ref.P
	pow2k  = []uint{1, 2, 5, 10, 50, 100, 250}
)

func init() {
	for i := 0; i < nl; i++ {
		if is64 {
			shifts[i], radix[i] = uint(51*i), 51
		} else {
			shifts[i] = uint((51*i + 1) / 2) // ceil(25.5 i)
			radix[i] = 26 - uint(i&1)
		}
	}
}

// Output bounds documented by the code (exclusive).
//
// u64: feMulGeneric/fePow2kGeneric "fe[i] < 2^(51+epsilon)", reduce "2^51 + 19*2^13 < 2^51.0000000001".
// u32: reduce: even limbs < 2^26, odd limbs "< 2^25.007 (good enough)".
func reducedBound(i int) uint64 {
	if is64 {
		return 1<<51 + 19<<13
	}
	if i&1 == 0 {
		return 1 << 26
	}
	return 33717634 // floor(2^25.007)
}

type bound int

const (
	bNone    bound = iota
	bReduced       // output of a routine that ends with a weak reduction
	bDouble        // u64 Square2: twice a weakly reduced value (u32 reduces after doubling)
	bStrict        // SetBytes on u64: limbs < 2^51
)

func limbLimit(b bound, i int) uint64 {
	switch b {
	case bReduced:
		return reducedBound(i)
	case bDouble:
		if is64 {
			return 2 * reducedBound(i)
		}
		return reducedBound(i)
	case bStrict:
		if is64 {
			return 1 << 51
		}
		return reducedBound(i)
	}
	return ^uint64(0)
}

// scratch holds per-goroutine temporaries (no allocation on the hot path).
type scratch struct {
	t, u, r *big.Int
	h, h2   *big.Int
	words   [16]big.Word // 8 on 64-bit platforms, 16 where big.Word is 32 bits
	lb, lb2 [nl]uint64
	be      [32]byte
	got     [32]byte
}

var pool = sync.Pool{New: func() interface{} {
	return &scratch{t: new(big.Int), u: new(big.Int), r: new(big.Int), h: new(big.Int), h2: new(big.Int)}
}}

var (
	mask255 = new(big.Int).Sub(new(big.Int).Lsh(big.NewInt(1), 255), big.NewInt(1))
	big19   = big.NewInt(19)
)

// modP reduces t >= 0 into [0, p) using 2^255 = 19 (mod p); same result as t.Mod(t, P), without the
// allocations of the general division (cross-checked against Mod in selfCheck).
func (s *scratch) modP(t *big.Int) *big.Int {
	if t.Sign() < 0 {
		return t.Mod(t, P)
	}
	for t.BitLen() > 255 {
		s.h.Rsh(t, 255)
		t.And(t, mask255)
		s.h2.Mul(s.h, big19)
		t.Add(t, s.h2)
	}
	if t.Cmp(P) >= 0 {
		t.Sub(t, P)
	}
	return t
}

// limbInt sets dst = sum l[i] << shifts[i] (exact integer, not reduced).
func (s *scratch) limbInt(l []uint64, dst *big.Int) *big.Int {
	var acc [8]uint64
	for i, v := range l {
		w, off := shifts[i]/64, shifts[i]%64
		lo := v << off
		var hi uint64
		if off != 0 {
			hi = v >> (64 - off)
		}
		var c uint64
		acc[w], c = add64(acc[w], lo, 0)
		acc[w+1], c = add64(acc[w+1], hi, c)
		for k := w + 2; c != 0 && k < 8; k++ {
			acc[k], c = add64(acc[k], 0, c)
		}
	}
	// copy: SetBits aliases its argument
	dst.SetBits(append(dst.Bits()[:0], s.fillWords(acc[:])...))
	return dst
}

// fillWords spreads 64-bit accumulator words over big.Words of the platform's width.
func (s *scratch) fillWords(acc []uint64) []big.Word {
	if bits.UintSize == 64 {
		for i, a := range acc {
			s.words[i] = big.Word(a)
		}
		return s.words[:len(acc)]
	}
	for i, a := range acc {
		s.words[2*i] = big.Word(uint32(a))
		s.words[2*i+1] = big.Word(uint32(a >> 32))
	}
	return s.words[:2*len(acc)]
}

func add64(x, y, c uint64) (uint64, uint64) {
	s := x + y + c
	return s, ((x & y) | ((x | y) &^ s)) >> 63
}

// norm reduces t into [0, p).
func norm(t *big.Int) *big.Int {
	if t.Sign() < 0 && t.CmpAbs(P) <= 0 {
		return t.Add(t, P)
	}
	if t.Sign() < 0 || t.Cmp(P) >= 0 {
		if t.Sign() > 0 && t.BitLen() <= 256 {
			for t.Cmp(P) >= 0 {
				t.Sub(t, P)
			}
			return t
		}
		t.Mod(t, P)
	}
	return t
}

// el is a prepared input element.
type el struct {
	l     [nl]uint64
	fe    field.Element
	v     *big.Int // value mod p
	unred bool     // some limb uses the headroom (>= 2^radix)
}

func mkEl(l []uint64) *el {
	e := &el{}
	copy(e.l[:], l)
	e.fe = field.VerifC04FromLimbs(l)
	s := pool.Get().(*scratch)
	e.v = new(big.Int).Mod(s.limbInt(l, new(big.Int)), P)
	pool.Put(s)
	for i, x := range l {
		if x>>radix[i] != 0 {
			e.unred = true
		}
	}
	return e
}

func (e *el) hex() string { return fmt.Sprintf("%x", e.l) }

// cset is a per-limb corner set (ev for even limbs, od for odd limbs; equal lengths).
type cset struct {
	name   string
	ev, od []uint64
}

func (c cset) size() int {
	n := 1
	for i := 0; i < nl; i++ {
		n *= len(c.ev)
	}
	return n
}

func (c cset) limbs(i int) []uint64 {
	out := make([]uint64, nl)
	n := len(c.ev)
	for k := nl - 1; k >= 0; k-- {
		d := i % n
		i /= n
		if k&1 == 0 {
			out[k] = c.ev[d]
		} else {
			out[k] = c.od[d]
		}
	}
	return out
}

func (c cset) all() []*el {
	out := make([]*el, c.size())
	for i := range out {
		out[i] = mkEl(c.limbs(i))
	}
	return out
}

// uniform returns the vectors whose limbs all sit at the same corner.
func (c cset) uniform() []*el {
	var out []*el
	for d := range c.ev {
		l := make([]uint64, nl)
		for k := range l {
			if k&1 == 0 {
				l[k] = c.ev[d]
			} else {
				l[k] = c.od[d]
			}
		}
		out = append(out, mkEl(l))
	}
	return out
}

func sub(c cset, name string, idx ...int) cset {
	r := cset{name: name}
	for _, i := range idx {
		r.ev = append(r.ev, c.ev[i])
		r.od = append(r.od, c.od[i])
	}
	return r
}

// full corner sets (DESIGN section 5, "limb corners").
func fullCorners() cset {
	if is64 {
		s := []uint64{0, 1, 1<<51 - 1, 1 << 51, 1<<52 - 1, 1<<54 - 1}
		return cset{"{0,1,2^51-1,2^51,2^52-1,2^54-1}", s, s}
	}
	return cset{"{0,1,2^26-1,2^26,3*2^26-1 | 0,1,2^25-1,2^25,3*2^25-1}",
		[]uint64{0, 1, 1<<26 - 1, 1 << 26, 3<<26 - 1},
		[]uint64{0, 1, 1<<25 - 1, 1 << 25, 3<<25 - 1}}
}

// chk is the common result check: canonical bytes, raw-limb value, limb bound.
type chk struct {
	w *mc.W
	s *scratch
}

// val verifies that fe represents want (0 <= want < p) and respects bound b.
// key names the routine; cas is built lazily.
func (c chk) val(key string, fe *field.Element, want *big.Int, b bound, cas func() interface{}) bool {
	s := c.s
	ok := true
	_ = fe.ToBytes(s.got[:])
	want.FillBytes(s.be[:])
	same := true
	for i := 0; i < 32; i++ {
		if s.got[i] != s.be[31-i] {
			same = false
			break
		}
	}
	field.VerifC04LimbsInto(fe, &s.lb)
	l := s.lb[:]
	lv := s.modP(s.limbInt(l, s.r))
	switch {
	case lv.Cmp(want) != 0:
		ok = false
		c.w.Fail(key, fmt.Sprintf("%s: result limbs %x represent %x, want %x", key, l, lv, want), cas())
	case !same:
		ok = false
		c.w.Fail("ToBytes/after-"+key, fmt.Sprintf("ToBytes of limbs %x (value %x) gave %x", l, lv, s.got), cas())
	}
	if b != bNone {
		for i, x := range l {
			if x >= limbLimit(b, i) {
				ok = false
				c.w.Fail(key+"/output-bound", fmt.Sprintf("%s: output limb %d = %#x is outside the documented output bound %#x (limbs %x)", key, i, x, limbLimit(b, i), l), cas())
				break
			}
		}
	}
	return ok
}

func main() { mc.Main("C04", run) }

// The portable 64-bit loops are reached through accessors registered by a hook file of their own
// (hooks/internal/field/verif_export_c04_generic_u64.go): if feMulGeneric/fePow2kGeneric are renamed, only that
// file is dropped by the driver and only the "-generic" classes are capped.
var (
	mulGeneric   func(out, a, b *field.Element)
	pow2kGeneric func(out, a *field.Element, k uint)
)

// phase runs one group of sub-spaces.  Whatever the tree under test does while a group is being prepared (a panic in
// SetBytes while the alphabets are built, say) is a violation attributed to that group, never a harness failure.
func phase(c *mc.Ctx, name string, f func(*mc.Ctx)) {
	defer func() {
		if r := recover(); r != nil {
			buf := make([]byte, 2048)
			buf = buf[:runtime.Stack(buf, false)]
			c.Seq("setup-panic/"+name, 1, func(w *mc.W, _ int) {
				w.Eval("setup-panic", true)
				w.Fail("panic/setup-"+name, fmt.Sprintf("the library panicked while the %s inputs were being prepared: %v\n%s", name, r, buf), nil)
			})
		}
	}()
	f(c)
}

func run(c *mc.Ctx) {
	mulGeneric, _ = field.VerifC04Reg["feMulGeneric"].(func(out, a, b *field.Element))
	pow2kGeneric, _ = field.VerifC04Reg["fePow2kGeneric"].(func(out, a *field.Element, k uint))
	if is64 && (mulGeneric == nil || pow2kGeneric == nil) {
		c.Cap("the portable 64-bit loops (feMulGeneric / fePow2kGeneric) are not reachable against this tree (their accessor file no longer compiles and was dropped): the -generic classes are skipped")
	}
	c.Rep.Extra["backend"] = map[string]interface{}{"limbs": nl, "portable_loop_hook": is64 && mulGeneric != nil && pow2kGeneric != nil}
	selfCheck(c)
	phase(c, "corners", corners)
	phase(c, "single-limb", singleLimbProducts)
	phase(c, "constant-seams", constantSeams)
	phase(c, "residue-classes", residueClasses)
	phase(c, "values", values)
	phase(c, "vector-lanes", vectorLanes)
	if c.Rep.NViolations > 0 {
		return // the vacuity guards protect a "held" verdict only; a violation is reported as such
	}
	c.Require("mul", 1000000)
	c.Require("sub", 1000000)
	c.Require("square", 5000)
	c.Require("pow2k", 5000)
	c.Require("sqrt/square", 1000)
	c.Require("sqrt/nonsquare", 1000)
	c.Require("sqrt/u=0", 10)
	c.Require("sqrt/v=0", 10)
	c.Require("setbytes/noncanonical", 19)
	c.Require("setbytes/bit255", 100)
	c.Require("wide/bit255", 50)
	c.Require("wide/bit511", 50)
	c.Require("batchinvert/with-zero", 100)
	c.Require("batchinvert/zero-at-index-0", 100)
	c.Require("alias", 100000)
}

// sameAs reports whether x holds the same element as want: identical limbs (what an operation that merely aliases its
// receiver must produce) or, failing that, the same value.
func (c chk) sameAs(key string, x, want *field.Element, cas func() interface{}) {
	s := c.s
	field.VerifC04LimbsInto(x, &s.lb)
	field.VerifC04LimbsInto(want, &s.lb2)
	if s.lb == s.lb2 {
		return
	}
	if x.Equal(want) != 1 {
		c.w.Fail(key, fmt.Sprintf("%s: the aliased call gives limbs %x, the call with distinct objects gives %x", key, s.lb, s.lb2), cas())
	}
}

// ---------------------------------------------------------------------------
// single-limb products (T9): exactly one non-zero limb in each operand, at every pair of positions, with values at the
// limb seams, at the word seams (2^32-1 and 2^32+1 multiply to 2^64-1: a low product word of all ones, so the next
// addition into it carries; 2^16+-1 likewise for the 32-bit backend) and at the tops of the headroom.  One partial
// product - with its 19-fold for wrapped columns and its doubling for odd*odd limbs - is exercised at a time, so that a
// wrong coefficient or a carry lost in one column cannot be compensated by another term.
func singleLimbProducts(c *mc.Ctx) {
	var vals [2][]uint64 // by limb parity
	if is64 {
		v := []uint64{1, 19, 1<<32 - 1, 1<<32 + 1, 1<<51 - 1, 1 << 51, 1<<52 - 1, 1<<54 - 1}
		vals = [2][]uint64{v, v}
	} else {
		vals = [2][]uint64{
			{1, 19, 1<<16 - 1, 1<<16 + 1, 1<<26 - 1, 1 << 26, 3<<26 - 1, docMaxEven},
			{1, 19, 1<<16 - 1, 1<<16 + 1, 1<<25 - 1, 1 << 25, 3<<25 - 1, docMaxOdd},
		}
	}
	var es []*el
	for pos := 0; pos < nl; pos++ {
		for _, v := range vals[pos&1] {
			l := make([]uint64, nl)
			l[pos] = v
			es = append(es, mkEl(l))
		}
	}
	n := len(es)
	c.Rep.Extra["single_limb_elements"] = n
	c.Par("single-limb-products", n*n, func(w *mc.W, i int) {
		s := pool.Get().(*scratch)
		binaryOps(chk{w, s}, es[i/n], es[i%n], i)
		pool.Put(s)
	})
	c.Par("single-limb-unary", n, func(w *mc.W, i int) {
		s := pool.Get().(*scratch)
		heavyUnary(chk{w, s}, es[i], es[(i+1)%n])
		pool.Put(s)
	})
	// word seams in every limb at once: limbs from {2^h-1, 2^h, 2^h+1}, h = half the accumulator word (32, resp. 16 bits).
	// Partial products are then exactly 2^w-1 (all ones), 2^w and 2^w+2^(h+1)+1, their 19- and 38-folds end in ...ed / ...da,
	// and the column sums land exactly on, one below and one above multiples of 2^w: "words that are exactly 0xffff... with
	// a carry in" for every ADD/ADC pair of the multiplication and squaring ladders and for the 19-/38-/121666-folds.
	h := uint(32)
	if !is64 {
		h = 16
	}
	hv := []uint64{1<<h - 1, 1 << h, 1<<h + 1}
	ws := cset{"{2^h-1, 2^h, 2^h+1}", hv, hv}
	if is64 {
		we := ws.all() // 3^5 = 243
		c.Rep.Extra["word_seam_elements"] = len(we)
		c.Par("word-seam-binary", len(we)*len(we), func(w *mc.W, i int) {
			s := pool.Get().(*scratch)
			binaryOps(chk{w, s}, we[i/len(we)], we[i%len(we)], i)
			pool.Put(s)
		})
		unaryOps(c, "word-seam-unary", we)
	} else {
		// 3^10 elements: single-step routines on all of them, products against the three uniform vectors in both orders
		nw := ws.size()
		u := ws.uniform()
		c.Rep.Extra["word_seam_elements"] = nw
		c.Par("word-seam-binary", nw*len(u)*2, func(w *mc.W, i int) {
			s := pool.Get().(*scratch)
			e, v := mkEl(ws.limbs(i/(2*len(u)))), u[(i/2)%len(u)]
			if i&1 == 0 {
				binaryOps(chk{w, s}, e, v, i)
			} else {
				binaryOps(chk{w, s}, v, e, i)
			}
			pool.Put(s)
		})
		c.Par("word-seam-unary", nw, func(w *mc.W, i int) {
			s := pool.Get().(*scratch)
			cheapUnary(chk{w, s}, mkEl(ws.limbs(i)))
			pool.Put(s)
		})
	}
}

// The largest limbs the 32-bit multiplication documents as admissible: x[i] < 2^(26+b) / 2^(25+b) with b < 1.75 - one
// step below the seam of the 32-bit pre-multiplication 19*y (which wraps at y >= ceil(2^32/19) = 226050911).
const (
	docMaxEven = 225726411 // floor(2^27.75) - 1
	docMaxOdd  = 112863205 // floor(2^26.75) - 1
)

// ---------------------------------------------------------------------------
// constant-multiplier seams (64-bit backends): Mul121666 forms a_i*121666 as a 128-bit product and adds the
// carry of the previous limb to its LOW word; that addition crosses 2^64 only when a_i is within a few units of
// ceil(j*2^64/121666) and the incoming carry is large.  Limb corners never come near those values, so they are
// enumerated here: every j whose seam lies inside the documented headroom, small offsets on both sides, at every
// limb position, over lower neighbours that maximise / minimise the incoming carry.  (Added after the
// independently seeded change C07-3 - a carry dropped in exactly this addition - passed the corner products.)
func constantSeams(c *mc.Ctx) {
	if !is64 {
		return
	}
	two64 := new(big.Int).Lsh(big.NewInt(1), 64)
	var es []*el
	for _, k := range []int64{121666} {
		kk := big.NewInt(k)
		for j := int64(1); ; j++ {
			v := new(big.Int).Mul(big.NewInt(j), two64)
			v.Add(v, new(big.Int).Sub(kk, big.NewInt(1)))
			v.Div(v, kk) // ceil(j*2^64/k)
			if v.BitLen() > 54 {
				break
			}
			for e := int64(-3); e <= 3; e++ {
				x := new(big.Int).Sub(v, big.NewInt(e))
				if x.Sign() <= 0 || x.BitLen() > 54 {
					continue
				}
				for pos := 0; pos < 5; pos++ {
					for _, low := range []uint64{0, 1<<51 - 1, 1<<54 - 1} {
						for _, rest := range []uint64{0, 1<<54 - 1} {
							l := make([]uint64, 5)
							for i := range l {
								l[i] = rest
							}
							l[pos] = x.Uint64()
							l[(pos+4)%5] = low
							es = append(es, mkEl(l))
						}
					}
				}
			}
		}
	}
	es = dedup(es)
	c.Rep.Extra["constant_seam_elements"] = len(es)
	c.Par("constant-seams", len(es), func(w *mc.W, i int) {
		s := pool.Get().(*scratch)
		defer pool.Put(s)
		cheapUnary(chk{w, s}, es[i])
	})
}

// ---------------------------------------------------------------------------
// residue-class representations: the SAME small value (0, 1, 2, 19, -1, -19) written as v + k*p for every k the
// headroom admits, with the multiples of p distributed over the limbs uniformly and with a unit carried between each
// pair of neighbouring limbs; plus the unreduced zeros and small values the library itself produces with Add (which
// never reduces): x + Neg(x), (a-a)+(b-b), x + x - 2x.  Predicates and encoders must see through the representation.
// (Added after the seeded change C04-r2-1 - an IsZero that compares raw limbs with 0 and with p only - passed the
// limb corners, none of which is a non-trivial representation of zero.)
// residueElements: the representations v + k*p described above, inside the documented input headroom.
func residueElements() []*el {
	var pl [nl]uint64
	for i := 0; i < nl; i++ {
		pl[i] = 1<<radix[i] - 1
	}
	pl[0] = 1<<radix[0] - 19
	maxK := uint64(7)
	if !is64 {
		maxK = 2
	}
	var es []*el
	for k := uint64(0); k <= maxK; k++ {
		for _, v := range []int64{0, 1, 2, 19, -1, -19} {
			base := make([]uint64, nl)
			ok := true
			for i := 0; i < nl; i++ {
				base[i] = k * pl[i]
			}
			if v >= 0 {
				base[0] += uint64(v)
			} else if base[0] >= uint64(-v) {
				base[0] -= uint64(-v)
			} else {
				ok = false // -1 with k = 0 has no non-negative limb form
			}
			if !ok {
				continue
			}
			es = append(es, mkEl(base))
			// move one unit of limb i+1 down into limb i (value unchanged)
			for i := 0; i+1 < nl; i++ {
				if base[i+1] == 0 {
					continue
				}
				l := append([]uint64{}, base...)
				l[i+1]--
				l[i] += 1 << radix[i]
				es = append(es, mkEl(l))
			}
			// and the wrap-around: one unit of 2^255 = 19 from the top limb into limb 0
			if base[nl-1] >= 1<<radix[nl-1] {
				l := append([]uint64{}, base...)
				l[nl-1] -= 1 << radix[nl-1]
				l[0] += 19
				es = append(es, mkEl(l))
			}
		}
	}
	// the same for values that are not small (T13: no method may depend on WHICH representation v + k*p it is handed):
	// sqrt(-1) (a square, its own square root structure matters to SqrtRatioI), d (a non-square) and a dense pattern
	for _, v := range []*big.Int{ref.SqrtM1, ref.D, new(big.Int).Mod(new(big.Int).SetBytes(bytesOf(0x5a, 32)), P)} {
		vl := make([]uint64, nl)
		t := new(big.Int).Set(v)
		for i := 0; i < nl; i++ {
			vl[i] = new(big.Int).And(t, new(big.Int).SetUint64(1<<radix[i]-1)).Uint64()
			t.Rsh(t, radix[i])
		}
		for k := uint64(0); k <= maxK; k++ {
			base := make([]uint64, nl)
			for i := 0; i < nl; i++ {
				base[i] = vl[i] + k*pl[i]
			}
			es = append(es, mkEl(base))
			if base[1] > 0 {
				l := append([]uint64{}, base...)
				l[1]--
				l[0] += 1 << radix[0]
				es = append(es, mkEl(l))
			}
		}
	}
	// keep only elements inside the documented input headroom
	var in []*el
	for _, e := range es {
		fits := true
		for i := 0; i < nl; i++ {
			if e.l[i] > limbLimit(bNone, i) && limbLimit(bNone, i) != 0 {
				fits = false
			}
			if is64 && e.l[i] >= 1<<54 {
				fits = false
			}
			if !is64 && e.l[i] >= 3<<radix[i] {
				fits = false
			}
		}
		if fits {
			in = append(in, e)
		}
	}
	return dedup(in)
}

func bytesOf(b byte, n int) []byte {
	out := make([]byte, n)
	for i := range out {
		out[i] = b
	}
	return out
}

func residueClasses(c *mc.Ctx) {
	in := residueElements()
	c.Rep.Extra["residue_class_elements"] = len(in)
	// every single-operand routine incl. Invert and SqrtRatioI (unreduced zeros and small values as u and as v, T5)
	c.Par("residue-classes", len(in), func(w *mc.W, i int) {
		s := pool.Get().(*scratch)
		defer pool.Put(s)
		heavyUnary(chk{w, s}, in[i], in[(i*7+3)%len(in)])
	})
	// Equal / binary arithmetic across representations of the same and of neighbouring values
	c.Par("residue-pairs", len(in)*len(in), func(w *mc.W, i int) {
		s := pool.Get().(*scratch)
		defer pool.Put(s)
		a, b := in[i/len(in)], in[i%len(in)]
		w.Eval("equal-representations", a.v.Cmp(b.v) == 0)
		if got, want := a.fe.Equal(&b.fe) == 1, a.v.Cmp(b.v) == 0; got != want {
			w.Fail("Equal", fmt.Sprintf("Equal(limbs %s, limbs %s) = %v, values %x and %x", a.hex(), b.hex(), got, a.v, b.v), map[string]string{"a_limbs": a.hex(), "b_limbs": b.hex()})
		}
		binaryOps(chk{w, s}, a, b, i)
	})
	// BatchInvert with each representation at each index of [g, e, h] (T13/T5): e is inverted / left alone as its VALUE
	// demands, and the neighbours are inverted correctly whatever e's limbs look like
	var g, h *el
	for _, e := range in {
		if e.v.Cmp(ref.SqrtM1) == 0 && g == nil {
			g = e
		}
		if e.v.Cmp(ref.D) == 0 && h == nil {
			h = e
		}
	}
	if g != nil && h != nil {
		gi, hi := ref.FInv(g.v), ref.FInv(h.v)
		c.Par("residue-batchinvert", len(in)*3, func(w *mc.W, i int) {
			s := pool.Get().(*scratch)
			defer pool.Put(s)
			e, pos := in[i/3], i%3
			w.Eval("batchinvert/representation", e.unred)
			fes := []field.Element{g.fe, h.fe, h.fe}
			want := []*big.Int{gi, hi, hi}
			if pos != 0 {
				fes[0], want[0] = g.fe, gi
			}
			fes[pos] = e.fe
			want[pos] = zero
			if e.v.Sign() != 0 {
				want[pos] = new(big.Int).ModInverse(e.v, P)
			}
			field.BatchInvert([]*field.Element{&fes[0], &fes[1], &fes[2]})
			for k := range fes {
				chk{w, s}.val(fmt.Sprintf("BatchInvert/representation(index %d, element at %d)", k, pos), &fes[k], want[k], bNone, func() interface{} {
					return map[string]string{"e_limbs": e.hex(), "position": fmt.Sprint(pos)}
				})
			}
		})
	}
	// library-produced unreduced forms
	full := fullCorners()
	// x is taken from the weakly reduced corners only ({0, 1, 2^r-1, 2^r}), so that x + Neg(x) (limbs < 2^(r+1)+small)
	// stays inside the documented input headroom of every routine it is fed to
	var cs []*el
	if is64 || c.Thorough {
		cs = dedup(sub(full, "reduced corners", 0, 1, 2, 3).all()) // 4^5 = 1 024, resp. 4^10 = 1 048 576
	} else {
		// 32-bit backend, quick tier: the two 2-corner halves (2 x 2^10) instead of all 4^10
		cs = dedup(append(sub(full, "{0, 2^r-1}", 0, 2).all(), sub(full, "{1, 2^r}", 1, 3).all()...))
	}
	c.Rep.Extra["library_zero_forms_from"] = len(cs)
	c.Par("library-zero-forms", len(cs), func(w *mc.W, i int) {
		s := pool.Get().(*scratch)
		defer pool.Put(s)
		ck := chk{w, s}
		x := cs[i]
		cas := func() interface{} { return map[string]string{"x_limbs": x.hex()} }
		var n, z, t field.Element
		n.Neg(&x.fe)
		z.Add(&x.fe, &n) // x + (-x): an unreduced zero
		zl := field.VerifC04Limbs(&z)
		ze := mkEl(zl)
		if ze.v.Sign() != 0 {
			w.Fail("Add/Neg", "x + Neg(x) is not zero", cas())
			return
		}
		ck.val("ToBytes", &z, zero, bNone, cas)
		if z.IsNegative() != 0 {
			w.Fail("IsNegative", "IsNegative(x + Neg(x)) = 1", cas())
		}
		if z.IsZero() != 1 {
			w.Fail("IsZero", fmt.Sprintf("IsZero(x + Neg(x)) = 0 for x limbs %s (sum limbs %x)", x.hex(), zl), cas())
		}
		var zero0 field.Element
		if z.Equal(&zero0) != 1 || zero0.Equal(&z) != 1 {
			w.Fail("Equal", "x + Neg(x) does not compare equal to zero", cas())
		}
		// x + x - 2x through Sub (reduces) stays zero as well; (x - x) + (x - x)
		t.Sub(&x.fe, &x.fe)
		t.Add(&t, &t)
		if t.IsZero() != 1 {
			w.Fail("IsZero", "IsZero((x-x)+(x-x)) = 0", cas())
		}
		// BatchInvert must treat such a zero as zero (documented: zero inputs are left unchanged / skipped)
		one1, seven := new(field.Element).One(), new(field.Element)
		_, _ = seven.SetBytes([]byte{7, 0, 0, 0, 0, 0, 0, 0, 0, 0, 0, 0, 0, 0, 0, 0, 0, 0, 0, 0, 0, 0, 0, 0, 0, 0, 0, 0, 0, 0, 0, 0})
		zz := z
		field.BatchInvert([]*field.Element{one1, &zz, seven})
		var inv7 field.Element
		inv7.Invert(new(field.Element).Set(func() *field.Element {
			e := new(field.Element)
			_, _ = e.SetBytes([]byte{7, 0, 0, 0, 0, 0, 0, 0, 0, 0, 0, 0, 0, 0, 0, 0, 0, 0, 0, 0, 0, 0, 0, 0, 0, 0, 0, 0, 0, 0, 0, 0})
			return e
		}()))
		if seven.Equal(&inv7) != 1 {
			w.Fail("BatchInvert/unreduced-zero", "BatchInvert([1, x+Neg(x), 7]) did not invert the 7", cas())
		}
		w.Eval("library-zero-forms", true)
	})
}

// ---------------------------------------------------------------------------
// limb-corner sub-spaces

func corners(c *mc.Ctx) {
	full := fullCorners()
	sizes := map[string]interface{}{"full_corner_set": full.name}

	// unary element sets: every single-operand routine (incl. the Pow2k ladder, Invert, SqrtRatioI) on `unary`;
	// on the 32-bit backend in the quick tier the second half (B3) gets the single-step routines only.
	var unary, unaryLight []*el
	if is64 {
		unary = full.all() // 6^5 = 7776
	} else {
		a3 := sub(full, "A3", 0, 2, 4).all() // 3^10
		a3 = dedup(append(a3, cset{"docmax", []uint64{0, docMaxEven}, []uint64{0, docMaxOdd}}.all()...))
		b3 := dedup(append(append([]*el{}, a3...), sub(full, "B3", 1, 3, 4).all()...))[len(a3):]
		if c.Thorough {
			unary = append(a3, b3...)
		} else {
			unary, unaryLight = a3, b3
		}
	}
	sizes["unary_elements"] = len(unary)
	unaryOps(c, "corner-unary", unary)
	if len(unaryLight) > 0 {
		sizes["unary_single_step_elements"] = len(unaryLight)
		c.Par("corner-unary-light", len(unaryLight), func(w *mc.W, i int) {
			s := pool.Get().(*scratch)
			defer pool.Put(s)
			cheapUnary(chk{w, s}, unaryLight[i])
		})
	}
	if !is64 && c.Thorough {
		// all 5^10 corner elements for the cheap single-step routines
		n := full.size()
		sizes["unary_cheap_elements"] = n
		c.Par("corner-unary-cheap", n, func(w *mc.W, i int) {
			s := pool.Get().(*scratch)
			defer pool.Put(s)
			cheapUnary(chk{w, s}, mkEl(full.limbs(i)))
		})
	}

	// binary spaces
	type bin struct {
		name string
		a, b []*el
	}
	var bins []bin
	if is64 {
		mid := func(vals ...uint64) []*el { return cset{fmt.Sprint(vals), vals, vals}.all() }
		if c.Thorough {
			e := full.all()
			sizes["binary_corner_set"] = fmt.Sprint(full.ev)
			bins = append(bins, bin{"corner-binary", e, e})
		} else {
			// quick: {0,2^51-1,2^51,2^54-1}^5 squared, plus the remaining headroom corners against the 5-corner set, both operand orders
			q4 := sub(full, "Q4", 0, 2, 3, 5).all()
			t5 := sub(full, "T5", 0, 2, 3, 4, 5).all()
			m3 := mid(0, 1<<52-1, 1<<54-1)
			sizes["binary_corner_set"] = "Q4 x Q4, {0,2^52-1,2^54-1}^5 x T5 (both orders)"
			bins = append(bins, bin{"corner-binary", q4, q4}, bin{"corner-binary/m3-t5", m3, t5}, bin{"corner-binary/t5-m3", t5, m3})
		}
		if c.Thorough {
			// one more corner in the middle of the headroom, against the full set, both operand orders
			e := full.all()
			m := mid(0, 1<<53-1, 1<<54-1)
			bins = append(bins, bin{"corner-binary/mid-full", m, e}, bin{"corner-binary/full-mid", e, m})
		}
	} else {
		m2 := sub(full, "M2", 0, 4).all()
		s2 := sub(full, "S2", 2, 3).all()
		sm2 := sub(full, "SM2", 2, 4).all()
		a3 := sub(full, "A3", 0, 2, 4).all()
		u5 := full.uniform()
		dm := cset{"{0, 2^27.75-1 | 0, 2^26.75-1}", []uint64{0, docMaxEven}, []uint64{0, docMaxOdd}}.all()
		bins = append(bins,
			bin{"corner-binary/docmax", dm, dm},
			bin{"corner-binary/minmax", m2, m2},
			bin{"corner-binary/seam-a", s2, sm2},
			bin{"corner-binary/seam-b", sm2, s2},
			bin{"corner-binary/a3-uniform", a3, u5},
			bin{"corner-binary/uniform-a3", u5, a3})
		if c.Thorough {
			bins = append(bins,
				bin{"corner-binary/a3-minmax", a3, m2},
				bin{"corner-binary/minmax-a3", m2, a3})
		}
	}
	for _, b := range bins {
		b := b
		sizes[b.name] = []int{len(b.a), len(b.b)}
		nb := len(b.b)
		c.Par(b.name, len(b.a)*nb, func(w *mc.W, i int) {
			s := pool.Get().(*scratch)
			binaryOps(chk{w, s}, b.a[i/nb], b.b[i%nb], i)
			pool.Put(s)
		})
	}
	c.Rep.Extra["corner_spaces"] = sizes
}

func dedup(in []*el) []*el {
	seen := map[[nl]uint64]bool{}
	var out []*el
	for _, e := range in {
		if !seen[e.l] {
			seen[e.l] = true
			out = append(out, e)
		}
	}
	return out
}

// binaryOps checks Mul (asm or native), the portable Mul, Sub, Add on (a, b), each also with the receiver aliasing
// the first and the second operand (T1; the library itself calls them that way everywhere).
func binaryOps(c chk, a, b *el, i int) {
	s := c.s
	nt := a.unred || b.unred
	cas := func() interface{} { return map[string]string{"a_limbs": a.hex(), "b_limbs": b.hex()} }
	// classes are counted before the library is called: they describe the enumerated space, not its behaviour
	c.w.Eval("mul", nt)
	c.w.Eval("sub", nt)
	c.w.Eval("add", nt)
	c.w.EvalN("alias", 2, nt)
	if mulGeneric != nil {
		c.w.Eval("mul-generic", nt)
	}
	var out, x field.Element
	// the aliased forms of one of the three operations per case, in rotation: each form still sweeps a third of every product
	rot := i % 3

	s.t.Mul(a.v, b.v)
	s.modP(s.t)
	out.Mul(&a.fe, &b.fe)
	c.val("Mul", &out, s.t, bReduced, cas)
	if mulGeneric != nil {
		var g field.Element
		mulGeneric(&g, &a.fe, &b.fe)
		c.val("feMulGeneric", &g, s.t, bReduced, cas)
		if rot == 0 {
			x = a.fe
			mulGeneric(&x, &x, &b.fe)
			c.sameAs("feMulGeneric/alias(fe,fe,b)", &x, &g, cas)
			x = b.fe
			mulGeneric(&x, &a.fe, &x)
			c.sameAs("feMulGeneric/alias(fe,a,fe)", &x, &g, cas)
		}
	}
	if rot == 0 {
		x = a.fe
		x.Mul(&x, &b.fe)
		c.sameAs("Mul/alias(fe,b)", &x, &out, cas)
		x = b.fe
		x.Mul(&a.fe, &x)
		c.sameAs("Mul/alias(a,fe)", &x, &out, cas)
	}

	s.u.Sub(a.v, b.v)
	if s.u.Sign() < 0 {
		s.u.Add(s.u, P)
	}
	out.Sub(&a.fe, &b.fe)
	c.val("Sub", &out, s.u, bReduced, cas)
	if rot == 1 {
		x = a.fe
		x.Sub(&x, &b.fe)
		c.sameAs("Sub/alias(fe,b)", &x, &out, cas)
		x = b.fe
		x.Sub(&a.fe, &x)
		c.sameAs("Sub/alias(a,fe)", &x, &out, cas)
	}

	s.u.Add(a.v, b.v)
	if s.u.Cmp(P) >= 0 {
		s.u.Sub(s.u, P)
	}
	out.Add(&a.fe, &b.fe)
	if c.val("Add", &out, s.u, bNone, cas) {
		// Add is documented as a plain limb-wise sum (no reduction): the limbs must not have wrapped.
		l := s.lb[:] // filled by val with the limbs of out
		for k := range l {
			if l[k] != a.l[k]+b.l[k] {
				c.w.Fail("Add/limbs", fmt.Sprintf("limb %d of Add is %#x, want %#x", k, l[k], a.l[k]+b.l[k]), cas())
				break
			}
		}
	}
	if rot == 2 {
		x = a.fe
		x.Add(&x, &b.fe)
		c.sameAs("Add/alias(fe,b)", &x, &out, cas)
		x = b.fe
		x.Add(&a.fe, &x)
		c.sameAs("Add/alias(a,fe)", &x, &out, cas)
	}
	if i%100003 == 0 {
		c.w.Sample(map[string]string{"op": "Mul/Sub/Add (+ aliased receivers)", "a_limbs": a.hex(), "b_limbs": b.hex()})
	}
}

// cheapUnary: single-step routines on one element, with every aliasing form a method with a receiver admits
// (fe.Op(fe), fe.Op(fe, fe), x.Swap(x), ...).
func cheapUnary(c chk, a *el) {
	s := c.s
	cas := func() interface{} { return map[string]string{"a_limbs": a.hex()} }
	for _, cl := range []string{"tobytes", "square", "square2", "mul121666", "neg", "predicates", "condnegate"} {
		c.w.Eval(cl, a.unred)
	}
	c.w.EvalN("alias", 12, a.unred)
	var out, x field.Element

	// ToBytes is canonical (< p) on the raw input representation itself.
	c.val("ToBytes", &a.fe, a.v, bNone, cas)

	s.t.Mul(a.v, a.v)
	s.modP(s.t)
	out.Square(&a.fe)
	c.val("Square", &out, s.t, bReduced, cas)
	x = a.fe
	x.Square(&x)
	c.sameAs("Square/alias(fe,fe)", &x, &out, cas)
	// Mul with all three the same object, and with both operands the same object
	x = a.fe
	x.Mul(&x, &x)
	c.val("Mul/alias(fe,fe,fe)", &x, s.t, bReduced, cas)
	x.Mul(&a.fe, &a.fe)
	c.val("Mul/alias(a,a)", &x, s.t, bReduced, cas)
	if mulGeneric != nil {
		x = a.fe
		mulGeneric(&x, &x, &x)
		c.val("feMulGeneric/alias(fe,fe,fe)", &x, s.t, bReduced, cas)
	}

	s.u.Lsh(s.t, 1)
	norm(s.u)
	out.Square2(&a.fe)
	c.val("Square2", &out, s.u, bDouble, cas)
	x = a.fe
	x.Square2(&x)
	c.sameAs("Square2/alias(fe,fe)", &x, &out, cas)

	s.u.Mul(a.v, big121666)
	s.modP(s.u)
	out.Mul121666(&a.fe)
	c.val("Mul121666", &out, s.u, bReduced, cas)
	x = a.fe
	x.Mul121666(&x)
	c.sameAs("Mul121666/alias(fe,fe)", &x, &out, cas)

	s.u.Neg(a.v)
	norm(s.u)
	out.Neg(&a.fe)
	c.val("Neg", &out, s.u, bReduced, cas)
	x = a.fe
	x.Neg(&x)
	c.sameAs("Neg/alias(fe,fe)", &x, &out, cas)

	// x - x = 0, x + x = 2x with full aliasing
	x = a.fe
	x.Sub(&x, &x)
	c.val("Sub/alias(fe,fe,fe)", &x, zero, bReduced, cas)
	x = a.fe
	x.Add(&x, &x)
	s.u.Lsh(a.v, 1)
	norm(s.u)
	c.val("Add/alias(fe,fe,fe)", &x, s.u, bNone, cas)

	// predicates; Equal with itself and with a copy
	if got, want := a.fe.IsZero() == 1, a.v.Sign() == 0; got != want {
		c.w.Fail("IsZero", fmt.Sprintf("IsZero(limbs %s)=%v, value is %x", a.hex(), got, a.v), cas())
	}
	if got, want := a.fe.IsNegative() == 1, a.v.Bit(0) == 1; got != want {
		c.w.Fail("IsNegative", fmt.Sprintf("IsNegative(limbs %s)=%v, value is %x", a.hex(), got, a.v), cas())
	}
	x = a.fe
	if x.Equal(&x) != 1 || x.Equal(&a.fe) != 1 {
		c.w.Fail("Equal/alias(x,x)", "an element does not compare equal to itself", cas())
	}
	c.sameAs("Equal/modifies-operand", &x, &a.fe, cas)

	// conditional operations, complete choice domain, operands all the same object: the element must not change
	for ch := 0; ch <= 1; ch++ {
		x = a.fe
		x.ConditionalNegate(ch)
		s.u.Set(a.v)
		if ch == 1 {
			s.u.Neg(a.v)
			norm(s.u)
		}
		c.val("ConditionalNegate", &x, s.u, bNone, cas)
		x = a.fe
		x.ConditionalSwap(&x, ch)
		c.sameAs("ConditionalSwap/alias(x,x)", &x, &a.fe, cas)
		x.ConditionalAssign(&x, ch)
		c.sameAs("ConditionalAssign/alias(x,x)", &x, &a.fe, cas)
		x.ConditionalSelect(&x, &x, ch)
		c.sameAs("ConditionalSelect/alias(x,x,x)", &x, &a.fe, cas)
	}
	x = a.fe
	x.Set(&x)
	c.sameAs("Set/alias(x,x)", &x, &a.fe, cas)
}

var (
	big121666 = big.NewInt(121666)
	zero      = big.NewInt(0)
	one       = big.NewInt(1)
	pMinus1   = new(big.Int).Sub(ref.P, big.NewInt(1))
)

// unaryOps: every single-operand routine on the given elements.
func unaryOps(c *mc.Ctx, name string, es []*el) {
	n := len(es)
	c.Par(name, n, func(w *mc.W, i int) {
		s := pool.Get().(*scratch)
		defer pool.Put(s)
		heavyUnary(chk{w, s}, es[i], es[(i*31+7)%n])
		if i%997 == 0 {
			w.Sample(map[string]string{"op": "unary(Square,Square2,Pow2k,Mul121666,Neg,Invert,SqrtRatioI,ToBytes; aliased forms)", "a_limbs": es[i].hex()})
		}
	})
}

// heavyUnary: cheapUnary plus the Pow2k ladder (native and portable), Invert and SqrtRatioI(a, b), each also with the
// receiver aliasing its operand(s).
func heavyUnary(ck chk, a, b *el) {
	w, s := ck.w, ck.s
	cas := func() interface{} { return map[string]string{"a_limbs": a.hex()} }
	w.EvalN("pow2k", int64(len(pow2k)), a.unred)
	if pow2kGeneric != nil {
		w.EvalN("pow2k-generic", int64(len(pow2k)), a.unred)
	}
	w.Eval("invert", a.unred)
	w.EvalN("alias", int64(len(pow2k))+5, a.unred)
	cheapUnary(ck, a)

	// Pow2k for the listed k (incremental reference), native and portable.
	acc, tmp := new(big.Int).Set(a.v), new(big.Int)
	done := uint(0)
	for _, k := range pow2k {
		for ; done < k; done++ {
			tmp.Mul(acc, acc)
			s.modP(tmp)
			acc, tmp = tmp, acc
		}
		var out field.Element
		out.Pow2k(&a.fe, k)
		ck.val(fmt.Sprintf("Pow2k/k=%d", k), &out, acc, bReduced, cas)
		x := a.fe
		x.Pow2k(&x, k)
		ck.sameAs(fmt.Sprintf("Pow2k/alias(fe,fe)/k=%d", k), &x, &out, cas)
		if pow2kGeneric != nil {
			var g field.Element
			pow2kGeneric(&g, &a.fe, k)
			ck.val(fmt.Sprintf("fePow2kGeneric/k=%d", k), &g, acc, bReduced, cas)
			if k <= 5 {
				x = a.fe
				pow2kGeneric(&x, &x, k)
				ck.sameAs(fmt.Sprintf("fePow2kGeneric/alias(fe,fe)/k=%d", k), &x, &g, cas)
			}
		}
	}

	// Invert on an unreduced representation: a * a^-1 = 1, 0 -> 0 (the inverse is unique).
	var inv field.Element
	inv.Invert(&a.fe)
	field.VerifC04LimbsInto(&inv, &s.lb2)
	iv := s.modP(s.limbInt(s.lb2[:], new(big.Int)))
	if a.v.Sign() == 0 {
		ck.val("Invert/zero", &inv, zero, bReduced, cas)
	} else {
		s.t.Mul(iv, a.v)
		s.modP(s.t)
		if s.t.Cmp(one) != 0 {
			w.Fail("Invert", fmt.Sprintf("Invert(limbs %s) = %x, a*inv = %x", a.hex(), iv, s.t), cas())
		}
		ck.val("Invert", &inv, iv, bReduced, cas)
	}
	x := a.fe
	x.Invert(&x)
	ck.sameAs("Invert/alias(fe,fe)", &x, &inv, cas)

	// every method that returns *Element returns its receiver (callers chain on it)
	{
		var r field.Element
		names := []string{"Set", "Square", "Square2", "Mul", "Add", "Sub", "Neg", "Mul121666", "Pow2k", "Invert", "Zero", "One", "MinusOne"}
		rets := []*field.Element{r.Set(&a.fe), r.Square(&a.fe), r.Square2(&a.fe), r.Mul(&a.fe, &b.fe), r.Add(&a.fe, &b.fe), r.Sub(&a.fe, &b.fe),
			r.Neg(&a.fe), r.Mul121666(&a.fe), r.Pow2k(&a.fe, 1), r.Invert(&a.fe), r.Zero(), r.One(), r.MinusOne()}
		for k, p := range rets {
			if p != &r {
				w.Fail(names[k]+"/returns-receiver", names[k]+" does not return its receiver", cas())
			}
		}
		if p, _ := r.SqrtRatioI(&a.fe, &b.fe); p != &r {
			w.Fail("SqrtRatioI/returns-receiver", "SqrtRatioI does not return its receiver", cas())
		}
	}
	// InvSqrt works in place by design: it must agree with SqrtRatioI(1, a) computed into a distinct receiver
	var is0 field.Element
	_, fi0 := is0.SqrtRatioI(&field.One, &a.fe)
	x = a.fe
	ret, fi1 := x.InvSqrt()
	ck.sameAs("InvSqrt", &x, &is0, cas)
	if fi0 != fi1 || ret != &x {
		w.Fail("InvSqrt/flag", fmt.Sprintf("InvSqrt flag %d, SqrtRatioI(1, a) flag %d (returned receiver: %v)", fi1, fi0, ret == &x), cas())
	}
	sqrtCase(ck, &field.One, &a.fe, one, a.v, cas)

	// SqrtRatioI with the given representations on both sides, and with the receiver aliasing u, v, or both
	cas2 := func() interface{} { return map[string]string{"u_limbs": a.hex(), "v_limbs": b.hex()} }
	sqrtCase(ck, &a.fe, &b.fe, a.v, b.v, cas2)
	var r field.Element
	_, f0 := r.SqrtRatioI(&a.fe, &b.fe)
	x = a.fe
	_, f1 := x.SqrtRatioI(&x, &b.fe)
	ck.sameAs("SqrtRatioI/alias(fe=u)", &x, &r, cas2)
	x = b.fe
	_, f2 := x.SqrtRatioI(&a.fe, &x)
	ck.sameAs("SqrtRatioI/alias(fe=v)", &x, &r, cas2)
	if f1 != f0 || f2 != f0 {
		w.Fail("SqrtRatioI/alias-flag", fmt.Sprintf("SqrtRatioI flag depends on receiver aliasing: %d (distinct), %d (fe=u), %d (fe=v)", f0, f1, f2), cas2())
	}
	// u and v the same object: the non-negative square root of x/x = 1 - which is p-1 (the even one of +-1) - with flag 1
	// for x != 0; (1, 0) for x = 0 (u = 0 rule)
	wantSame := pMinus1
	if a.v.Sign() == 0 {
		wantSame = zero
	}
	_, f3 := r.SqrtRatioI(&a.fe, &a.fe)
	ck.val("SqrtRatioI/alias(u=v)", &r, wantSame, bReduced, cas)
	x = a.fe
	_, f4 := x.SqrtRatioI(&x, &x)
	ck.val("SqrtRatioI/alias(fe=u=v)", &x, wantSame, bReduced, cas)
	if f3 != 1 || f4 != 1 {
		w.Fail("SqrtRatioI/alias-flag", fmt.Sprintf("SqrtRatioI(x, x) flags %d, %d, want 1", f3, f4), cas())
	}
}

// sqrtCase checks SqrtRatioI(u, v) against the documented contract:
//
//	(1, +sqrt(u/v))   u/v square, v != 0     (1, 0) if u == 0
//	(0, 0)            v == 0, u != 0
//	(0, +sqrt(i*u/v)) u/v non-square
//
// The flag is decided independently with the Jacobi symbol of u*v; the root
// is decided by its defining equation: the non-negative r with r^2 v = u
// (resp. i u) is unique, so verifying the equation and the sign is an exact
// comparison with the documented value.
func sqrtCase(c chk, ufe, vfe *field.Element, u, v *big.Int, cas func() interface{}) {
	s := c.s
	var r field.Element
	_, flag := r.SqrtRatioI(ufe, vfe)
	l := field.VerifC04Limbs(&r)
	rv := s.modP(s.limbInt(l, new(big.Int)))
	c.val("SqrtRatioI/repr", &r, rv, bReduced, cas)
	var wantFlag int
	var class string
	switch {
	case u.Sign() == 0:
		wantFlag, class = 1, "sqrt/u=0"
	case v.Sign() == 0:
		wantFlag, class = 0, "sqrt/v=0"
	default:
		s.t.Mul(u, v)
		s.modP(s.t)
		if big.Jacobi(s.t, P) == 1 {
			wantFlag, class = 1, "sqrt/square"
		} else {
			wantFlag, class = 0, "sqrt/nonsquare"
		}
	}
	c.w.Eval(class, true)
	if flag != wantFlag {
		c.w.Fail("SqrtRatioI/flag", fmt.Sprintf("SqrtRatioI(u=%x, v=%x): flag %d, want %d (%s)", u, v, flag, wantFlag, class), cas())
		return
	}
	if rv.Bit(0) != 0 {
		c.w.Fail("SqrtRatioI/sign", fmt.Sprintf("SqrtRatioI(u=%x, v=%x) returned the negative root %x", u, v, rv), cas())
	}
	// r^2 * v must equal u (square) or i*u (non-square); both sides are 0 in the zero cases, where r must be 0.
	s.t.Mul(rv, rv)
	s.modP(s.t)
	s.t.Mul(s.t, v)
	s.modP(s.t)
	s.u.Set(u)
	if class == "sqrt/nonsquare" {
		s.u.Mul(s.u, ref.SqrtM1)
		s.modP(s.u)
	}
	if class == "sqrt/u=0" || class == "sqrt/v=0" {
		if rv.Sign() != 0 {
			c.w.Fail("SqrtRatioI/zero", fmt.Sprintf("SqrtRatioI(u=%x, v=%x) returned %x, want 0", u, v, rv), cas())
		}
		return
	}
	if s.t.Cmp(s.u) != 0 {
		c.w.Fail("SqrtRatioI/root", fmt.Sprintf("SqrtRatioI(u=%x, v=%x) = (%d, %x): r^2*v = %x, want %x", u, v, flag, rv, s.t, s.u), cas())
	}
}

// selfCheck validates the harness's own plumbing (limb -> integer conversion and the
// allocation-free reduction) against plain math/big before anything is compared with it.
func selfCheck(c *mc.Ctx) {
	s := pool.Get().(*scratch)
	defer pool.Put(s)
	for i := 0; i < 4096; i++ {
		b := mc.Bytes(c.Seed, "selfcheck", i, 64)
		t := ref.FromLE(b[:1+i%64])
		if i%3 == 0 {
			t.Mul(P, big.NewInt(int64(i)))
			t.Add(t, big.NewInt(int64(i%7)-3))
			t.Abs(t)
		}
		want := new(big.Int).Mod(t, P)
		if s.modP(new(big.Int).Set(t)).Cmp(want) != 0 {
			c.Broken(fmt.Sprintf("selfcheck: modP(%x) disagrees with big.Int.Mod", t))
			return
		}
		l := make([]uint64, nl)
		sum := new(big.Int)
		for k := range l {
			for j := 0; j < 8; j++ {
				l[k] |= uint64(b[(k*8+j)%64]) << (8 * j)
			}
			if !is64 {
				l[k] &= 0xffffffff
			}
			sum.Add(sum, new(big.Int).Lsh(new(big.Int).SetUint64(l[k]), shifts[k]))
		}
		if s.limbInt(l, new(big.Int)).Cmp(sum) != 0 {
			c.Broken(fmt.Sprintf("selfcheck: limbInt(%x) disagrees with the literal sum", l))
			return
		}
	}
}
