//go:build !amd64 || purego || force32bit

package main

import "github.com/oasisprotocol/curve25519-voi/internal/verif/mc"

// The AVX2 vector backend is not part of this build.
func vectorLanes(c *mc.Ctx) {
	c.Rep.Extra["vector_lanes"] = "not compiled into this configuration"
}
