// c08 is the trace target of the constant-time check: it runs a fixed list of
// constant-time entry points ("windows") for ONE secret assignment sigma, each
// bracketed by calls to the no-inline marker.  It is executed under
// valgrind --tool=lackey; the analyser (tools/c08an) requires window k to have
// identical instruction and data-address traces for all sigma.
//
// Everything outside the library calls must be sigma-independent in control
// flow AND allocation: secrets are materialised into a fixed-size blob by one
// code path before the first marker.
package main

import (
	"bytes"
	"crypto"
	"crypto/sha256"
	"crypto/sha512"
	"encoding/binary"
	"fmt"
	"os"
	"runtime/coverage"
	"strconv"
	"strings"

	"github.com/oasisprotocol/curve25519-voi/curve"
	"github.com/oasisprotocol/curve25519-voi/curve/scalar"
	"github.com/oasisprotocol/curve25519-voi/internal/field"
	"github.com/oasisprotocol/curve25519-voi/internal/subtle"
	"github.com/oasisprotocol/curve25519-voi/primitives/ed25519"
	"github.com/oasisprotocol/curve25519-voi/primitives/ed25519/extra/ecvrf"
	"github.com/oasisprotocol/curve25519-voi/primitives/sr25519"
	"github.com/oasisprotocol/curve25519-voi/primitives/x25519"
)

//go:noinline
func mark(id int) int { return id + 1 }

var sink int

// sinkB receives boolean results (converting them to int would be a secret-dependent branch of the harness itself,
// which the source-level pass - the harness package is instrumented too - would see).
var sinkB bool

const nBlob = 40

var blob [nBlob][64]byte

// Secret patterns by sigma.  0..5 are the quick tier.
var patterns = []int{0x00, 0xff, 0x88, 0x77, -1, -1,
	0x11, 0x22, 0x33, 0x44, 0x55, 0x66, 0x99, 0xaa, 0xbb, 0xcc, 0xdd, 0xee, 0xa5, 0x5a, 0x0f, 0xf0,
	-1, -1, -1, -1, -1, -1, -1, -1}

// lookup index by sigma: the quick tier covers {-8, 8, 0, -1, 1, 7}; all 17 values by sigma 16.
var lookupX = []int8{-8, 8, 0, -1, 1, 7, -7, -6, -5, -4, -3, -2, 2, 3, 4, 5, 6}

func fillBlob(sigma int) {
	pat := patterns[sigma%len(patterns)]
	var use byte // 0xff: use the hash, 0x00: use the pattern (selected without branching on the value)
	if pat < 0 {
		use = 0xff
	}
	for i := range blob {
		h := sha512.Sum512([]byte{byte(sigma), byte(i), 'c', '0', '8'})
		for j := range blob[i] {
			blob[i][j] = (h[j] & use) | (byte(pat) &^ use)
		}
	}
}

// blobReader hands out secret entropy from the blob.
type blobReader struct{ i int }

func (r *blobReader) Read(p []byte) (int, error) {
	for k := range p {
		p[k] = blob[30+(r.i/64)%8][r.i%64]
		r.i++
	}
	return len(p), nil
}

type window struct {
	name string
	f    func()
}

func fe(i int) *field.Element {
	var e field.Element
	_, _ = e.SetBytes(blob[i][:32])
	return &e
}

func sc(i int) *scalar.Scalar {
	s, _ := scalar.NewFromBits(blob[i][:32])
	return s
}

// lean is set for the core32 window list: fixtures and warm-ups that only the excluded windows need are skipped (on the
// 32-bit platform binary they would be most of the trace).
var lean bool

func main() {
	tier := "thorough"
	if len(os.Args) > 2 {
		tier = os.Args[2]
	}
	lean = tier == "core32"
	sel := func(all []window) []window {
		if tier == "large" {
			return largeWindows()
		}
		if tier == "core32" {
			// the windows traced on the 32-bit platform binary (GOARCH=386: 3-5x more instructions per operation and a
			// slower 32-bit valgrind): every primitive a secret flows through - selects, swaps, lookups, field and scalar
			// arithmetic, encodings, comparisons - plus one fixed-base and one variable-base multiplication and one ladder;
			// the long protocol-level windows are compositions of these and stay on amd64
			var out []window
			for _, w := range all {
				if !heavyDuplicate[w.name] && !heavy32[w.name] && !strings.HasPrefix(w.name, "history: ") {
					out = append(out, w)
				}
			}
			return out
		}
		if tier != "quick" {
			return all
		}
		var out []window
		for _, w := range all {
			if !heavyDuplicate[w.name] {
				out = append(out, w)
			}
		}
		return out
	}
	if len(os.Args) > 1 && os.Args[1] == "cov" {
		covMode()
		return
	}
	if len(os.Args) > 1 && os.Args[1] == "-list" {
		var base []window
		if tier != "large" {
			base = buildWindows(0)
		}
		for i, w := range sel(base) {
			fmt.Printf("%d %s\n", i, w.name)
		}
		return
	}
	sigma, _ := strconv.Atoi(os.Args[1])
	fillBlob(sigma)
	var base []window
	if tier != "large" {
		base = buildWindows(sigma)
	}
	ws := sel(base)
	sink += mark(-1)
	for i := range ws {
		ws[i].f()
		sink += mark(i)
	}
	fmt.Fprintln(os.Stdout, "done", len(ws), sink)
}

// covMode is the source-level pass (binary built with -cover -covermode=atomic over the library packages): every
// window of the complete list (plus the large ones) is run between coverage.ClearCounters and
// coverage.WriteCounters, and the SHA-256 of the counter file - the execution count of every source basic block of
// the library the window ran - is printed.  The secret assignment comes from the environment (C08_SIGMA), so the
// argument vector recorded in the counter file is the same for every secret; the orchestrator requires the hash of
// window k to be identical for all sigma.  C08_COVDUMP=<k>:<dir> additionally writes window k's meta-data and
// counter files into <dir> (for `go tool covdata textfmt`, to name the differing blocks).
func covMode() {
	sigma, _ := strconv.Atoi(os.Getenv("C08_SIGMA"))
	dumpK, dumpDir := -1, ""
	if d := os.Getenv("C08_COVDUMP"); d != "" {
		i := strings.IndexByte(d, ':')
		dumpK, _ = strconv.Atoi(d[:i])
		dumpDir = d[i+1:]
	}
	if len(os.Args) > 2 && os.Args[2] == "-list" {
		for i, w := range append(buildWindows(0), largeWindows()...) {
			fmt.Printf("%d %s\n", i, w.name)
		}
		return
	}
	fillBlob(sigma)
	ws := append(buildWindows(sigma), largeWindows()...)
	var buf bytes.Buffer
	// (without GOCOVERDIR the runtime only learns the counter mode when the meta-data is first emitted)
	if err := coverage.WriteMeta(&buf); err != nil {
		fmt.Fprintln(os.Stderr, "coverage.WriteMeta:", err)
		os.Exit(2)
	}
	for i := range ws {
		if err := coverage.ClearCounters(); err != nil {
			fmt.Fprintln(os.Stderr, "coverage.ClearCounters:", err)
			os.Exit(2)
		}
		ws[i].f()
		buf.Reset()
		if err := coverage.WriteCounters(&buf); err != nil {
			fmt.Fprintln(os.Stderr, "coverage.WriteCounters:", err)
			os.Exit(2)
		}
		if i == dumpK {
			if err := coverage.WriteMetaDir(dumpDir); err != nil {
				fmt.Fprintln(os.Stderr, "coverage.WriteMetaDir:", err)
				os.Exit(2)
			}
			if err := coverage.WriteCountersDir(dumpDir); err != nil {
				fmt.Fprintln(os.Stderr, "coverage.WriteCountersDir:", err)
				os.Exit(2)
			}
		}
		// counter file = 32-byte file header, 16-byte segment header {entries u64, strtab len u32, args len u32}, string
		// table and argument section (both laid out in map-iteration order: not compared), counter clauses, footer
		b := buf.Bytes()
		if len(b) < 64 {
			fmt.Fprintln(os.Stderr, "counter file too short")
			os.Exit(2)
		}
		skip := 48 + int(binary.LittleEndian.Uint32(b[40:])) + int(binary.LittleEndian.Uint32(b[44:]))
		if skip > len(b)-16 {
			fmt.Fprintln(os.Stderr, "counter file layout not understood")
			os.Exit(2)
		}
		pl := b[skip : len(b)-16]
		fmt.Printf("cov %d %x %d\n", i, sha256.Sum256(pl), len(pl))
	}
	fmt.Println("done", len(ws))
}

// heavy32: quick-tier windows that are not traced on the 32-bit platform binary (see core32 above).
var heavy32 = map[string]bool{
	"ed25519.Sign(pure)": true, "ed25519.PrivateKey.Sign(added randomness)": true,
	"x25519.X25519": true, "x25519.ScalarBaseMult": true,
	"EdwardsPoint.MulBasepoint(package table)": true, "EdwardsPoint.MultiscalarMul(n=3)": true,
	"sr25519.MiniSecretKey.ExpandUniform": true, "sr25519.MiniSecretKey.ExpandEd25519": true,
	"sr25519.SecretKey.PublicKey": true, "sr25519.KeyPair.Sign": true, "ecvrf.Prove": true,
	"sr25519.SecretKey.MarshalBinary": true,
	"sr25519.SecretKey.Equal": true, "sr25519.MiniSecretKey.Equal": true,
}

// heavyDuplicate: windows left to the thorough tier because a cheaper window of the quick tier drives the
// same library routine (wrappers, second/third variants of one algorithm).
var heavyDuplicate = map[string]bool{
	"ecvrf.Prove_v10": true, "ecvrf.ProveWithAddedRandomness": true,
	"x25519.ScalarMult":                true,
	"EdwardsPoint.MultiscalarMul(n=1)": true, "EdwardsPoint.MultiscalarMul(n=2)": true,
	"RistrettoPoint.MultiscalarMul(n=2)": true, "RistrettoPoint.Mul": true,
	"EdwardsPoint.Mul(secret P, secret s)": true,
	"ed25519.PrivateKey.Sign(ctx)":         true, "ed25519.PrivateKey.Sign(ph)": true,
	"sr25519.SecretKey.KeyPair": true, "x25519.X25519(Basepoint)": true,
	"history: Sign(zero key) ; Sign(secret key)": true, "history: sr25519 ExpandUniform+Sign(zero) ; (secret)": true,
	"RistrettoPoint.MulBasepoint(custom table)": true, "RistrettoPoint.MulBasepoint(package table)": true,
	"EdwardsPoint.MulBasepoint(custom table)": true,
}

func buildWindows(sigma int) []window {
	msg := []byte("public message, fixed for every secret")
	ph := sha512.Sum512(msg)

	// warm-up with public values so that lazy initialisation happens outside the windows
	{
		seedW := make([]byte, 32)
		seedW[0] = 9
		skW := ed25519.NewKeyFromSeed(seedW)
		if !lean {
			_ = ed25519.Sign(skW, msg)
			_ = ecvrf.Prove(skW, msg)
			var mskW sr25519.MiniSecretKey
			kpW := mskW.ExpandUniform().KeyPair()
			_, _ = kpW.Sign(&blobReader{}, sr25519.NewSigningContext([]byte("w")).NewTranscriptBytes(msg))
			_, _ = x25519.X25519(seedW, x25519.Basepoint)
		}
	}

	// secret-derived objects prepared OUTSIDE the windows (by constant-time library routines)
	seed := blob[0][:32]
	sk := ed25519.NewKeyFromSeed(seed)
	sk2 := ed25519.NewKeyFromSeed(blob[1][:32])
	s1, s2, s3 := sc(2), sc(3), sc(4)
	pubP := new(curve.EdwardsPoint)
	{
		k, _ := scalar.NewFromBits([]byte{7, 1, 2, 3, 4, 5, 6, 7, 8, 9, 10, 11, 12, 13, 14, 15, 16, 17, 18, 19, 20, 21, 22, 23, 24, 25, 26, 27, 28, 29, 30, 31})
		pubP.MulBasepoint(curve.ED25519_BASEPOINT_TABLE, k)
	}
	var pubTable *curve.EdwardsBasepointTable
	if !lean {
		pubTable = curve.NewEdwardsBasepointTable(pubP)
	}
	secP1, secP2, secP3 := new(curve.EdwardsPoint), new(curve.EdwardsPoint), new(curve.EdwardsPoint)
	secP1.MulBasepoint(curve.ED25519_BASEPOINT_TABLE, sc(5))
	secP2.MulBasepoint(curve.ED25519_BASEPOINT_TABLE, sc(6))
	secP3.Mul(pubP, sc(7))
	pubR := curve.VerifRistrettoFromEdwards(new(curve.EdwardsPoint).Add(pubP, pubP))
	secR1 := curve.VerifRistrettoFromEdwards(new(curve.EdwardsPoint).Add(secP1, secP1))
	secR2 := curve.VerifRistrettoFromEdwards(new(curve.EdwardsPoint).Add(secP2, secP2))
	var pubRTable *curve.RistrettoBasepointTable
	if !lean {
		pubRTable = curve.NewRistrettoBasepointTable(pubR)
	}
	var pubU curve.MontgomeryPoint
	pubU.SetEdwards(pubP)
	tables := curve.VerifNewLookupTables(pubP)
	x := lookupX[sigma%len(lookupX)]
	choice := int(blob[8][0] & 1)
	var msk sr25519.MiniSecretKey
	copy(msk[:], blob[9][:32])
	var ssk *sr25519.SecretKey
	var kp *sr25519.KeyPair
	if !lean {
		ssk = msk.ExpandUniform()
		kp = ssk.KeyPair()
	}
	// a second mini secret key / secret key: equal to the first for the patterned secrets (every blob entry holds
	// the same pattern), different for the generic ones - so the equality tests see both classes over the alphabet
	var msk2 sr25519.MiniSecretKey
	copy(msk2[:], blob[21][:32])
	var ssk2 *sr25519.SecretKey
	if !lean {
		ssk2 = msk2.ExpandUniform()
	}
	var mpA, mpB curve.MontgomeryPoint
	mpA.SetEdwards(secP1)
	mpB.SetEdwards(secP2)
	sctx := sr25519.NewSigningContext([]byte("public context"))
	f1, f2, f3 := fe(10), fe(11), fe(12)
	var xsk, xu, xout [32]byte
	copy(xsk[:], blob[13][:32])
	// secrets by the class of the RESULT: for sigma 1 the X25519 secret is a solved-for scalar (found at development time
	// with crypto/ecdh, independent of the library) whose shared secret with the fixed peer xu starts with two zero bytes
	// (0000 08d0 9b36 ...): a comparison of the output with the all-zero string that stops at the first non-zero byte
	// runs longer for this secret than for every other one
	if sigma == 1 {
		copy(xsk[:], []byte{0xa9, 0x45, 0xf7, 0x7e, 0xdf, 0xb6, 0x39, 0x71, 0xbf, 0xd7, 0x75, 0x89, 0x2d, 0xd3, 0x8a, 0x5d,
			0x8f, 0x42, 0x22, 0xd1, 0xec, 0x72, 0x6b, 0xb4, 0xa8, 0xad, 0x37, 0xcf, 0x66, 0xbd, 0x9c, 0x1b})
	}
	copy(xu[:], []byte{9, 0, 0, 0, 0, 77, 3, 1, 200, 9, 9, 9, 1, 2, 3, 4, 5, 6, 7, 8, 9, 8, 7, 6, 5, 4, 3, 2, 1, 0, 0, 0x11})
	var zero32 [32]byte
	var skZero ed25519.PrivateKey
	if !lean {
		skZero = ed25519.NewKeyFromSeed(zero32[:])
	}
	var (
		ep  curve.EdwardsPoint
		rp  curve.RistrettoPoint
		mp  curve.MontgomeryPoint
		cey curve.CompressedEdwardsY
		cr  curve.CompressedRistretto
		rs  scalar.Scalar
		rf  field.Element
		b32 [32]byte
	)

	W := []window{
		// --- Ed25519 key derivation and signing ---
		{"ed25519.NewKeyFromSeed", func() { _ = ed25519.NewKeyFromSeed(seed) }},
		{"ed25519.Sign(pure)", func() { _ = ed25519.Sign(sk, msg) }},
		{"ed25519.PrivateKey.Sign(ctx)", func() { _, _ = sk.Sign(nil, msg, &ed25519.Options{Context: "public ctx"}) }},
		{"ed25519.PrivateKey.Sign(ph)", func() { _, _ = sk.Sign(nil, ph[:], &ed25519.Options{Hash: crypto.SHA512}) }},
		{"ed25519.PrivateKey.Sign(added randomness)", func() { _, _ = sk.Sign(&blobReader{}, msg, &ed25519.Options{AddedRandomness: true}) }},
		{"ed25519.PrivateKey.Public/Seed", func() { _ = sk.Public(); _ = sk.Seed() }},
		{"ed25519.PrivateKey.Equal", func() { sinkB = sk.Equal(sk2) }},
		// --- X25519 ---
		{"x25519.ScalarMult", func() { x25519.ScalarMult(&xout, &xsk, &xu) }},
		{"x25519.ScalarBaseMult", func() { x25519.ScalarBaseMult(&xout, &xsk) }},
		{"x25519.X25519", func() { _, _ = x25519.X25519(xsk[:], xu[:]) }},
		{"x25519.X25519(Basepoint)", func() { _, _ = x25519.X25519(xsk[:], x25519.Basepoint) }},
		{"x25519.EdPrivateKeyToX25519", func() { _ = x25519.EdPrivateKeyToX25519(sk) }},
		{"MontgomeryPoint.Mul", func() { mp.Mul(&pubU, s1) }},
		// --- constant-time point multiplication ---
		{"EdwardsPoint.Mul(public P, secret s)", func() { ep.Mul(pubP, s1) }},
		{"EdwardsPoint.Mul(secret P, secret s)", func() { ep.Mul(secP1, s2) }},
		{"EdwardsPoint.MulBasepoint(package table)", func() { ep.MulBasepoint(curve.ED25519_BASEPOINT_TABLE, s1) }},
		{"EdwardsPoint.MulBasepoint(custom table)", func() { ep.MulBasepoint(pubTable, s2) }},
		{"EdwardsPoint.MultiscalarMul(n=1)", func() { ep.MultiscalarMul([]*scalar.Scalar{s1}, []*curve.EdwardsPoint{secP1}) }},
		{"EdwardsPoint.MultiscalarMul(n=2)", func() { ep.MultiscalarMul([]*scalar.Scalar{s1, s2}, []*curve.EdwardsPoint{secP1, pubP}) }},
		{"EdwardsPoint.MultiscalarMul(n=3)", func() {
			ep.MultiscalarMul([]*scalar.Scalar{s1, s2, s3}, []*curve.EdwardsPoint{secP1, secP2, secP3})
		}},
		{"EdwardsPoint.Add/Sub/Neg/MulByCofactor(secret points)", func() {
			ep.Add(secP1, secP2)
			ep.Sub(&ep, secP3)
			ep.Neg(&ep)
			ep.MulByCofactor(&ep)
		}},
		{"EdwardsPoint.Equal", func() { sink += ep.Equal(secP1) * 0; sink += secP1.Equal(secP2) * 0 }},
		{"EdwardsPoint.ConditionalSelect(secret choice)", func() { ep.ConditionalSelect(secP1, secP2, choice) }},
		{"CompressedEdwardsY.SetEdwardsPoint(secret point)", func() { cey.SetEdwardsPoint(secP1) }},
		{"CompressedEdwardsY.Equal", func() { var o curve.CompressedEdwardsY; o.SetEdwardsPoint(secP2); sink += cey.Equal(&o) * 0 }},
		{"MontgomeryPoint.SetEdwards(secret point)", func() { mp.SetEdwards(secP1) }},
		// --- Ristretto ---
		{"RistrettoPoint.Mul", func() { rp.Mul(secR1, s1) }},
		{"RistrettoPoint.MulBasepoint(package table)", func() { rp.MulBasepoint(curve.RISTRETTO_BASEPOINT_TABLE, s2) }},
		{"RistrettoPoint.MulBasepoint(custom table)", func() { rp.MulBasepoint(pubRTable, s2) }},
		{"RistrettoPoint.MultiscalarMul(n=2)", func() { rp.MultiscalarMul([]*scalar.Scalar{s1, s2}, []*curve.RistrettoPoint{secR1, secR2}) }},
		{"CompressedRistretto.SetRistrettoPoint(secret point)", func() { cr.SetRistrettoPoint(secR1) }},
		{"RistrettoPoint.Equal", func() { sink += secR1.Equal(secR2) * 0; sink += secR1.Equal(secR1) * 0 }},
		{"RistrettoPoint.SetUniformBytes(secret)", func() { _, _ = rp.SetUniformBytes(blob[14][:]) }},
		{"RistrettoPoint.ConditionalSelect(secret choice)", func() { rp.ConditionalSelect(secR1, secR2, choice) }},
		// --- scalar arithmetic ---
		{"Scalar.Add/Sub/Mul/Neg", func() { rs.Add(s1, s2); rs.Sub(&rs, s3); rs.Mul(&rs, s1); rs.Neg(&rs) }},
		// s1 and s2 are equal by value (distinct objects) for the patterned secrets and different for the generic ones
		{"Scalar.Mul/Add/Sub(equal or different operands)", func() { rs.Mul(s1, s2); rs.Add(s1, s2); rs.Sub(s1, s2) }},
		{"Scalar.Invert", func() { rs.Invert(s1) }},
		{"Scalar.Reduce", func() { rs.Reduce(s2) }},
		{"Scalar.SetBytesModOrderWide", func() { _, _ = rs.SetBytesModOrderWide(blob[15][:]) }},
		{"Scalar.SetBytesModOrder", func() { _, _ = rs.SetBytesModOrder(blob[16][:32]) }},
		{"Scalar.BatchInvert", func() {
			v := []*scalar.Scalar{scalar.New().Set(s1), scalar.New().Set(s2), scalar.New().Set(s3)}
			rs.BatchInvert(v)
		}},
		{"Scalar.Product/Sum", func() { rs.Product([]*scalar.Scalar{s1, s2, s3}); rs.Sum([]*scalar.Scalar{s1, s2, s3}) }},
		{"Scalar.ConditionalSelect(secret choice)", func() { rs.ConditionalSelect(s1, s2, choice) }},
		{"Scalar.Equal", func() { sink += s1.Equal(s2) * 0; sink += s1.Equal(s1) * 0 }},
		{"Scalar.ToRadix16", func() { r := s1.ToRadix16(); sink += int(r[0]) * 0 }},
		{"Scalar.Bits", func() { r := s1.Bits(); sink += int(r[0]) * 0 }},
		{"Scalar.ToBytes/MarshalBinary", func() { _ = s1.ToBytes(b32[:]); _, _ = s2.MarshalBinary() }},
		// --- field arithmetic ---
		{"field.Mul/Square/Square2/Add/Sub/Neg/Mul121666", func() {
			rf.Mul(f1, f2)
			rf.Square(&rf)
			rf.Square2(&rf)
			rf.Add(&rf, f3)
			rf.Sub(&rf, f1)
			rf.Neg(&rf)
			rf.Mul121666(&rf)
		}},
		{"field.Pow2k", func() { rf.Pow2k(f1, 5) }},
		{"field.Invert", func() { rf.Invert(f1) }},
		{"field.SqrtRatioI", func() { _, ok := rf.SqrtRatioI(f1, f2); sink += ok * 0 }},
		{"field.InvSqrt", func() { r := *f3; _, ok := r.InvSqrt(); sink += ok * 0 }},
		{"field.ToBytes", func() { _ = f1.ToBytes(b32[:]) }},
		{"field.SetBytes/SetBytesWide", func() { _, _ = rf.SetBytes(blob[17][:32]); _, _ = rf.SetBytesWide(blob[18][:]) }},
		{"field.Equal/IsNegative/IsZero", func() { sink += (f1.Equal(f2) + f1.IsNegative() + f1.IsZero() + f1.Equal(f1)) * 0 }},
		{"field.ConditionalSelect/Swap/Assign/Negate(secret choice)", func() {
			a, b := *f1, *f2
			rf.ConditionalSelect(&a, &b, choice)
			a.ConditionalSwap(&b, choice)
			a.ConditionalAssign(&b, choice)
			a.ConditionalNegate(choice)
		}},
		{"field.BatchInvert", func() {
			a, b, c := *f1, *f2, *f3
			field.BatchInvert([]*field.Element{&a, &b, &c})
		}},
		// --- table lookups: secret index x (complete domain [-8, 8] over the sigmas) ---
		{"projectiveNielsPointLookupTable.Lookup(secret x)", func() { tables.LookupPN(x) }},
		{"affineNielsPointLookupTable.Lookup(secret x)", func() { tables.LookupAN(x) }},
		{"cachedPointLookupTable.Lookup(secret x)", func() {
			if tables.HasCached {
				tables.LookupCached(x)
			}
		}},
		// --- internal/subtle ---
		{"subtle.*", func() {
			a, b := blob[19][0], blob[20][0]
			u1, u2 := uint64(blob[19][1])<<40, uint64(blob[20][1])<<40
			v1, v2 := uint32(blob[19][2])<<20, uint32(blob[20][2])<<20
			sink += subtle.ConstantTimeCompareByte(a, b) * 0
			sink += subtle.ConstantTimeCompareBytes(blob[19][:], blob[20][:]) * 0
			sink += int(subtle.ConstantTimeSelectByte(choice, a, b)) * 0
			sink += int(subtle.ConstantTimeSelectUint64(choice, u1, u2)) * 0
			subtle.ConstantTimeSwapUint64(choice, &u1, &u2)
			sink += int(subtle.ConstantTimeSelectUint32(choice, v1, v2)) * 0
			subtle.ConstantTimeSwapUint32(choice, &v1, &v2)
		}},
		// --- sr25519 ---
		{"sr25519.MiniSecretKey.ExpandUniform", func() { _ = msk.ExpandUniform() }},
		{"sr25519.MiniSecretKey.ExpandEd25519", func() { _ = msk.ExpandEd25519() }},
		{"sr25519.SecretKey.PublicKey", func() { _ = ssk.PublicKey() }},
		{"sr25519.SecretKey.KeyPair", func() { _ = ssk.KeyPair() }},
		{"sr25519.KeyPair.Sign", func() { _, _ = kp.Sign(&blobReader{}, sctx.NewTranscriptBytes(msg)) }},
		{"sr25519.SecretKey.MarshalBinary", func() { _, _ = ssk.MarshalBinary() }},
		{"sr25519.SecretKey.Equal", func() { sinkB = ssk.Equal(ssk2); sinkB = ssk.Equal(ssk) }},
		{"sr25519.MiniSecretKey.Equal", func() { sinkB = msk.Equal(&msk2); sinkB = msk.Equal(&msk) }},
		{"MontgomeryPoint.Equal(secret points)", func() { sink += (mpA.Equal(&mpB) + mpA.Equal(&mpA)) * 0 }},
		// --- "same secret as the previous call?" ---
		// Each window is preceded (outside the window's own call, but inside the same process history) by the same
		// entry point on the all-zero secret, which is the sigma0 value: for sigma0 the window repeats the previous
		// call's secret, for every other sigma it does not.  A cache of the last secret (or of anything derived from
		// it) that is consulted with a branch makes the two traces differ.
		{"history: NewKeyFromSeed(zero) ; NewKeyFromSeed(secret)", func() { _ = ed25519.NewKeyFromSeed(zero32[:]); _ = ed25519.NewKeyFromSeed(seed) }},
		{"history: Sign(zero key) ; Sign(secret key)", func() { _ = ed25519.Sign(skZero, msg); _ = ed25519.Sign(sk, msg) }},
		{"history: ecvrf.Prove(zero key) ; ecvrf.Prove(secret key)", func() { _ = ecvrf.Prove(skZero, msg); _ = ecvrf.Prove(sk, msg) }},
		{"history: ScalarBaseMult(zero) ; ScalarBaseMult(secret)", func() { x25519.ScalarBaseMult(&xout, &zero32); x25519.ScalarBaseMult(&xout, &xsk) }},
		{"history: sr25519 ExpandUniform+Sign(zero) ; (secret)", func() {
			var z sr25519.MiniSecretKey
			kz := z.ExpandUniform().KeyPair()
			_, _ = kz.Sign(&blobReader{}, sctx.NewTranscriptBytes(msg))
			k2 := msk.ExpandUniform().KeyPair()
			_, _ = k2.Sign(&blobReader{}, sctx.NewTranscriptBytes(msg))
		}},
		// --- ECVRF ---
		{"ecvrf.Prove", func() { _ = ecvrf.Prove(sk, msg) }},
		{"ecvrf.Prove_v10", func() { _ = ecvrf.Prove_v10(sk, msg) }},
		{"ecvrf.ProveWithAddedRandomness", func() { _, _ = ecvrf.ProveWithAddedRandomness(&blobReader{}, sk, msg) }},
	}
	return W
}

// largeWindows: the constant-time multiscalar multiplication at term counts on both sides of the size at which
// the VARIABLE-time routines switch algorithm (190): the constant-time entry point must not follow them.
func largeWindows() []window {
	mk := func(n int) window {
		ss := make([]*scalar.Scalar, n)
		ps := make([]*curve.EdwardsPoint, n)
		for i := range ss {
			ss[i] = sc(i % 8)
			ps[i] = curve.ED25519_BASEPOINT_POINT
		}
		var ep curve.EdwardsPoint
		return window{fmt.Sprintf("EdwardsPoint.MultiscalarMul(n=%d, secret scalars)", n), func() { ep.MultiscalarMul(ss, ps) }}
	}
	var rp curve.RistrettoPoint
	rs := make([]*scalar.Scalar, 190)
	rps := make([]*curve.RistrettoPoint, 190)
	for i := range rs {
		rs[i] = sc(i % 8)
		rps[i] = curve.RISTRETTO_BASEPOINT_POINT
	}
	return []window{mk(16), mk(190), {"RistrettoPoint.MultiscalarMul(n=190, secret scalars)", func() { rp.MultiscalarMul(rs, rps) }}}
}
