// Package mc holds the small engines shared by all checks: a deterministic
// bounded-exhaustive enumerator (Par/Product), report/evidence plumbing and
// replay-by-index.  Nothing in here makes a random choice: "generic" values
// are derived from the seed with SHA-512, so a run with the same seed
// enumerates exactly the same finite space.
package mc

import (
	"crypto/sha512"
	"encoding/binary"
	"encoding/json"
	"flag"
	"fmt"
	"os"
	"runtime"
	"sort"
	"strconv"
	"strings"
	"sync"
	"sync/atomic"
	"time"
)

// Violation is one failing case; Sub/Index identify it for replay.
type Violation struct {
	Sub    string      `json:"sub"`
	Index  int         `json:"index"`
	Key    string      `json:"key"` // canonical failing-input class (matched against known_findings.json)
	Desc   string      `json:"desc"`
	Case   interface{} `json:"case,omitempty"`
	Config string      `json:"config"`
	// NoReplay marks a violation observed on input the harness does not control (bytes drawn from the operating
	// system's entropy source by a nil-reader default): it cannot be re-enumerated by index; the description carries the
	// concrete input so that it can be re-checked by hand, and the driver believes it without a replay.
	NoReplay bool `json:"noreplay,omitempty"`
}

// Report is what one harness process hands back to the driver.
type Report struct {
	Property    string                 `json:"property"`
	Config      string                 `json:"config"`
	Tier        string                 `json:"tier"`
	Seed        int64                  `json:"seed"`
	Evaluations int64                  `json:"evaluations"`
	Nontrivial  int64                  `json:"distinct_nontrivial"`
	Classes     map[string]int64       `json:"classes"`
	Subs        map[string]int64       `json:"subs"` // evaluations per named sub-space
	States      int64                  `json:"states"`
	Transitions int64                  `json:"transitions"`
	Traces      int64                  `json:"traces_validated_against_impl"`
	Schedules   int64                  `json:"schedules,omitempty"`
	Programs    int64                  `json:"programs,omitempty"`
	Samples     []interface{}          `json:"samples"`
	Violations  []Violation            `json:"violations"`
	NViolations int64                  `json:"n_violations"`
	Exhaustive  bool                   `json:"exhaustive"`
	Caps        []string               `json:"caps"`
	Extra       map[string]interface{} `json:"extra,omitempty"`
	Broken      []string               `json:"broken"` // vacuity-guard / harness failures (exit 2)
	WallS       float64                `json:"wall_s"`
}

// Ctx is the per-process context handed to a check.
type Ctx struct {
	Tier     string
	Thorough bool
	Seed     int64
	Config   string
	Rep      *Report
	onlySub  string
	onlyIdx  int
	shardI   int
	shardN   int
	mu       sync.Mutex
	maxViol  int
	perKey   map[string]int
	start    time.Time
	out      string
	// CaseTimeout is the watchdog limit for one enumerated case (0 disables it).
	CaseTimeout time.Duration
	wmu         sync.Mutex
	live        map[*W]struct{}
}

// W is a worker-local accumulator (no locking on the hot path).
type W struct {
	c       *Ctx
	sub     string
	idx     int
	evals   int64
	nontriv int64
	classes map[string]int64
	viol    []Violation
	nviol   int64
	vkeys   map[string]int
	samples []interface{}
	t0      int64 // start of the running case (unix nanoseconds, 0 = idle); read by the watchdog
	cur     int64 // index of the running case
}

// Main parses the common flags, runs the check and writes the report.
func Main(property string, run func(c *Ctx)) {
	tier := flag.String("tier", "quick", "quick|thorough")
	seed := flag.Int64("seed", 1, "seed for derived generic values")
	cfg := flag.String("config", "avx2", "configuration label")
	out := flag.String("out", "", "report file")
	only := flag.String("only", "", "replay: sub:index")
	shard := flag.String("shard", "0/1", "i/n process-level shard")
	flag.Parse()
	c := &Ctx{Tier: *tier, Thorough: *tier == "thorough", Seed: *seed, Config: *cfg, maxViol: 20, start: time.Now(), out: *out, onlyIdx: -1, shardN: 1}
	if *only != "" {
		k := strings.LastIndex(*only, ":")
		c.onlySub = (*only)[:k]
		c.onlyIdx, _ = strconv.Atoi((*only)[k+1:])
	}
	fmt.Sscanf(*shard, "%d/%d", &c.shardI, &c.shardN)
	c.Rep = &Report{Property: property, Config: *cfg, Tier: *tier, Seed: *seed, Classes: map[string]int64{}, Subs: map[string]int64{}, Exhaustive: true, Extra: map[string]interface{}{}}
	c.CaseTimeout = 300 * time.Second
	if v, err := strconv.Atoi(os.Getenv("VERIF_CASE_TIMEOUT")); err == nil && v > 0 {
		c.CaseTimeout = time.Duration(v) * time.Second
	}
	go c.watchdog()
	func() {
		defer func() {
			if r := recover(); r != nil {
				buf := make([]byte, 1<<14)
				n := runtime.Stack(buf, false)
				c.Broken(fmt.Sprintf("harness panic: %v\n%s", r, buf[:n]))
			}
		}()
		run(c)
	}()
	c.Finish()
}

// watchdog turns a case that does not return into a violation ("hang") instead of a driver timeout: every
// enumerated case takes micro- to milliseconds (the slowest, scheduler explorations of one program, seconds), so a
// case still running after CaseTimeout (default 300 s, VERIF_CASE_TIMEOUT) is a non-terminating library call.  The
// report written is what the finished workers have merged so far plus the hanging case.
func (c *Ctx) watchdog() {
	for {
		time.Sleep(2 * time.Second)
		if c.CaseTimeout <= 0 {
			continue
		}
		now := time.Now().UnixNano()
		c.wmu.Lock()
		var hung *W
		running := false
		for w := range c.live {
			t := atomic.LoadInt64(&w.t0)
			running = running || t != 0
			if t != 0 && now-t > int64(c.CaseTimeout) {
				hung = w
				break
			}
		}
		c.wmu.Unlock()
		if hung == nil && !running && c.onlySub == "" && now-atomic.LoadInt64(&lastProgress) > 4*int64(c.CaseTimeout) {
			c.mu.Lock()
			c.Rep.NViolations++
			c.Rep.Violations = append(c.Rep.Violations, Violation{Sub: "(set-up between sub-spaces)", Index: -1, Key: "hang/setup", Config: c.Config, NoReplay: true,
				Desc: fmt.Sprintf("no enumerated case has run for %v: the construction of an alphabet or fixture that calls the library does not terminate (on the unchanged tree these phases take seconds)", 4*c.CaseTimeout)})
			c.Rep.Exhaustive = false
			c.mu.Unlock()
			c.Finish()
		}
		if hung == nil {
			continue
		}
		c.mu.Lock()
		c.Rep.NViolations++
		c.Rep.Violations = append(c.Rep.Violations, Violation{Sub: hung.sub, Index: int(atomic.LoadInt64(&hung.cur)), Key: "hang", Config: c.Config,
			Desc: fmt.Sprintf("case did not return within %v (non-terminating call)", c.CaseTimeout)})
		c.Rep.Exhaustive = false
		c.mu.Unlock()
		c.Finish()
	}
}

func (c *Ctx) track(w *W) {
	c.wmu.Lock()
	if c.live == nil {
		c.live = map[*W]struct{}{}
	}
	c.live[w] = struct{}{}
	c.wmu.Unlock()
}

func (c *Ctx) untrack(w *W) {
	c.wmu.Lock()
	delete(c.live, w)
	c.wmu.Unlock()
}

func (w *W) begin(i int) {
	w.idx = i
	atomic.StoreInt64(&w.cur, int64(i))
	atomic.StoreInt64(&w.t0, time.Now().UnixNano())
}

func (w *W) end() {
	atomic.StoreInt64(&w.t0, 0)
	atomic.StoreInt64(&lastProgress, time.Now().UnixNano())
}

// lastProgress is the time the last enumerated case finished (or the process started).  Between sub-spaces the harness
// builds alphabets and fixtures, partly with library calls ("take generic strings until 32 of them decode"): a changed
// library can make such a loop spin for ever.  That is the library's doing - on the unchanged tree the set-up phases
// take seconds - so the watchdog reports a process that has no case running and has not finished one for
// 4 x CaseTimeout (20 min by default) as the violation "hang/setup" instead of leaving it to the driver's
// time limit (which could only call it a broken check).
var lastProgress = time.Now().UnixNano()

// Finish writes the report and exits (0 ok, 1 violations, 2 broken).
func (c *Ctx) Finish() {
	c.mu.Lock() // never released: the process exits below (keeps late merges out of the report being written)
	r := c.Rep
	r.WallS = time.Since(c.start).Seconds()
	sort.SliceStable(r.Violations, func(i, j int) bool {
		if r.Violations[i].Sub != r.Violations[j].Sub {
			return r.Violations[i].Sub < r.Violations[j].Sub
		}
		return r.Violations[i].Index < r.Violations[j].Index
	})
	b, _ := json.MarshalIndent(r, "", " ")
	if c.out != "" {
		_ = os.WriteFile(c.out, b, 0o644)
	} else {
		os.Stdout.Write(b)
	}
	if len(r.Broken) > 0 {
		fmt.Fprintln(os.Stderr, "BROKEN:", strings.Join(r.Broken, "; "))
		os.Exit(2)
	}
	if r.NViolations > 0 {
		os.Exit(1)
	}
	os.Exit(0)
}

// Broken records a harness/vacuity failure (never a violation).
func (c *Ctx) Broken(msg string) {
	c.mu.Lock()
	c.Rep.Broken = append(c.Rep.Broken, msg)
	c.mu.Unlock()
}

// Cap records that a bound was hit; the run is then not exhaustive.
func (c *Ctx) Cap(msg string) {
	c.mu.Lock()
	c.Rep.Caps = append(c.Rep.Caps, msg)
	c.Rep.Exhaustive = false
	c.mu.Unlock()
}

// Require is a vacuity guard evaluated on reference-side counts only.
func (c *Ctx) Require(class string, min int64) {
	if c.onlySub != "" || c.shardN > 1 {
		return
	}
	// a case that panicked (or failed early) may not have been counted: once a violation is on record the guards
	// are moot - a violation must never be turned into a harness error
	if c.Rep.NViolations > 0 {
		return
	}
	if c.Rep.Classes[class] < min {
		c.Broken(fmt.Sprintf("vacuity guard: class %q has %d < %d cases", class, c.Rep.Classes[class], min))
	}
}

// Replaying reports whether this process replays a single case.
func (c *Ctx) Replaying() bool { return c.onlySub != "" }

// Pick returns quick or thorough value.
func (c *Ctx) Pick(quick, thorough int) int {
	if c.Thorough {
		return thorough
	}
	return quick
}

func (c *Ctx) merge(w *W) {
	c.mu.Lock()
	defer c.mu.Unlock()
	r := c.Rep
	r.Evaluations += w.evals
	r.Nontrivial += w.nontriv
	r.Subs[w.sub] += w.evals
	for k, v := range w.classes {
		r.Classes[k] += v
	}
	r.NViolations += w.nviol
	// keep a few representatives per distinct key (input class), lowest indices first
	for _, v := range w.viol {
		if c.perKey == nil {
			c.perKey = map[string]int{}
		}
		if c.perKey[v.Key] < 3 && len(r.Violations) < 200 {
			c.perKey[v.Key]++
			r.Violations = append(r.Violations, v)
		} else {
			for i := range r.Violations {
				if r.Violations[i].Key == v.Key && r.Violations[i].Sub == v.Sub && r.Violations[i].Index > v.Index {
					r.Violations[i] = v
					break
				}
			}
		}
	}
	for _, s := range w.samples {
		if len(r.Samples) < 24 {
			r.Samples = append(r.Samples, s)
		}
	}
}

// Par enumerates indices [0,n) of the named sub-space on all cores.  Every
// index is visited exactly once (or only the replayed one).
func (c *Ctx) Par(sub string, n int, f func(w *W, i int)) { c.par(sub, n, f, false) }

// ParAlways is Par for sub-spaces whose results feed later sub-spaces (BFS
// levels): when another sub-space is being replayed it still runs completely,
// with its counts and verdicts discarded, so that the later frontier is rebuilt.
func (c *Ctx) ParAlways(sub string, n int, f func(w *W, i int)) { c.par(sub, n, f, true) }

// ReplayingSub reports whether exactly this sub-space is being replayed.
func (c *Ctx) ReplayingSub(sub string) bool { return c.onlySub == sub }

func (c *Ctx) par(sub string, n int, f func(w *W, i int), always bool) {
	discard := false
	if c.onlySub != "" && c.onlySub != sub && always {
		discard = true
	} else if c.onlySub != "" {
		if c.onlySub != sub {
			return
		}
		w := &W{c: c, sub: sub, classes: map[string]int64{}}
		if c.onlyIdx >= 0 && c.onlyIdx < n {
			c.track(w)
			w.begin(c.onlyIdx)
			func() {
				defer func() {
					if r := recover(); r != nil {
						buf := make([]byte, 4096)
						m := runtime.Stack(buf, false)
						w.Fail("panic", fmt.Sprintf("unexpected panic in case: %v\n%s", r, buf[:m]), nil)
					}
				}()
				f(w, c.onlyIdx)
			}()
			w.end()
			c.untrack(w)
		}
		c.merge(w)
		return
	}
	workers := runtime.GOMAXPROCS(0)
	if workers > n {
		workers = n
	}
	if workers < 1 {
		workers = 1
	}
	var wg sync.WaitGroup
	var next int64
	var nmu sync.Mutex
	const chunk = 64
	ch := chunk
	if n < workers*chunk*4 {
		ch = 1
	}
	for k := 0; k < workers; k++ {
		wg.Add(1)
		go func() {
			defer wg.Done()
			w := &W{c: c, sub: sub, classes: map[string]int64{}}
			if !discard {
				defer c.merge(w)
			}
			c.track(w)
			defer c.untrack(w)
			for {
				nmu.Lock()
				lo := int(next)
				next += int64(ch)
				nmu.Unlock()
				if lo >= n {
					return
				}
				hi := lo + ch
				if hi > n {
					hi = n
				}
				for i := lo; i < hi; i++ {
					if !discard && c.shardN > 1 && i%c.shardN != c.shardI {
						continue
					}
					w.begin(i)
					func() {
						defer func() {
							if r := recover(); r != nil {
								buf := make([]byte, 4096)
								m := runtime.Stack(buf, false)
								w.Fail("panic", fmt.Sprintf("unexpected panic in case: %v\n%s", r, buf[:m]), nil)
							}
						}()
						f(w, i)
					}()
					w.end()
				}
			}
		}()
	}
	wg.Wait()
}

// Seq is Par on one goroutine (for engines that own global state).
func (c *Ctx) Seq(sub string, n int, f func(w *W, i int)) {
	w := &W{c: c, sub: sub, classes: map[string]int64{}}
	defer c.merge(w)
	c.track(w)
	defer c.untrack(w)
	for i := 0; i < n; i++ {
		if c.onlySub != "" && (c.onlySub != sub || c.onlyIdx != i) {
			continue
		}
		if c.onlySub == "" && c.shardN > 1 && i%c.shardN != c.shardI {
			continue
		}
		w.begin(i)
		f(w, i)
		w.end()
	}
}

// Eval counts one evaluated case in a reference-side class.
func (w *W) Eval(class string, nontrivial bool) {
	w.evals++
	w.classes[class]++
	if nontrivial {
		w.nontriv++
	}
}

// EvalN counts n evaluations of one class.
func (w *W) EvalN(class string, n int64, nontrivial bool) {
	w.evals += n
	w.classes[class] += n
	if nontrivial {
		w.nontriv += n
	}
}

// Sample keeps a few explored cases for the evidence file.
func (w *W) Sample(s interface{}) {
	if len(w.samples) < 2 {
		w.samples = append(w.samples, s)
	}
}

// Fail records a violation of the property on the current case.
func (w *W) Fail(key, desc string, cas interface{}) {
	w.nviol++
	if w.vkeys == nil {
		w.vkeys = map[string]int{}
	}
	if w.vkeys[key] < 3 && len(w.viol) < 200 {
		w.vkeys[key]++
		w.viol = append(w.viol, Violation{Sub: w.sub, Index: w.idx, Key: key, Desc: desc, Case: cas, Config: w.c.Config})
	}
}

// FailNoReplay is Fail for a case whose input came from the operating system's entropy source (see Violation.NoReplay).
func (w *W) FailNoReplay(key, desc string, cas interface{}) {
	n := len(w.viol)
	w.Fail(key, desc, cas)
	if len(w.viol) > n {
		w.viol[len(w.viol)-1].NoReplay = true
	}
}

// Idx is the current index.
func (w *W) Idx() int { return w.idx }

// Bytes derives n deterministic "generic" bytes from (seed, name, i).
func Bytes(seed int64, name string, i int, n int) []byte {
	var out []byte
	ctr := uint32(0)
	for len(out) < n {
		h := sha512.New()
		var b [16]byte
		binary.LittleEndian.PutUint64(b[:], uint64(seed))
		binary.LittleEndian.PutUint32(b[8:], uint32(i))
		binary.LittleEndian.PutUint32(b[12:], ctr)
		h.Write([]byte("VERIF"))
		h.Write(b[:])
		h.Write([]byte(name))
		out = h.Sum(out)
		ctr++
	}
	return out[:n]
}

// Product is a mixed-radix counter: Decode(i) gives the digit tuple of i.
type Product struct{ Radix []int }

func (p Product) Size() int {
	n := 1
	for _, r := range p.Radix {
		n *= r
	}
	return n
}

func (p Product) Decode(i int, out []int) {
	for k := len(p.Radix) - 1; k >= 0; k-- {
		out[k] = i % p.Radix[k]
		i /= p.Radix[k]
	}
}

// Hex is a convenience for samples/cases.
func Hex(b []byte) string { return fmt.Sprintf("%x", b) }
