//go:build verifmin

package edpts

import (
	"bytes"
	"math/big"

	"github.com/oasisprotocol/curve25519-voi/curve"
	"github.com/oasisprotocol/curve25519-voi/internal/verif/ref"
)

// Reduced variant: the coordinate accessors grafted into package curve did not
// compile against the tree under test and were dropped by the driver.  Points
// are then built and read back through the public API only (the library's own
// decoder / encoder / addition), which keeps every black-box oracle alive but
// loses (a) the well-formedness test T*Z = X*Y of internal representations,
// (b) exact-coordinate comparisons, (c) reference-built projective scalings and
// (d) arbitrary ristretto coset representatives.  The harnesses record this
// with c.Cap; nothing here can raise an alarm that the full variant would not.
const Reduced = true

// FromRef decodes the reference encoding with the library (Z = 1).
func FromRef(p ref.Point) *curve.EdwardsPoint {
	var q curve.EdwardsPoint
	if err := q.UnmarshalBinary(p.Encode()); err != nil {
		panic("edpts(verifmin): the library does not decode a reference encoding: " + err.Error())
	}
	return &q
}

// FromRefScaled returns a Z != 1 representation produced by library arithmetic: (P - Q) + Q with Q = [2 + l mod 5]B.
func FromRefScaled(p ref.Point, l *big.Int) *curve.EdwardsPoint {
	k := new(big.Int).Add(big.NewInt(2), new(big.Int).Mod(l, big.NewInt(5)))
	q := ref.Base.Mul(k)
	var r curve.EdwardsPoint
	r.Add(FromRef(p.Sub(q)), FromRef(q))
	return &r
}

// Rescale returns another representation of the same point: p + O by the library.
func Rescale(p *curve.EdwardsPoint, l *big.Int) *curve.EdwardsPoint {
	var r curve.EdwardsPoint
	r.Add(p, curve.NewEdwardsPoint())
	return &r
}

// Coords returns (x, y, 1, xy) of the point the library ENCODES p as.
func Coords(p *curve.EdwardsPoint) (x, y, z, t *big.Int) {
	b, err := p.MarshalBinary()
	q, ok, _ := ref.Decode(b)
	if err != nil || !ok {
		return big.NewInt(0), big.NewInt(0), big.NewInt(0), big.NewInt(0) // malformed: Z = 0
	}
	return ref.FMod(q.X), ref.FMod(q.Y), big.NewInt(1), ref.FMul(q.X, q.Y)
}

// SameCoords degrades to "same encoding".
func SameCoords(a, b *curve.EdwardsPoint) bool {
	ab, e1 := a.MarshalBinary()
	bb, e2 := b.MarshalBinary()
	return e1 == nil && e2 == nil && bytes.Equal(ab, bb)
}

// WrapRistretto: without the hook only the canonical representative of the element can be built.
func WrapRistretto(p *curve.EdwardsPoint) *curve.RistrettoPoint {
	b, _ := p.MarshalBinary()
	q, ok, _ := ref.Decode(b)
	var r curve.RistrettoPoint
	if !ok || r.UnmarshalBinary(ref.RistrettoEncode(q)) != nil {
		panic("edpts(verifmin): cannot build a ristretto point through the public API")
	}
	return &r
}

// InnerOfRistretto: the canonical representative of the element the library encodes r as.
func InnerOfRistretto(r *curve.RistrettoPoint) *curve.EdwardsPoint {
	b, err := r.MarshalBinary()
	q, ok := ref.RistrettoDecode(b)
	if err != nil || !ok {
		return new(curve.EdwardsPoint) // malformed (all-zero coordinates)
	}
	return FromRef(q)
}
