// Package edpts bridges reference points (package ref, math/big) and library
// points: it builds curve.EdwardsPoint values directly from reference
// coordinates through the verification hooks (never through the library's own
// decoder or arithmetic), in several projective representations, and reads
// library points back as affine big integers.
package edpts

import (
	"math/big"

	"github.com/oasisprotocol/curve25519-voi/curve"
	"github.com/oasisprotocol/curve25519-voi/internal/verif/mc"
	"github.com/oasisprotocol/curve25519-voi/internal/verif/ref"
)

// Affine reads a library point back.  ok is false when the representation is
// malformed: Z = 0, T*Z != X*Y, or the affine point is not on the curve.
func Affine(p *curve.EdwardsPoint) (ref.Point, bool) {
	x, y, z, t := Coords(p)
	if z.Sign() == 0 {
		return ref.Point{}, false
	}
	if ref.FMul(t, z).Cmp(ref.FMul(x, y)) != 0 {
		return ref.Point{}, false
	}
	zi := ref.FInv(z)
	q := ref.Point{X: ref.FMul(x, zi), Y: ref.FMul(y, zi)}
	return q, q.OnCurve()
}

// Is reports whether the library point is a well-formed representation of the reference point.
func Is(p *curve.EdwardsPoint, want ref.Point) bool {
	q, ok := Affine(p)
	return ok && q.Equal(want)
}

// IsExactIdentity reports whether the coordinates are exactly (0 : 1 : 1 : 0).
func IsExactIdentity(p *curve.EdwardsPoint) bool {
	x, y, z, t := Coords(p)
	return x.Sign() == 0 && y.Cmp(big.NewInt(1)) == 0 && z.Cmp(big.NewInt(1)) == 0 && t.Sign() == 0
}

// Lambdas returns the rescaling factors {1, 2, -1, generic...} (n generic ones).
func Lambdas(seed int64, ngeneric int) []*big.Int {
	out := []*big.Int{big.NewInt(1), big.NewInt(2), ref.FNeg(big.NewInt(1))}
	for i := 0; i < ngeneric; i++ {
		v := ref.FMod(ref.FromLE(mc.Bytes(seed, "lambda", i, 32)))
		if v.Sign() == 0 {
			v = big.NewInt(3)
		}
		out = append(out, v)
	}
	return out
}
