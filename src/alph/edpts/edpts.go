// Package edpts bridges reference points (package ref, math/big) and library
// points: it builds curve.EdwardsPoint values directly from reference
// coordinates through the verification hooks (never through the library's own
// decoder or arithmetic), in several projective representations, and reads
// library points back as affine big integers.
package edpts

import (
	"math/big"

	"github.com/oasisprotocol/curve25519-voi/curve"
	"github.com/oasisprotocol/curve25519-voi/internal/verif/mc"
	"github.com/oasisprotocol/curve25519-voi/internal/verif/ref"
)

// FromRef builds the extended point (x : y : 1 : xy) from a reference point.
func FromRef(p ref.Point) *curve.EdwardsPoint {
	x, y := ref.FMod(p.X), ref.FMod(p.Y)
	return curve.VerifFromCoords(ref.LE32(x), ref.LE32(y), ref.LE32(big.NewInt(1)), ref.LE32(ref.FMul(x, y)))
}

// FromRefScaled builds (lx : ly : l : lxy) from a reference point.
func FromRefScaled(p ref.Point, l *big.Int) *curve.EdwardsPoint {
	x, y := ref.FMod(p.X), ref.FMod(p.Y)
	l = ref.FMod(l)
	return curve.VerifFromCoords(ref.LE32(ref.FMul(l, x)), ref.LE32(ref.FMul(l, y)), ref.LE32(l), ref.LE32(ref.FMul(l, ref.FMul(x, y))))
}

// Coords returns the four extended coordinates as integers in [0, p).
func Coords(p *curve.EdwardsPoint) (x, y, z, t *big.Int) {
	xb, yb, zb, tb := curve.VerifCoords(p)
	return ref.FromLE(xb[:]), ref.FromLE(yb[:]), ref.FromLE(zb[:]), ref.FromLE(tb[:])
}

// Affine reads a library point back.  ok is false when the representation is
// malformed: Z = 0, T*Z != X*Y, or the affine point is not on the curve.
func Affine(p *curve.EdwardsPoint) (ref.Point, bool) {
	x, y, z, t := Coords(p)
	if z.Sign() == 0 {
		return ref.Point{}, false
	}
	if ref.FMul(t, z).Cmp(ref.FMul(x, y)) != 0 {
		return ref.Point{}, false
	}
	zi := ref.FInv(z)
	q := ref.Point{X: ref.FMul(x, zi), Y: ref.FMul(y, zi)}
	return q, q.OnCurve()
}

// Is reports whether the library point is a well-formed representation of the reference point.
func Is(p *curve.EdwardsPoint, want ref.Point) bool {
	q, ok := Affine(p)
	return ok && q.Equal(want)
}

// IsExactIdentity reports whether the coordinates are exactly (0 : 1 : 1 : 0).
func IsExactIdentity(p *curve.EdwardsPoint) bool {
	x, y, z, t := Coords(p)
	return x.Sign() == 0 && y.Cmp(big.NewInt(1)) == 0 && z.Cmp(big.NewInt(1)) == 0 && t.Sign() == 0
}

// SameCoords reports whether two library points have identical coordinate values (not merely the same point).
func SameCoords(a, b *curve.EdwardsPoint) bool {
	ax, ay, az, at := curve.VerifCoords(a)
	bx, by, bz, bt := curve.VerifCoords(b)
	return ax == bx && ay == by && az == bz && at == bt
}

// Lambdas returns the rescaling factors {1, 2, -1, generic...} (n generic ones).
func Lambdas(seed int64, ngeneric int) []*big.Int {
	out := []*big.Int{big.NewInt(1), big.NewInt(2), ref.FNeg(big.NewInt(1))}
	for i := 0; i < ngeneric; i++ {
		v := ref.FMod(ref.FromLE(mc.Bytes(seed, "lambda", i, 32)))
		if v.Sign() == 0 {
			v = big.NewInt(3)
		}
		out = append(out, v)
	}
	return out
}

// Rescale multiplies all four coordinates by lambda using the library's own field multiplication (hook).
func Rescale(p *curve.EdwardsPoint, l *big.Int) *curve.EdwardsPoint {
	return curve.VerifRescale(p, ref.LE32(ref.FMod(l)))
}
