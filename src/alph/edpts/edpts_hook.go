//go:build !verifmin

package edpts

import (
	"math/big"

	"github.com/oasisprotocol/curve25519-voi/curve"
	"github.com/oasisprotocol/curve25519-voi/internal/verif/ref"
)

// Reduced is false when the coordinate accessors grafted into package curve
// (hooks/curve/verif_export.go) are available.
const Reduced = false

// FromRef builds the extended point (x : y : 1 : xy) from a reference point.
func FromRef(p ref.Point) *curve.EdwardsPoint {
	x, y := ref.FMod(p.X), ref.FMod(p.Y)
	return curve.VerifFromCoords(ref.LE32(x), ref.LE32(y), ref.LE32(big.NewInt(1)), ref.LE32(ref.FMul(x, y)))
}

// FromRefScaled builds (lx : ly : l : lxy) from a reference point.
func FromRefScaled(p ref.Point, l *big.Int) *curve.EdwardsPoint {
	x, y := ref.FMod(p.X), ref.FMod(p.Y)
	l = ref.FMod(l)
	return curve.VerifFromCoords(ref.LE32(ref.FMul(l, x)), ref.LE32(ref.FMul(l, y)), ref.LE32(l), ref.LE32(ref.FMul(l, ref.FMul(x, y))))
}

// Coords returns the four extended coordinates as integers in [0, p).
func Coords(p *curve.EdwardsPoint) (x, y, z, t *big.Int) {
	xb, yb, zb, tb := curve.VerifCoords(p)
	return ref.FromLE(xb[:]), ref.FromLE(yb[:]), ref.FromLE(zb[:]), ref.FromLE(tb[:])
}

// SameCoords reports whether two library points have identical coordinate values (not merely the same point).
func SameCoords(a, b *curve.EdwardsPoint) bool {
	ax, ay, az, at := curve.VerifCoords(a)
	bx, by, bz, bt := curve.VerifCoords(b)
	return ax == bx && ay == by && az == bz && at == bt
}

// Rescale multiplies all four coordinates by lambda using the library's own field multiplication (hook).
func Rescale(p *curve.EdwardsPoint, l *big.Int) *curve.EdwardsPoint {
	return curve.VerifRescale(p, ref.LE32(ref.FMod(l)))
}

// WrapRistretto wraps an Edwards representative (must be in 2E) as a Ristretto point.
func WrapRistretto(p *curve.EdwardsPoint) *curve.RistrettoPoint {
	return curve.VerifRistrettoFromEdwards(p)
}

// InnerOfRistretto exposes the internal Edwards representative.
func InnerOfRistretto(r *curve.RistrettoPoint) *curve.EdwardsPoint {
	return curve.VerifEdwardsFromRistretto(r)
}
