// Package alph builds the finite, code-derived alphabets shared by the checks
// (DESIGN.md section 5).  All members are deterministic functions of the seed;
// every alphabet is de-duplicated and ordered simplest-first.
package alph

import (
	"math/big"

	"github.com/oasisprotocol/curve25519-voi/internal/verif/mc"
	"github.com/oasisprotocol/curve25519-voi/internal/verif/ref"
)

func pow2(j uint) *big.Int { return new(big.Int).Lsh(big.NewInt(1), j) }

type set struct {
	seen map[string]bool
	out  []*big.Int
	lim  *big.Int
}

func newSet(limBits uint) *set { return &set{seen: map[string]bool{}, lim: pow2(limBits)} }
func (s *set) add(v *big.Int) {
	if v.Sign() < 0 || v.Cmp(s.lim) >= 0 {
		return
	}
	k := v.Text(16)
	if s.seen[k] {
		return
	}
	s.seen[k] = true
	s.out = append(s.out, new(big.Int).Set(v))
}
func (s *set) addInt(v int64) { s.add(big.NewInt(v)) }

func repByte(b byte, n int) *big.Int {
	buf := make([]byte, n)
	for i := range buf {
		buf[i] = b
	}
	return new(big.Int).SetBytes(buf)
}

// Scalars returns the scalar alphabet in [0, 2^255).  core ~ 70 values, full ~ 1000.
func Scalars(seed int64, core bool) []*big.Int {
	s := newSet(255)
	mask := new(big.Int).Sub(pow2(255), big.NewInt(1))
	for _, v := range []int64{0, 1, 2, 3, 7, 8, 9, 15, 16, 17, 255, 256} {
		s.addInt(v)
	}
	emax := int64(3)
	if core {
		emax = 1
	}
	for k := int64(0); k <= 7; k++ {
		for e := -emax; e <= emax; e++ {
			s.add(new(big.Int).Add(new(big.Int).Mul(big.NewInt(k), ref.L), big.NewInt(e)))
		}
	}
	js := []uint{}
	if core {
		js = []uint{51, 52, 63, 64, 128, 251, 252, 253, 254, 255}
	} else {
		for j := uint(1); j <= 255; j++ {
			js = append(js, j)
		}
	}
	for _, j := range js {
		for e := int64(-1); e <= 1; e++ {
			s.add(new(big.Int).Add(pow2(j), big.NewInt(e)))
		}
	}
	// all-equal-nibble patterns, masked to 255 bits
	for n := 0; n < 16; n++ {
		s.add(new(big.Int).And(repByte(byte(n<<4|n), 32), mask))
	}
	for _, b := range []byte{0x55, 0xaa, 0x33, 0xcc, 0x0f, 0xf0, 0x78, 0x87} {
		s.add(new(big.Int).And(repByte(b, 32), mask))
	}
	// all-ones limbs (52-bit and 29-bit seams)
	for _, w := range []uint{29, 52, 64} {
		for lo := uint(0); lo+w <= 255; lo += w {
			v := new(big.Int).Lsh(new(big.Int).Sub(pow2(w), big.NewInt(1)), lo)
			s.add(v)
			s.add(new(big.Int).Xor(mask, v))
			if core {
				break
			}
		}
	}
	ng := 40
	if core {
		ng = 8
	}
	for i := 0; i < ng; i++ {
		v := ref.FromLE(mc.Bytes(seed, "scalar", i, 32))
		if i%2 == 0 {
			s.add(new(big.Int).Mod(v, ref.L))
		} else {
			s.add(new(big.Int).And(v, mask))
		}
	}
	return s.out
}

// Wide returns the alphabet of bits-bit values (256 or 512) for decoding predicates.
func Wide(seed int64, bits uint, core bool) []*big.Int {
	s := newSet(bits)
	all := new(big.Int).Sub(pow2(bits), big.NewInt(1))
	s.addInt(0)
	s.addInt(1)
	s.add(all)
	step := uint(1)
	if core {
		step = 17
	}
	for j := uint(1); j <= bits; j += step {
		for e := int64(-1); e <= 1; e++ {
			s.add(new(big.Int).Add(pow2(j), big.NewInt(e)))
		}
	}
	for _, j := range []uint{252, 253, 254, 255, 256, 504, 508, 511, 512} {
		for e := int64(-1); e <= 1; e++ {
			s.add(new(big.Int).Add(pow2(j), big.NewInt(e)))
		}
	}
	kmax := new(big.Int).Div(all, ref.L)
	ks := []*big.Int{}
	for k := int64(0); k <= 16; k++ {
		ks = append(ks, big.NewInt(k))
	}
	for d := int64(0); d <= 2; d++ {
		ks = append(ks, new(big.Int).Sub(kmax, big.NewInt(d)))
	}
	if bits == 512 {
		k256 := new(big.Int).Div(pow2(256), ref.L)
		ks = append(ks, k256, new(big.Int).Add(k256, big.NewInt(1)), ref.L, new(big.Int).Sub(ref.L, big.NewInt(1)))
	}
	for _, k := range ks {
		for e := int64(-2); e <= 2; e++ {
			s.add(new(big.Int).Add(new(big.Int).Mul(k, ref.L), big.NewInt(e)))
		}
	}
	for n := 0; n < 16; n++ {
		s.add(repByte(byte(n<<4|n), int(bits/8)))
	}
	ng := 24
	if core {
		ng = 6
	}
	for i := 0; i < ng; i++ {
		s.add(ref.FromLE(mc.Bytes(seed, "wide", i, int(bits/8))))
	}
	return s.out
}

// Lengths is the message-length alphabet (SHA-512 padding seams).
var Lengths = []int{0, 1, 2, 31, 32, 33, 63, 64, 65, 111, 112, 127, 128, 129, 255, 256}
