// Package alphed builds the byte-string alphabets used by C10, C11 and C07:
// Edwards encodings (DESIGN section 5, alphabet E), Montgomery u-coordinates
// and field-element strings (alphabet Phi).  Every alphabet is a deterministic
// function of the seed, de-duplicated and ordered simplest-first.
package alphed

import (
	"fmt"
	"math/big"
	"runtime"
	"time"

	"github.com/oasisprotocol/curve25519-voi/internal/verif/mc"
	"github.com/oasisprotocol/curve25519-voi/internal/verif/ref"
	"github.com/oasisprotocol/curve25519-voi/internal/verif/ref/refmul"
)

// Set is an ordered set of byte strings.
type Set struct {
	seen map[string]bool
	Out  [][]byte
}

func NewSet() *Set { return &Set{seen: map[string]bool{}} }

// Add appends a copy of b unless it is already present.
func (s *Set) Add(b []byte) {
	k := string(b)
	if s.seen[k] {
		return
	}
	s.seen[k] = true
	s.Out = append(s.Out, append([]byte{}, b...))
}

// AddInt adds the 32-byte little-endian encoding of 0 <= v < 2^256.
func (s *Set) AddInt(v *big.Int) {
	if v.Sign() < 0 || v.BitLen() > 256 {
		return
	}
	s.Add(ref.LE32(v))
}

func pow2(j uint) *big.Int { return new(big.Int).Lsh(big.NewInt(1), j) }

var two255 = pow2(255)

func withSign(y *big.Int, sign uint) []byte {
	b := ref.LE32(y)
	b[31] |= byte(sign) << 7
	return b
}

// YValues returns the y alphabet in [0, 2^255): 0..40, p-40..p-1, the 19 values
// p..2^255-1, the y of every 8-torsion point, of B, 2B, limb-seam powers of two
// and ngeneric seed-derived values (about half of them on the curve).
func YValues(seed int64, ngeneric int) []*big.Int {
	seen := map[string]bool{}
	var out []*big.Int
	add := func(v *big.Int) {
		if v.Sign() < 0 || v.Cmp(two255) >= 0 {
			return
		}
		k := v.Text(16)
		if !seen[k] {
			seen[k] = true
			out = append(out, new(big.Int).Set(v))
		}
	}
	for i := int64(0); i <= 40; i++ {
		add(big.NewInt(i))
	}
	for i := int64(40); i >= 1; i-- {
		add(new(big.Int).Sub(ref.P, big.NewInt(i)))
	}
	for i := int64(0); i < 19; i++ {
		add(new(big.Int).Add(ref.P, big.NewInt(i)))
	}
	for _, t := range ref.Torsion() {
		add(ref.FMod(t.Y))
	}
	add(ref.Base.Y)
	add(ref.Base.Double().Y)
	add(ref.Base.Neg().Y)
	for _, j := range []uint{25, 26, 51, 52, 63, 64, 102, 127, 128, 153, 192, 204, 230, 254} {
		for e := int64(-1); e <= 1; e++ {
			add(new(big.Int).Add(pow2(j), big.NewInt(e)))
		}
	}
	for i := 0; i < ngeneric; i++ {
		b := mc.Bytes(seed, "edwards-y", i, 32)
		b[31] &= 0x7f
		add(ref.FromLE(b))
	}
	return out
}

// CanonTree returns the complete decision tree of the succeed-fast canonicity
// test: first byte in {0,236,237,238,255}; bytes 1..30 either all 0xff or
// exactly one of them different (each position, values 0xfe and 0x00); last
// byte in {0x7f,0xff,0x7e,0xfe,0x00,0x80}; plus every single-byte +-1
// neighbour of the two x=0/sign=1 strings and of the encodings of y = p, p+1.
func CanonTree() [][]byte {
	s := NewSet()
	first := []byte{0, 236, 237, 238, 255}
	last := []byte{0x7f, 0xff, 0x7e, 0xfe, 0x00, 0x80}
	for _, f := range first {
		for _, l := range last {
			for pos := 0; pos <= 30; pos++ { // pos 0 = all 0xff
				vals := []byte{0xfe, 0x00}
				if pos == 0 {
					vals = []byte{0xff}
				}
				for _, v := range vals {
					b := make([]byte, 32)
					for i := 1; i < 31; i++ {
						b[i] = 0xff
					}
					b[0], b[31] = f, l
					if pos > 0 {
						b[pos] = v
					}
					s.Add(b)
				}
			}
		}
	}
	// every top byte with bytes 1..30 = 0xff and the first byte around the boundary 0xed
	for _, f := range []byte{0x00, 0xec, 0xed, 0xee, 0xff} {
		for l := 0; l < 256; l++ {
			b := make([]byte, 32)
			for i := 1; i < 31; i++ {
				b[i] = 0xff
			}
			b[0], b[31] = f, byte(l)
			s.Add(b)
		}
	}
	special := [][]byte{
		withSign(big.NewInt(1), 1),
		withSign(new(big.Int).Sub(ref.P, big.NewInt(1)), 1),
		withSign(big.NewInt(1), 0),
		withSign(new(big.Int).Sub(ref.P, big.NewInt(1)), 0),
		withSign(ref.P, 0),
		withSign(new(big.Int).Add(ref.P, big.NewInt(1)), 1),
	}
	for _, sp := range special {
		s.Add(sp)
		for i := 0; i < 32; i++ {
			for _, d := range []byte{1, 0xff} {
				b := append([]byte{}, sp...)
				b[i] += d
				s.Add(b)
			}
		}
	}
	return s.Out
}

// EdEncodings is the alphabet E of 32-byte Edwards encodings: YValues x sign
// bit, then the canonicity decision tree.
func EdEncodings(seed int64, ngeneric int) [][]byte {
	s := NewSet()
	for _, y := range YValues(seed, ngeneric) {
		s.Add(withSign(y, 0))
		s.Add(withSign(y, 1))
	}
	for _, b := range CanonTree() {
		s.Add(b)
	}
	return s.Out
}

// LowOrderU are the seven low-order u values of RFC 7748 section 6.1 / libsodium's blacklist
// as integers (0, 1, two order-8 values, p-1, p, p+1).
func LowOrderU() []*big.Int {
	a, _ := new(big.Int).SetString("325606250916557431795983626356110631294008115727848805560023387167927233504", 10)
	b, _ := new(big.Int).SetString("39382357235489614581723060781553021112529911719440698176882885853963445705823", 10)
	return []*big.Int{big.NewInt(0), big.NewInt(1), a, b,
		new(big.Int).Sub(ref.P, big.NewInt(1)), new(big.Int).Set(ref.P), new(big.Int).Add(ref.P, big.NewInt(1))}
}

// UCoords is the Montgomery u alphabet as 32-byte strings.  Every value appears
// with bit 255 clear and set.  Members: the seven low-order values and their
// aliases (v+p where that fits in 255 bits), all 19 values of [p, 2^255), small
// values 2..40 (2 is on the twist), 9, p-40..p-2, strings whose first byte is 9
// but that are not the base point, limb-seam powers of two, the u of mixed-order
// curve points B+T_i and [g]B+T_i, and ngeneric seed-derived values (about half
// on the curve, half on the twist).
func UCoords(seed int64, ngeneric int) [][]byte { return UCoordsSized(seed, ngeneric, 40) }

// UCoordsSized is UCoords with the small ranges cut to 2..small and p-small..p-2
// (and, for small < 40, only the limb seams 2^51 and 2^254).
func UCoordsSized(seed int64, ngeneric int, small int64) [][]byte {
	s := NewSet()
	add := func(v *big.Int) {
		if v.Sign() < 0 || v.Cmp(two255) >= 0 {
			return
		}
		s.AddInt(v)
		s.AddInt(new(big.Int).Add(v, two255))
	}
	for _, v := range LowOrderU() {
		add(v)
		add(new(big.Int).Add(v, ref.P))
	}
	add(big.NewInt(9))
	for i := int64(0); i < 19; i++ {
		add(new(big.Int).Add(ref.P, big.NewInt(i)))
	}
	for i := int64(2); i <= small; i++ {
		add(big.NewInt(i))
	}
	for i := int64(2); i <= small; i++ {
		add(new(big.Int).Sub(ref.P, big.NewInt(i)))
	}
	// first byte 9, not the base point
	add(new(big.Int).Add(big.NewInt(9), pow2(8)))
	add(new(big.Int).Add(big.NewInt(9), pow2(248)))
	add(new(big.Int).Add(big.NewInt(9), pow2(254)))
	seams := []uint{25, 26, 51, 52, 64, 102, 128, 153, 204, 254}
	if small < 40 {
		seams = []uint{51, 254}
	}
	for _, j := range seams {
		for e := int64(-1); e <= 1; e++ {
			add(new(big.Int).Add(pow2(j), big.NewInt(e)))
		}
	}
	tor := ref.Torsion()
	g := new(big.Int).Mod(ref.FromLE(mc.Bytes(seed, "u-mixed-g", 0, 32)), ref.L)
	gb := refmul.BaseMul(g)
	for i := 1; i < 8; i++ {
		add(ref.Base.Add(tor[i]).ToMontgomeryU())
		if small >= 40 || i == 1 || i == 4 {
			add(gb.Add(tor[i]).ToMontgomeryU())
		}
	}
	add(gb.ToMontgomeryU())
	for i := 0; i < ngeneric; i++ {
		b := mc.Bytes(seed, "montgomery-u", i, 32)
		b[31] &= 0x7f
		add(ref.FromLE(b))
	}
	return s.Out
}

// FieldStrings is the alphabet Phi of 32-byte field-element strings: 0, 1, 2, 19,
// p-19..p-1, all 19 strings of [p, 2^255), sqrt(-1), d, 2d, limb-seam powers of
// two, the extra values handed in, and ngeneric seed-derived values; each with
// bit 255 clear and (for every third value, or all of them with allHigh) set.
func FieldStrings(seed int64, ngeneric int, extra []*big.Int, allHigh bool) [][]byte {
	s := NewSet()
	var vals []*big.Int
	for _, v := range []int64{0, 1, 2, 3, 19} {
		vals = append(vals, big.NewInt(v))
	}
	for i := int64(19); i >= 1; i-- {
		vals = append(vals, new(big.Int).Sub(ref.P, big.NewInt(i)))
	}
	for i := int64(0); i < 19; i++ {
		vals = append(vals, new(big.Int).Add(ref.P, big.NewInt(i)))
	}
	vals = append(vals, ref.SqrtM1, ref.FNeg(ref.SqrtM1), ref.D, ref.FAdd(ref.D, ref.D))
	vals = append(vals, extra...)
	for _, j := range []uint{26, 51, 128, 204, 254} {
		vals = append(vals, pow2(j), new(big.Int).Sub(pow2(j), big.NewInt(1)))
	}
	for i := 0; i < ngeneric; i++ {
		b := mc.Bytes(seed, "field-phi", i, 32)
		b[31] &= 0x7f
		vals = append(vals, ref.FromLE(b))
		if i < 6 {
			vals = append(vals, ref.FNeg(ref.FromLE(b))) // negated twin: same Elligator image
		}
	}
	for i, v := range vals {
		if v.Sign() < 0 || v.Cmp(two255) >= 0 {
			continue
		}
		s.AddInt(v)
		if allHigh || i%3 == 0 {
			s.AddInt(new(big.Int).Add(v, two255))
		}
	}
	return s.Out
}

// Par is mc.Ctx.Par with a recover of its own, so that a panic of the code
// under test is reported as a violation that is also reproducible with
// -only (the engine's own recover is not active while replaying one case).
func Par(c *mc.Ctx, sub string, n int, f func(w *mc.W, i int)) {
	t0 := time.Now()
	defer func() {
		if !c.Replaying() {
			c.Rep.Extra["wall_s:"+sub] = float64(int(time.Since(t0).Seconds()*100)) / 100
		}
	}()
	c.Par(sub, n, func(w *mc.W, i int) {
		defer func() {
			if r := recover(); r != nil {
				buf := make([]byte, 3072)
				m := runtime.Stack(buf, false)
				w.Fail("panic/"+sub, fmt.Sprintf("panic in case %s:%d: %v\n%s", sub, i, r, buf[:m]), nil)
			}
		}()
		f(w, i)
	})
}

// Seam is one member of the Mul121666 carry-seam alphabet.
type Seam struct {
	U     []byte // 32-byte u string with 4u = W (mod p)
	Limb  int    // radix-2^51 digit of W that holds the seam value (1..4)
	J     int    // the seam value is floor(J*2^64/121666) + E
	E     int
	Lower string // "max", "carry=r", "carry=r-1": the digit below the seam
	Fill  string // "zero" or "mid": the remaining digits
	Hot   bool   // by construction the 64-bit low word of digit*121666 plus the incoming carry wraps 2^64
}

// Mul121666Seams is derived from the constant 121666 = (A+2)/4 of the
// Montgomery ladder, the 64-bit word size and the radix 2^51 of the 64-bit
// field backend.  The first ladder step of X25519(k, u) (bit 254 of a clamped
// scalar is always set) multiplies t6 = (u+1)^2 - (u-1)^2 = 4u by 121666.  For
// W = 4u mod p >= 2^13 the weakly reduced t6 is the integer W itself, and its
// limbs are the radix-2^51 digits of W (digits >= 320 are represented
// uniquely).  A digit a = floor(j*2^64/121666), j = 1..14 (all j with a < 2^51),
// makes the low 64-bit word of a*121666 equal to 2^64 - r, r = j*2^64 mod 121666,
// so that the carry coming from the digit below (at most 121665, reached for
// the digit 2^51-1) wraps the low word exactly when carry >= r.  Members, for
// every limb 1..4 and every j: seam digit with lower digit 2^51-1 (hot), with
// the smallest lower digit whose carry is r (hot boundary) and the one below
// it (cold boundary), each with the other digits zero and with a mid-range
// filler, and bit 255 set on the first; with full the neighbours a-1, a+1 too
// (cold).  u = W/4 mod p, so u is in general a full-size field element.
func Mul121666Seams(full bool) []Seam {
	const c = 121666
	two51 := pow2(51)
	two64 := pow2(64)
	inv4 := new(big.Int).ModInverse(big.NewInt(4), ref.P)
	mid := new(big.Int).Add(pow2(50), big.NewInt(0x1555555555))
	var out []Seam
	seen := map[string]bool{}
	emit := func(w *big.Int, sm Seam, high bool) {
		u := ref.FMul(w, inv4)
		b := ref.LE32(u)
		if high {
			b[31] |= 0x80
		}
		if seen[string(b)] {
			return
		}
		seen[string(b)] = true
		sm.U = b
		out = append(out, sm)
	}
	for limb := 1; limb <= 4; limb++ {
		for j := 1; ; j++ {
			jw := new(big.Int).Mul(big.NewInt(int64(j)), two64)
			a, r := new(big.Int).QuoRem(jw, big.NewInt(c), new(big.Int))
			if a.Cmp(two51) >= 0 {
				break
			}
			// smallest lower digit d with floor(d*c / 2^51) = r: d = ceil(r*2^51/c)
			dr := new(big.Int).Mul(r, two51)
			dr.Add(dr, big.NewInt(c-1))
			dr.Div(dr, big.NewInt(c))
			build := func(seam, lower, fill *big.Int, fillBelow bool) *big.Int {
				w := new(big.Int)
				for i := 4; i >= 0; i-- {
					w.Lsh(w, 51)
					switch {
					case i == limb:
						w.Add(w, seam)
					case i == limb-1:
						w.Add(w, lower)
					case i < limb-1 && !fillBelow:
						// for the boundary variants the digits below the lower one stay zero, so that
						// the lower digit's own incoming carry is zero
					default:
						w.Add(w, fill)
					}
				}
				return w
			}
			max := new(big.Int).Sub(two51, big.NewInt(1))
			for _, f := range []struct {
				name string
				v    *big.Int
			}{{"zero", big.NewInt(0)}, {"mid", mid}} {
				emit(build(a, max, f.v, true), Seam{Limb: limb, J: j, Lower: "max", Fill: f.name, Hot: true}, false)
				emit(build(a, dr, f.v, false), Seam{Limb: limb, J: j, Lower: "carry=r", Fill: f.name, Hot: true}, false)
				emit(build(a, new(big.Int).Sub(dr, big.NewInt(1)), f.v, false), Seam{Limb: limb, J: j, Lower: "carry=r-1", Fill: f.name}, false)
			}
			emit(build(a, max, big.NewInt(0), true), Seam{Limb: limb, J: j, Lower: "max", Fill: "zero", Hot: true}, true)
			if full {
				for _, e := range []int64{-1, 1} {
					emit(build(new(big.Int).Add(a, big.NewInt(e)), max, big.NewInt(0), true), Seam{Limb: limb, J: j, E: int(e), Lower: "max", Fill: "zero"}, false)
					emit(build(new(big.Int).Add(a, big.NewInt(e)), max, mid, true), Seam{Limb: limb, J: j, E: int(e), Lower: "max", Fill: "mid"}, false)
				}
			}
		}
	}
	return out
}

// Guard runs a preparation step that calls library code outside any Par
// callback.  A panic of the library there is recorded as an ordinary violation
// (key "panic/<sub>") instead of aborting the harness; ok is false then and the
// caller skips the sub-spaces that depend on the step.
func Guard(c *mc.Ctx, sub string, f func()) (ok bool) {
	msg := ""
	func() {
		defer func() {
			if r := recover(); r != nil {
				buf := make([]byte, 3072)
				m := runtime.Stack(buf, false)
				msg = fmt.Sprintf("panic while preparing %s: %v\n%s", sub, r, buf[:m])
			}
		}()
		f()
	}()
	c.Par(sub, 1, func(w *mc.W, i int) {
		w.Eval(sub, false)
		if msg != "" {
			w.Fail("panic/"+sub, msg, nil)
		}
	})
	return msg == ""
}

// Guarded hands a byte string over the way an untrusted caller might: as a
// sub-slice of a larger buffer with spare capacity, surrounded by a guard
// pattern.  intact reports whether the whole buffer (guards and the bytes
// handed over) is unchanged.
func Guarded(b []byte) (in []byte, intact func() bool) {
	const g = 24
	buf := make([]byte, g+len(b)+g)
	for i := range buf {
		buf[i] = 0xa5 ^ byte(i)
	}
	copy(buf[g:], b)
	orig := append([]byte{}, buf...)
	in = buf[g : g+len(b)] // cap reaches into the trailing guard
	if b == nil {
		in = nil
	}
	return in, func() bool { return string(buf) == string(orig) }
}
