// Package refx is a literal transcription of RFC 7748 section 5 (X25519)
// with math/big.  It imports nothing from the repository under test.
//
//	decodeUCoordinate   masks bit 255 of the last byte and reduces mod p
//	decodeScalar25519   clamps (clear bits 0,1,2 and 255, set bit 254)
//	X25519              the Montgomery ladder of section 5 with a24 = 121665
//	encodeUCoordinate   canonical little-endian value mod p
package refx

import "math/big"

var (
	// P = 2^255 - 19.
	P = new(big.Int).Sub(new(big.Int).Lsh(big.NewInt(1), 255), big.NewInt(19))
	// A24 = (486662 - 2) / 4.
	A24 = big.NewInt(121665)
	// A is the Montgomery coefficient of curve25519: v^2 = u^3 + A u^2 + u.
	A   = big.NewInt(486662)
	one = big.NewInt(1)
	two = big.NewInt(2)
)

func mod(a *big.Int) *big.Int     { return new(big.Int).Mod(a, P) }
func inplace(t *big.Int) *big.Int { return t.Mod(t, P) } // t is a fresh temporary
func add(a, b *big.Int) *big.Int  { return inplace(new(big.Int).Add(a, b)) }
func sub(a, b *big.Int) *big.Int  { return inplace(new(big.Int).Sub(a, b)) }
func mul(a, b *big.Int) *big.Int  { return inplace(new(big.Int).Mul(a, b)) }

// addL / subL are the field addition and subtraction of the ladder step with the
// reduction deferred to the multiplication that always follows (operands stay in
// (-p, 2p); big.Int.Mod is Euclidean, so the product is reduced to [0, p)).
func addL(a, b *big.Int) *big.Int { return new(big.Int).Add(a, b) }
func subL(a, b *big.Int) *big.Int { return new(big.Int).Sub(a, b) }

func fromLE(b []byte) *big.Int {
	r := make([]byte, len(b))
	for i := range b {
		r[i] = b[len(b)-1-i]
	}
	return new(big.Int).SetBytes(r)
}

func toLE32(a *big.Int) []byte {
	b := a.Bytes()
	out := make([]byte, 32)
	for i := range b {
		out[i] = b[len(b)-1-i]
	}
	return out
}

// DecodeUCoordinate is decodeUCoordinate(u, 255) followed by the reduction
// mod p that the RFC demands of implementations ("MUST accept non-canonical
// values and process them as if they had been reduced modulo the field prime").
func DecodeUCoordinate(u []byte) *big.Int {
	if len(u) != 32 {
		panic("refx: u must be 32 bytes")
	}
	t := append([]byte{}, u...)
	t[31] &= (1 << (255 % 8)) - 1
	return mod(fromLE(t))
}

// DecodeScalar25519 is decodeScalar25519 of RFC 7748 section 5.
func DecodeScalar25519(k []byte) *big.Int {
	if len(k) != 32 {
		panic("refx: scalar must be 32 bytes")
	}
	t := append([]byte{}, k...)
	t[0] &= 248
	t[31] &= 127
	t[31] |= 64
	return fromLE(t)
}

// Clamp returns the clamped scalar bytes.
func Clamp(k []byte) []byte { return toLE32(DecodeScalar25519(k)) }

// EncodeUCoordinate is encodeUCoordinate(u, 255).
func EncodeUCoordinate(u *big.Int) []byte { return toLE32(mod(u)) }

func cswap(swap uint, x2, x3 *big.Int) (*big.Int, *big.Int) {
	if swap == 1 {
		return x3, x2
	}
	return x2, x3
}

// Ladder is the body of the RFC's X25519(k, u) for an already decoded
// integer k (bits = 255) and field element u.
func Ladder(k, u *big.Int) *big.Int {
	x2, z2 := LadderProjective(k, u)
	// x_2 * z_2^(p-2)
	return mul(x2, new(big.Int).Exp(z2, new(big.Int).Sub(P, two), P))
}

// LadderProjective is the ladder of the RFC without the final division: it
// returns (x_2, z_2), so that the point at infinity (z_2 = 0) can be told
// from the 2-torsion point u = 0 (x_2 = 0), which Ladder both maps to 0.
func LadderProjective(k, u *big.Int) (*big.Int, *big.Int) {
	const bits = 255
	x1 := mod(u)
	x2 := big.NewInt(1)
	z2 := big.NewInt(0)
	x3 := mod(u)
	z3 := big.NewInt(1)
	swap := uint(0)
	for t := bits - 1; t >= 0; t-- {
		kt := k.Bit(t)
		swap ^= kt
		x2, x3 = cswap(swap, x2, x3)
		z2, z3 = cswap(swap, z2, z3)
		swap = kt

		a := addL(x2, z2)
		aa := mul(a, a)
		b := subL(x2, z2)
		bb := mul(b, b)
		e := subL(aa, bb)
		c := addL(x3, z3)
		d := subL(x3, z3)
		da := mul(d, a)
		cb := mul(c, b)
		t0 := addL(da, cb)
		x3 = mul(t0, t0)
		t1 := subL(da, cb)
		z3 = mul(x1, mul(t1, t1))
		x2 = mul(aa, bb)
		z2 = mul(e, addL(aa, mul(A24, e)))
	}
	x2, x3 = cswap(swap, x2, x3)
	z2, z3 = cswap(swap, z2, z3)
	_ = x3
	_ = z3
	return x2, z2
}

var (
	// L is the prime order of the base-point subgroup; the curve has 8*L points.
	L, _ = new(big.Int).SetString("7237005577332262213973186563042994240857116359379907606001950938285454250989", 10)
	// TwistL is the prime L' with #twist = 4*L'; it follows from #curve + #twist = 2p + 2.
	TwistL = func() *big.Int {
		n := new(big.Int).Add(new(big.Int).Lsh(P, 1), two) // 2p + 2
		n.Sub(n, new(big.Int).Lsh(L, 3))                   // - 8L
		return n.Rsh(n, 2)
	}()
)

// PrimeOrderSubgroup reports whether the (reduced, non-zero) u is the
// u-coordinate of a point of the prime-order subgroup of the curve (order L)
// or of its twist (order L'), and returns that order: [q]P is the point at
// infinity, i.e. the projective ladder ends with z_2 = 0.
func PrimeOrderSubgroup(u *big.Int) (bool, *big.Int) {
	u = mod(u)
	if u.Sign() == 0 {
		return false, nil
	}
	q := TwistL
	if OnCurve(u) {
		q = L
	}
	x2, z2 := LadderProjective(q, u)
	return z2.Sign() == 0 && x2.Sign() != 0, q
}

// Preimage returns the u-coordinate U with X25519(k, U) = target for a
// target in a prime-order subgroup of order q: U = [s^-1 mod q] T, where s
// is the clamped scalar (invertible mod q because 0 < s < 2^255 is not a
// multiple of the prime q > 2^252 unless s = q..7q, which clamping's
// multiple-of-8 rule excludes; nil is returned if it is not invertible).
func Preimage(k []byte, target, q *big.Int) []byte {
	s := new(big.Int).Mod(DecodeScalar25519(k), q)
	inv := new(big.Int).ModInverse(s, q)
	if inv == nil {
		return nil
	}
	return EncodeUCoordinate(Ladder(inv, target))
}

// X25519 is the RFC 7748 function on two 32-byte strings.
func X25519(k, u []byte) []byte {
	return EncodeUCoordinate(Ladder(DecodeScalar25519(k), DecodeUCoordinate(u)))
}

// IsZero32 reports whether b is the all-zero string.
func IsZero32(b []byte) bool {
	var acc byte
	for _, x := range b {
		acc |= x
	}
	return acc == 0
}

// OnCurve reports whether the (reduced) u is the u-coordinate of a point of
// the curve v^2 = u^3 + A u^2 + u over F_p (as opposed to its quadratic twist);
// u = 0 (the 2-torsion point, on both) counts as on the curve.
func OnCurve(u *big.Int) bool {
	u = mod(u)
	rhs := add(add(mul(mul(u, u), u), mul(A, mul(u, u))), u)
	if rhs.Sign() == 0 {
		return true
	}
	e := new(big.Int).Rsh(new(big.Int).Sub(P, one), 1)
	return new(big.Int).Exp(rhs, e, P).Cmp(one) == 0
}
