// Package ref holds literal, slow reference models written with math/big.
// It imports nothing from the repository under test.
package ref

import "math/big"

var (
	P     = new(big.Int).Sub(new(big.Int).Lsh(big.NewInt(1), 255), big.NewInt(19))
	L, _  = new(big.Int).SetString("7237005577332262213973186563042994240857116359379907606001950938285454250989", 10)
	zero  = big.NewInt(0)
	one   = big.NewInt(1)
	two   = big.NewInt(2)
	D     = fdiv(fneg(big.NewInt(121665)), big.NewInt(121666))
	SqrtM1 = new(big.Int).Exp(two, new(big.Int).Div(new(big.Int).Sub(P, one), big.NewInt(4)), P)
)

func B(x int64) *big.Int { return big.NewInt(x) }

func fmod(a *big.Int) *big.Int  { return new(big.Int).Mod(a, P) }
func fadd(a, b *big.Int) *big.Int { return fmod(new(big.Int).Add(a, b)) }
func fsub(a, b *big.Int) *big.Int { return fmod(new(big.Int).Sub(a, b)) }
func fmul(a, b *big.Int) *big.Int { return fmod(new(big.Int).Mul(a, b)) }
func fneg(a *big.Int) *big.Int  { return fmod(new(big.Int).Neg(a)) }
func fsq(a *big.Int) *big.Int   { return fmul(a, a) }
func finv(a *big.Int) *big.Int {
	// Fermat: a^(p-2); maps 0 to 0.
	return new(big.Int).Exp(fmod(a), new(big.Int).Sub(P, two), P)
}
func fdiv(a, b *big.Int) *big.Int { return fmul(a, finv(b)) }

// Exported field helpers.
func FMod(a *big.Int) *big.Int     { return fmod(a) }
func FAdd(a, b *big.Int) *big.Int  { return fadd(a, b) }
func FSub(a, b *big.Int) *big.Int  { return fsub(a, b) }
func FMul(a, b *big.Int) *big.Int  { return fmul(a, b) }
func FNeg(a *big.Int) *big.Int     { return fneg(a) }
func FSq(a *big.Int) *big.Int      { return fsq(a) }
func FInv(a *big.Int) *big.Int     { return finv(a) }
func FDiv(a, b *big.Int) *big.Int  { return fdiv(a, b) }
func FPow(a, e *big.Int) *big.Int  { return new(big.Int).Exp(fmod(a), e, P) }

// FIsSquare: Euler criterion (0 counts as square).
func FIsSquare(a *big.Int) bool {
	a = fmod(a)
	if a.Sign() == 0 {
		return true
	}
	e := new(big.Int).Rsh(new(big.Int).Sub(P, one), 1)
	return new(big.Int).Exp(a, e, P).Cmp(one) == 0
}

// FIsNegative: low bit of the canonical representative (RFC 9496 / dalek convention).
func FIsNegative(a *big.Int) bool { return fmod(a).Bit(0) == 1 }

// FAbs returns the non-negative one of {a, -a}.
func FAbs(a *big.Int) *big.Int {
	a = fmod(a)
	if a.Bit(0) == 1 {
		return fneg(a)
	}
	return a
}

// FSqrt returns (root, true) with root^2 = a if a is a square, root is one of the two roots (unspecified sign).
func FSqrt(a *big.Int) (*big.Int, bool) {
	a = fmod(a)
	// candidate = a^((p+3)/8)
	e := new(big.Int).Rsh(new(big.Int).Add(P, big.NewInt(3)), 3)
	r := new(big.Int).Exp(a, e, P)
	if fsq(r).Cmp(a) == 0 {
		return r, true
	}
	r = fmul(r, SqrtM1)
	if fsq(r).Cmp(a) == 0 {
		return r, true
	}
	return nil, false
}

// SqrtRatioI is the documented dalek/RFC 9496 SQRT_RATIO_M1:
//   (true,  +sqrt(u/v))   if v != 0 and u/v is square
//   (true,  0)            if u == 0
//   (false, 0)            if v == 0 and u != 0
//   (false, +sqrt(i*u/v)) if u/v is non-square (so i*u/v is square)
// where + means the non-negative root.  Defined purely mathematically here.
func SqrtRatioI(u, v *big.Int) (bool, *big.Int) {
	u, v = fmod(u), fmod(v)
	if u.Sign() == 0 {
		return true, big.NewInt(0)
	}
	if v.Sign() == 0 {
		return false, big.NewInt(0)
	}
	q := fdiv(u, v)
	if r, ok := FSqrt(q); ok {
		return true, FAbs(r)
	}
	r, ok := FSqrt(fmul(SqrtM1, q))
	if !ok {
		panic("ref: neither u/v nor i*u/v is a square")
	}
	return false, FAbs(r)
}

// LE32 encodes 0 <= a < 2^256 little-endian.
func LE32(a *big.Int) []byte { return LEn(a, 32) }

func LEn(a *big.Int, n int) []byte {
	b := a.Bytes()
	if len(b) > n {
		panic("ref: LEn overflow")
	}
	out := make([]byte, n)
	for i := range b {
		out[i] = b[len(b)-1-i]
	}
	return out
}

// FromLE decodes a little-endian byte string.
func FromLE(b []byte) *big.Int {
	r := make([]byte, len(b))
	for i := range b {
		r[i] = b[len(b)-1-i]
	}
	return new(big.Int).SetBytes(r)
}

// Scalars mod L.
func SMod(a *big.Int) *big.Int    { return new(big.Int).Mod(a, L) }
func SAdd(a, b *big.Int) *big.Int { return SMod(new(big.Int).Add(a, b)) }
func SSub(a, b *big.Int) *big.Int { return SMod(new(big.Int).Sub(a, b)) }
func SMul(a, b *big.Int) *big.Int { return SMod(new(big.Int).Mul(a, b)) }
func SNeg(a *big.Int) *big.Int    { return SMod(new(big.Int).Neg(a)) }
func SInv(a *big.Int) *big.Int {
	return new(big.Int).Exp(SMod(a), new(big.Int).Sub(L, two), L)
}
