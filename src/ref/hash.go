package ref

import "crypto/sha512"

func sha512Sum(parts ...[]byte) []byte {
	h := sha512.New()
	for _, p := range parts {
		h.Write(p)
	}
	return h.Sum(nil)
}

// SHA512 concatenates and hashes.
func SHA512(parts ...[]byte) []byte { return sha512Sum(parts...) }
