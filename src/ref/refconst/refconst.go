// Package refconst computes, with math/big only, the defining value of every
// embedded constant and table entry of curve25519-voi (property C20).  Nothing
// here is copied from the library: every value is derived from its published
// definition (RFC 7748, RFC 8032, RFC 9380, RFC 9496, the Montgomery-reduction
// identities of the scalar backends).
package refconst

import (
	"math/big"

	"github.com/oasisprotocol/curve25519-voi/internal/verif/ref"
)

func bi(s string) *big.Int {
	v, ok := new(big.Int).SetString(s, 10)
	if !ok {
		panic("refconst: bad literal")
	}
	return v
}

var (
	one = big.NewInt(1)
	two = big.NewInt(2)

	// MontA is the Montgomery coefficient A = 486662 of curve25519 (RFC 7748 4.1).
	MontA = big.NewInt(486662)
	// MontBaseV is the v-coordinate of the Montgomery base point (9, v) published in RFC 7748 4.1.
	MontBaseV = bi("14781619447589544791020593568409986887264606134616475288964881837755586237401")
)

// evenRoot returns the square root with least-significant bit 0 ("non-negative"
// in the convention of RFC 9496 / sgn0 = 0 in RFC 9380); ok=false for non-squares.
func evenRoot(a *big.Int) (*big.Int, bool) {
	r, ok := ref.FSqrt(a)
	if !ok {
		return nil, false
	}
	return ref.FAbs(r), true
}

// SqrtNegAPlusTwo is sqrt(-(A+2)) = sqrt(-486664), the root with sgn0 = 0
// (RFC 9380 6.8.2 / G.2.2: "sgn0(c1) MUST equal 0"; the hex value printed there is
// pinned in ref-selftest, together with the RFC 7748 birational map of the base point).
func SqrtNegAPlusTwo() *big.Int {
	r, ok := evenRoot(ref.FNeg(new(big.Int).Add(MontA, two)))
	if !ok {
		panic("refconst: -(A+2) is not a square")
	}
	return r
}

// VFactor is sqrt(U_FACTOR) = sqrt(-2*sqrt(-1)).  "sqrt" in this code base is the non-negative (even) root: that is what
// SqrtRatioI/InvSqrt are documented to select, and the repository defines the constant through InvSqrt
// (internal/elligator/constants_test.go).  The library's results do not depend on the sign (it normalises the sign
// of every value derived from V_FACTOR), but the two limb encodings must hold the SAME defined value.
func VFactor() *big.Int {
	r, ok := evenRoot(ref.FMul(ref.FNeg(two), ref.SqrtM1))
	if !ok {
		panic("refconst: U_FACTOR is not a square")
	}
	return r
}

// Field returns the definition of every field constant, by the name used in the repository.
// Every square root is pinned to one root: the RFC 9496 literals for the two Ristretto constants, the non-negative
// (sgn0 = 0) root for the Elligator constants.
func Field() map[string]*big.Int {
	d := ref.D
	a := ref.FNeg(one) // a = -1
	m := map[string]*big.Int{
		// internal/field
		"field.One":                   big.NewInt(1),
		"field.MinusOne":              ref.FNeg(one),
		"field.Two":                   big.NewInt(2),
		"field.SQRT_M1":               ref.FPow(two, new(big.Int).Rsh(new(big.Int).Sub(ref.P, one), 2)), // 2^((p-1)/4), RFC 8032 5.1.3
		"field.constAPLUS2_OVER_FOUR": new(big.Int).Div(new(big.Int).Add(MontA, two), big.NewInt(4)),    // (A+2)/4 = 121666
		// curve
		"constMINUS_ONE":                   ref.FNeg(one),
		"constEDWARDS_D":                   ref.FDiv(ref.FNeg(big.NewInt(121665)), big.NewInt(121666)),
		"constEDWARDS_D2":                  ref.FMul(two, d),
		"constONE_MINUS_EDWARDS_D_SQUARED": ref.FSub(one, ref.FSq(d)), // RFC 9496 ONE_MINUS_D_SQ = 1 - d^2
		"constEDWARDS_D_MINUS_ONE_SQUARED": ref.FSq(ref.FSub(d, one)), // RFC 9496 D_MINUS_ONE_SQ = (d-1)^2
		"constSQRT_AD_MINUS_ONE":           ref.SqrtADMinusOne,        // the root fixed by RFC 9496 4.1
		"constINVSQRT_A_MINUS_D":           ref.InvSqrtAMinusD,        // the root fixed by RFC 9496 4.1
		// internal/elligator
		"constMONTGOMERY_A":                   new(big.Int).Set(MontA),
		"constMONTGOMERY_NEG_A":               ref.FNeg(MontA),
		"constMONTGOMERY_A_SQUARED":           ref.FSq(MontA),
		"constMONTGOMERY_SQRT_NEG_A_PLUS_TWO": SqrtNegAPlusTwo(),
		"constMONTGOMERY_U_FACTOR":            ref.FMul(ref.FNeg(two), ref.SqrtM1), // -2 * sqrt(-1)
		"constMONTGOMERY_V_FACTOR":            VFactor(),
		"constFieldZero":                      big.NewInt(0),
	}
	// sanity of the two RFC 9496 roots against their defining equations (independent of the literals' origin)
	if ref.FSq(m["constSQRT_AD_MINUS_ONE"]).Cmp(ref.FSub(ref.FMul(a, d), one)) != 0 {
		panic("refconst: SQRT_AD_MINUS_ONE^2 != a*d - 1")
	}
	if ref.FMul(ref.FSq(m["constINVSQRT_A_MINUS_D"]), ref.FSub(a, d)).Cmp(one) != 0 {
		panic("refconst: INVSQRT_A_MINUS_D^2 * (a-d) != 1")
	}
	return m
}

// Niels returns the affine Niels form (y+x, y-x, 2dxy) of p.
func Niels(p ref.Point) (yPlusX, yMinusX, xy2d *big.Int) {
	return ref.FAdd(p.Y, p.X), ref.FSub(p.Y, p.X), ref.FMul(ref.FMul(two, ref.D), ref.FMul(p.X, p.Y))
}

// NielsNeg is the Niels form of -p.
func NielsNeg(p ref.Point) (yPlusX, yMinusX, xy2d *big.Int) { return Niels(p.Neg()) }

// BasepointTable returns entry (i, j) = [(j+1) * 256^i]B, i < 32, j < 8.
func BasepointTable() (t [32][8]ref.Point) {
	p := ref.Base
	for i := 0; i < 32; i++ {
		acc := p
		for j := 0; j < 8; j++ {
			t[i][j] = acc
			acc = acc.Add(p)
		}
		for k := 0; k < 8; k++ { // p <- [256]p
			p = p.Double()
		}
	}
	return
}

// BShl128 is [2^128]B.
func BShl128() ref.Point {
	p := ref.Base
	for k := 0; k < 128; k++ {
		p = p.Double()
	}
	return p
}

// OddMultiples returns entry j = [2j+1]P, j < 64.
func OddMultiples(p ref.Point) (t [64]ref.Point) {
	p2 := p.Double()
	acc := p
	for j := 0; j < 64; j++ {
		t[j] = acc
		acc = acc.Add(p2)
	}
	return
}

// ScalarMontgomery returns, for limbs of the given width, R = 2^(width*n) mod L,
// RR = R^2 mod L and LFACTOR = -L^-1 mod 2^width (n = 5 for 52-bit limbs, 9 for 29-bit limbs).
func ScalarMontgomery(width uint, n int) (r, rr, lfactor *big.Int) {
	r = new(big.Int).Lsh(one, width*uint(n))
	r.Mod(r, ref.L)
	rr = new(big.Int).Mul(r, r)
	rr.Mod(rr, ref.L)
	m := new(big.Int).Lsh(one, width)
	inv := new(big.Int).ModInverse(ref.L, m)
	lfactor = new(big.Int).Sub(m, inv)
	lfactor.Mod(lfactor, m)
	return
}

// Limbs splits v into n little-endian limbs of the given width (v must fit).
func Limbs(v *big.Int, width uint, n int) []uint64 {
	out := make([]uint64, n)
	t := new(big.Int).Set(v)
	mask := new(big.Int).Sub(new(big.Int).Lsh(one, width), one)
	for i := range out {
		out[i] = new(big.Int).And(t, mask).Uint64()
		t.Rsh(t, width)
	}
	if t.Sign() != 0 {
		panic("refconst: value does not fit the limbs")
	}
	return out
}

// FromLimbs is the inverse of Limbs without any range restriction on the limbs.
func FromLimbs(l []uint64, width uint) *big.Int {
	v := new(big.Int)
	for i := len(l) - 1; i >= 0; i-- {
		v.Lsh(v, width)
		v.Add(v, new(big.Int).SetUint64(l[i]))
	}
	return v
}

// EllLowerHalf is L mod 2^128; EllSquared is L^2.
func EllLowerHalf() *big.Int {
	return new(big.Int).Mod(ref.L, new(big.Int).Lsh(one, 128))
}

func EllSquared() *big.Int { return new(big.Int).Mul(ref.L, ref.L) }

// NoncanonicalSignBits are the two encodings with x = 0 and the sign bit set (y = 1 and y = -1).
func NoncanonicalSignBits() [][]byte {
	var out [][]byte
	for _, y := range []*big.Int{big.NewInt(1), ref.FNeg(one)} {
		b := ref.LE32(y)
		b[31] |= 0x80
		out = append(out, b)
	}
	return out
}

// Preset is one Ed25519 verification preset, flag by flag.
type Preset struct {
	AllowSmallOrderA, AllowSmallOrderR, AllowNonCanonicalA, AllowNonCanonicalR, CofactorlessVerify bool
}

// Presets transcribes the documented semantics of the four presets:
//
//	Default   README "Ed25519 verification semantics": cofactored; small order A rejected; small order R
//	          accepted; non-canonical A and R rejected.
//	StdLib    Go crypto/ed25519 (ed25519-speccheck row "Go"): cofactorless byte comparison (so a
//	          non-canonical R can never match), small order A and R accepted, non-canonical A accepted.
//	FIPS      FIPS 186-5 / RFC 8032 with the cofactored equation: canonical encodings required,
//	          no small-order rejection.
//	ZIP-215   every encoding and every small-order point accepted, cofactored equation.
func Presets() map[string]Preset {
	return map[string]Preset{
		"VerifyOptionsDefault":    {AllowSmallOrderR: true},
		"VerifyOptionsStdLib":     {AllowSmallOrderA: true, AllowSmallOrderR: true, AllowNonCanonicalA: true, CofactorlessVerify: true},
		"VerifyOptionsFIPS_186_5": {AllowSmallOrderA: true, AllowSmallOrderR: true},
		"VerifyOptionsZIP_215":    {AllowSmallOrderA: true, AllowSmallOrderR: true, AllowNonCanonicalA: true, AllowNonCanonicalR: true},
	}
}
