package refh2c

import (
	"math/big"

	"github.com/oasisprotocol/curve25519-voi/internal/verif/ref"
)

// Suite parameters for curve25519 / edwards25519 (section 8.5).
const (
	L = 48  // ceil((ceil(log2(p)) + k) / 8)
	K = 128 // target security level in bits
)

var (
	MontJ = big.NewInt(486662) // curve25519: K * t^2 = s^3 + J * s^2 + s
	MontK = big.NewInt(1)
	Z     = big.NewInt(2) // Elligator 2 non-square

	// sqrt(-486664) with sgn0 == 0 (Appendix D.1 / section 6.8.2; value printed in G.2.2).
	SqrtNeg486664 = func() *big.Int {
		r, ok := ref.FSqrt(ref.FNeg(big.NewInt(486664)))
		if !ok {
			panic("refh2c: -486664 is not a square")
		}
		if Sgn0(r) != 0 {
			r = ref.FNeg(r)
		}
		return r
	}()
)

func OS2IP(b []byte) *big.Int { return new(big.Int).SetBytes(b) }

// Sgn0 for m = 1 (section 4.1): x mod 2 of the canonical representative.
func Sgn0(x *big.Int) uint { return ref.FMod(x).Bit(0) }

// Inv0 (section 4): inverse with inv0(0) = 0.
func Inv0(x *big.Int) *big.Int { return ref.FInv(x) }

// HashToField is section 5.2 for F = GF(2^255-19): m = 1, L = 48.
func HashToField(expand Expander, msg, dst []byte, count int) ([]*big.Int, error) {
	// 1. len_in_bytes = count * m * L
	lenInBytes := count * 1 * L
	// 2. uniform_bytes = expand_message(msg, DST, len_in_bytes)
	uniform, err := expand(msg, dst, lenInBytes)
	if err != nil {
		return nil, err
	}
	return FieldElementsFromUniform(uniform, count), nil
}

// FieldElementsFromUniform is steps 3-9 of hash_to_field.
func FieldElementsFromUniform(uniform []byte, count int) []*big.Int {
	u := make([]*big.Int, count)
	for i := 0; i < count; i++ {
		// 5. elm_offset = L * (j + i * m); 6. tv = substr(uniform_bytes, elm_offset, L)
		tv := uniform[L*i : L*i+L]
		// 7. e_j = OS2IP(tv) mod p
		u[i] = ref.FMod(OS2IP(tv))
	}
	return u
}

// ElligatorBranch says which way map_to_curve_elligator2 went.
type ElligatorBranch int

const (
	BranchSquare    ElligatorBranch = iota // gx1 is square: x = x1, sgn0(y) = 1
	BranchNonSquare                        // gx1 is not square: x = x2, sgn0(y) = 0
)

// MapToCurveElligator2 is section 6.7.1 on the Montgomery curve
// K * t^2 = s^3 + J * s^2 + s, written exactly as printed.  exceptional
// reports that step 2 fired (1 + Z * u^2 == 0).
func MapToCurveElligator2(u *big.Int) (s, t *big.Int, branch ElligatorBranch, exceptional bool) {
	JK := ref.FDiv(MontJ, MontK)
	invK2 := ref.FInv(ref.FSq(MontK))
	g := func(x *big.Int) *big.Int { // x^3 + (J/K) * x^2 + x / K^2
		return ref.FAdd(ref.FAdd(ref.FMul(ref.FSq(x), x), ref.FMul(JK, ref.FSq(x))), ref.FMul(x, invK2))
	}
	// 1.  x1 = -(J / K) * inv0(1 + Z * u^2)
	x1 := ref.FMul(ref.FNeg(JK), Inv0(ref.FAdd(big.NewInt(1), ref.FMul(Z, ref.FSq(u)))))
	// 2.  If x1 == 0, set x1 = -(J / K)
	if x1.Sign() == 0 {
		x1 = ref.FNeg(JK)
		exceptional = true
	}
	// 3. gx1 = x1^3 + (J / K) * x1^2 + x1 / K^2
	gx1 := g(x1)
	// 4.  x2 = -x1 - (J / K)
	x2 := ref.FSub(ref.FNeg(x1), JK)
	// 5. gx2 = x2^3 + (J / K) * x2^2 + x2 / K^2
	gx2 := g(x2)
	var x, y *big.Int
	if ref.FIsSquare(gx1) {
		// 6.  If is_square(gx1), set x = x1, y = sqrt(gx1) with sgn0(y) == 1.
		x = x1
		y, _ = ref.FSqrt(gx1)
		if Sgn0(y) != 1 {
			y = ref.FNeg(y)
		}
		branch = BranchSquare
	} else {
		// 7.  Else set x = x2, y = sqrt(gx2) with sgn0(y) == 0.
		x = x2
		var ok bool
		y, ok = ref.FSqrt(gx2)
		if !ok {
			panic("refh2c: neither gx1 nor gx2 is a square")
		}
		if Sgn0(y) != 0 {
			y = ref.FNeg(y)
		}
		branch = BranchNonSquare
	}
	// 8. s = x * K; 9. t = y * K
	return ref.FMul(x, MontK), ref.FMul(y, MontK), branch, exceptional
}

// OnCurve25519 checks t^2 = s^3 + 486662 s^2 + s.
func OnCurve25519(s, t *big.Int) bool {
	rhs := ref.FAdd(ref.FAdd(ref.FMul(ref.FSq(s), s), ref.FMul(MontJ, ref.FSq(s))), s)
	return ref.FSq(t).Cmp(rhs) == 0
}

// RationalMap is Appendix D.1 (curve25519 -> edwards25519):
// (v, w) = (sqrt(-486664) * s / t, (s - 1) / (s + 1)); when a denominator is
// zero the result is the identity (0, 1).  exceptional reports that case.
func RationalMap(s, t *big.Int) (p ref.Point, exceptional bool) {
	if ref.FMod(t).Sign() == 0 || ref.FAdd(s, big.NewInt(1)).Sign() == 0 {
		return ref.Identity(), true
	}
	v := ref.FDiv(ref.FMul(SqrtNeg486664, s), t)
	w := ref.FDiv(ref.FSub(s, big.NewInt(1)), ref.FAdd(s, big.NewInt(1)))
	return ref.Point{X: v, Y: w}, false
}

// MapToCurveEdwards25519 is map_to_curve_elligator2_edwards25519 (6.8.2).
func MapToCurveEdwards25519(u *big.Int) ref.Point {
	s, t, _, _ := MapToCurveElligator2(u)
	p, _ := RationalMap(s, t)
	return p
}

// ClearCofactor: h_eff = 8 (section 8.5).
func ClearCofactor(p ref.Point) ref.Point { return p.MulCofactor() }

// HashToCurveFromUniform is hash_to_curve (section 3) after expand_message: 96 uniform bytes.
func HashToCurveFromUniform(uniform []byte) ref.Point {
	u := FieldElementsFromUniform(uniform, 2)
	q0 := MapToCurveEdwards25519(u[0])
	q1 := MapToCurveEdwards25519(u[1])
	return ClearCofactor(q0.Add(q1))
}

// EncodeToCurveFromUniform is encode_to_curve (section 3) after expand_message: 48 uniform bytes.
func EncodeToCurveFromUniform(uniform []byte) ref.Point {
	u := FieldElementsFromUniform(uniform, 1)
	return ClearCofactor(MapToCurveEdwards25519(u[0]))
}

// HashToCurve is the ..._RO_ edwards25519 suite for the given expander.
func HashToCurve(expand Expander, msg, dst []byte) (ref.Point, error) {
	uniform, err := expand(msg, dst, 2*L)
	if err != nil {
		return ref.Point{}, err
	}
	return HashToCurveFromUniform(uniform), nil
}

// EncodeToCurve is the ..._NU_ edwards25519 suite for the given expander.
func EncodeToCurve(expand Expander, msg, dst []byte) (ref.Point, error) {
	uniform, err := expand(msg, dst, L)
	if err != nil {
		return ref.Point{}, err
	}
	return EncodeToCurveFromUniform(uniform), nil
}

// HashToRistretto255 is Appendix B: ristretto255_map(expand_message(msg, DST, 64)).
// The result is an Edwards representative of the ristretto255 element.
func HashToRistretto255(expand Expander, msg, dst []byte) (ref.Point, error) {
	uniform, err := expand(msg, dst, 64)
	if err != nil {
		return ref.Point{}, err
	}
	return ref.RistrettoFromUniform(uniform), nil
}

// ---------------------------------------------------------------------------
// A faster group for the expensive predicates ([L]P = O, ECVRF): the same
// complete addition law as ref.Point.Add, homogenised (no inversion per step).

// Proj is a projective point (X:Y:Z), x = X/Z, y = Y/Z.
type Proj struct{ X, Y, Z *big.Int }

func FromAffine(p ref.Point) Proj {
	return Proj{ref.FMod(p.X), ref.FMod(p.Y), big.NewInt(1)}
}

func ProjIdentity() Proj { return Proj{big.NewInt(0), big.NewInt(1), big.NewInt(1)} }

func mm(a, b *big.Int) *big.Int { // a*b mod p
	t := new(big.Int).Mul(a, b)
	return t.Mod(t, ref.P)
}

func am(a, b *big.Int) *big.Int { // a+b mod p
	t := new(big.Int).Add(a, b)
	return t.Mod(t, ref.P)
}

func sm(a, b *big.Int) *big.Int { // a-b mod p
	t := new(big.Int).Sub(a, b)
	return t.Mod(t, ref.P)
}

// Add: with A = Z1 Z2, B = A^2, C = X1 X2, D = Y1 Y2, E = d C D, F = B - E, G = B + E:
// X3 = A F (X1 Y2 + Y1 X2), Y3 = A G (D + C), Z3 = F G   (a = -1).
// This is ref.Point.Add with the denominators cleared; it is complete.
func (p Proj) Add(q Proj) Proj {
	A := mm(p.Z, q.Z)
	B := mm(A, A)
	C := mm(p.X, q.X)
	D := mm(p.Y, q.Y)
	E := mm(ref.D, mm(C, D))
	F := sm(B, E)
	G := am(B, E)
	xy := am(mm(p.X, q.Y), mm(p.Y, q.X))
	return Proj{
		X: mm(mm(A, F), xy),
		Y: mm(mm(A, G), am(D, C)),
		Z: mm(F, G),
	}
}

// Double is Add(p, p) with d eliminated through the curve equation
// (-X^2 Z^2 + Y^2 Z^2 = Z^4 + d X^2 Y^2): with C = X^2, D = Y^2, H = Z^2,
// F = D - C, J = F - 2H:  X3 = 2XY J, Y3 = -F (C + D), Z3 = F J.
// Valid for points on the curve; ref-selftest compares it with the affine law.
func (p Proj) Double() Proj {
	C := mm(p.X, p.X)
	D := mm(p.Y, p.Y)
	H := mm(p.Z, p.Z)
	F := sm(D, C)
	J := sm(F, am(H, H))
	xy2 := mm(am(p.X, p.X), p.Y)
	negSum := sm(big.NewInt(0), am(C, D))
	return Proj{X: mm(xy2, J), Y: mm(F, negSum), Z: mm(F, J)}
}

func (p Proj) Neg() Proj { return Proj{sm(big.NewInt(0), p.X), p.Y, p.Z} }

// Mul is a fixed 4-bit-window double-and-add over the integer k >= 0 (no reduction mod L,
// so torsion components are multiplied exactly).
func (p Proj) Mul(k *big.Int) Proj {
	if k.Sign() < 0 {
		return p.Neg().Mul(new(big.Int).Neg(k))
	}
	var tab [16]Proj
	tab[0] = ProjIdentity()
	tab[1] = p
	for i := 2; i < 16; i++ {
		tab[i] = tab[i-1].Add(p)
	}
	r := ProjIdentity()
	n := (k.BitLen() + 3) / 4
	for i := n - 1; i >= 0; i-- {
		r = r.Double().Double().Double().Double()
		nib := k.Bit(4*i) | k.Bit(4*i+1)<<1 | k.Bit(4*i+2)<<2 | k.Bit(4*i+3)<<3
		if nib != 0 {
			r = r.Add(tab[nib])
		}
	}
	return r
}

func (p Proj) Affine() ref.Point {
	zi := ref.FInv(p.Z)
	return ref.Point{X: mm(p.X, zi), Y: mm(p.Y, zi)}
}

func (p Proj) IsIdentity() bool {
	return ref.FMod(p.X).Sign() == 0 && ref.FMod(p.Y).Cmp(ref.FMod(p.Z)) == 0
}

// Mul computes [k]P on affine points through the projective law.
func Mul(p ref.Point, k *big.Int) ref.Point { return FromAffine(p).Mul(k).Affine() }

// InPrimeOrderSubgroup reports [L]P = O.
func InPrimeOrderSubgroup(p ref.Point) bool { return FromAffine(p).Mul(ref.L).IsIdentity() }
