// Package refh2c is a literal reference model of RFC 9380 (hashing to elliptic
// curves) for the edwards25519 and ristretto255 suites, written with math/big,
// the std-lib hash functions and x/crypto/sha3 only.  It imports nothing from
// the repository under test.
//
// Section numbers refer to RFC 9380.
package refh2c

import (
	"crypto/md5"
	"crypto/sha1"
	"crypto/sha256"
	"crypto/sha512"
	"errors"
	"hash"

	"golang.org/x/crypto/blake2b"
	"golang.org/x/crypto/sha3"
)

// Hash describes a fixed-output hash function H for expand_message_xmd
// (section 5.3.1): b_in_bytes = B (output size), s_in_bytes = S (input block
// size).  The numbers are transcribed from FIPS 180-4 / FIPS 202 / RFC 1321,
// not asked of the hash.Hash object.
type Hash struct {
	Name string
	New  func() hash.Hash
	B    int // b_in_bytes
	S    int // s_in_bytes (input block size; rate for SHA-3)
}

var (
	MD5        = Hash{"MD5", md5.New, 16, 64}
	SHA1       = Hash{"SHA-1", sha1.New, 20, 64}
	SHA224     = Hash{"SHA-224", sha256.New224, 28, 64}
	SHA256     = Hash{"SHA-256", sha256.New, 32, 64}
	SHA384     = Hash{"SHA-384", sha512.New384, 48, 128}
	SHA512     = Hash{"SHA-512", sha512.New, 64, 128}
	SHA512_224 = Hash{"SHA-512/224", sha512.New512_224, 28, 128}
	SHA512_256 = Hash{"SHA-512/256", sha512.New512_256, 32, 128}
	SHA3_224   = Hash{"SHA3-224", sha3.New224, 28, 144}
	SHA3_256   = Hash{"SHA3-256", sha3.New256, 32, 136}
	SHA3_384   = Hash{"SHA3-384", sha3.New384, 48, 104}
	SHA3_512   = Hash{"SHA3-512", sha3.New512, 64, 72}
	BLAKE2b256 = Hash{"BLAKE2b-256", func() hash.Hash { h, _ := blake2b.New256(nil); return h }, 32, 128}
	BLAKE2b512 = Hash{"BLAKE2b-512", func() hash.Hash { h, _ := blake2b.New512(nil); return h }, 64, 128}
)

// XOF describes an extendable-output function for expand_message_xof (5.3.2).
type XOF struct {
	Name string
	New  func() sha3.ShakeHash
	Rate int // sponge rate in bytes (only used to place message-length seams)
}

var (
	SHAKE128 = XOF{"SHAKE128", sha3.NewShake128, 168}
	SHAKE256 = XOF{"SHAKE256", sha3.NewShake256, 136}
)

// The RFC's abort conditions, kept distinguishable for the harness.
var (
	ErrEll      = errors.New("refh2c: ABORT ell > 255")
	ErrLen      = errors.New("refh2c: ABORT len_in_bytes > 65535")
	ErrDSTLen   = errors.New("refh2c: ABORT len(DST) > 255")
	oversizeTag = []byte("H2C-OVERSIZE-DST-")
)

// I2OSP (RFC 8017): big-endian, fixed length.
func I2OSP(v, n int) []byte {
	out := make([]byte, n)
	for i := n - 1; i >= 0; i-- {
		out[i] = byte(v)
		v >>= 8
	}
	if v != 0 {
		panic("refh2c: I2OSP overflow")
	}
	return out
}

func cat(parts ...[]byte) []byte {
	var out []byte
	for _, p := range parts {
		out = append(out, p...)
	}
	return out
}

func hsum(h Hash, in []byte) []byte {
	x := h.New()
	x.Write(in)
	return x.Sum(nil)
}

// ShortenDSTXMD is section 5.3.3 for expand_message_xmd:
// DST = H("H2C-OVERSIZE-DST-" || a_very_long_DST) when len > 255.
func ShortenDSTXMD(h Hash, dst []byte) []byte {
	if len(dst) <= 255 {
		return dst
	}
	return hsum(h, cat(oversizeTag, dst))
}

// ShortenDSTXOF is section 5.3.3 for expand_message_xof:
// DST = H("H2C-OVERSIZE-DST-" || a_very_long_DST, ceil(2*k/8)).
func ShortenDSTXOF(x XOF, k int, dst []byte) []byte {
	if len(dst) <= 255 {
		return dst
	}
	n := (2*k + 7) / 8
	s := x.New()
	s.Write(cat(oversizeTag, dst))
	out := make([]byte, n)
	s.Read(out)
	return out
}

// MsgPrimeXMD builds DST_prime and msg_prime of section 5.3.1 literally
// (steps 3-6), for an already-short DST.
func MsgPrimeXMD(h Hash, msg, dst []byte, lenInBytes int) (dstPrime, msgPrime []byte) {
	dstPrime = cat(dst, I2OSP(len(dst), 1))
	zPad := I2OSP(0, h.S)
	libStr := I2OSP(lenInBytes, 2)
	msgPrime = cat(zPad, msg, libStr, I2OSP(0, 1), dstPrime)
	return
}

// ExpandMessageXMDStrict is section 5.3.1 exactly as printed (DST longer than
// 255 bytes aborts).
func ExpandMessageXMDStrict(h Hash, msg, dst []byte, lenInBytes int) ([]byte, error) {
	// 1. ell = ceil(len_in_bytes / b_in_bytes)
	ell := (lenInBytes + h.B - 1) / h.B
	// 2. ABORT if ell > 255 or len_in_bytes > 65535 or len(DST) > 255
	if ell > 255 {
		return nil, ErrEll
	}
	if lenInBytes > 65535 {
		return nil, ErrLen
	}
	if len(dst) > 255 {
		return nil, ErrDSTLen
	}
	// 3-6.
	dstPrime, msgPrime := MsgPrimeXMD(h, msg, dst, lenInBytes)
	// 7. b_0 = H(msg_prime)
	b0 := hsum(h, msgPrime)
	// 8. b_1 = H(b_0 || I2OSP(1, 1) || DST_prime)
	b := make([][]byte, ell+2)
	b[1] = hsum(h, cat(b0, I2OSP(1, 1), dstPrime))
	// 9-10. b_i = H(strxor(b_0, b_(i - 1)) || I2OSP(i, 1) || DST_prime)
	for i := 2; i <= ell; i++ {
		x := make([]byte, len(b0))
		for j := range x {
			x[j] = b0[j] ^ b[i-1][j]
		}
		b[i] = hsum(h, cat(x, I2OSP(i, 1), dstPrime))
	}
	// 11. uniform_bytes = b_1 || ... || b_ell
	var uniform []byte
	for i := 1; i <= ell; i++ {
		uniform = append(uniform, b[i]...)
	}
	// 12. return substr(uniform_bytes, 0, len_in_bytes)
	return uniform[:lenInBytes], nil
}

// ExpandMessageXMD is 5.3.1 with the 5.3.3 treatment of over-long DSTs.
func ExpandMessageXMD(h Hash, msg, dst []byte, lenInBytes int) ([]byte, error) {
	return ExpandMessageXMDStrict(h, msg, ShortenDSTXMD(h, dst), lenInBytes)
}

// MsgPrimeXOF builds DST_prime and msg_prime of section 5.3.2 (steps 2-3).
func MsgPrimeXOF(msg, dst []byte, lenInBytes int) (dstPrime, msgPrime []byte) {
	dstPrime = cat(dst, I2OSP(len(dst), 1))
	msgPrime = cat(msg, I2OSP(lenInBytes, 2), dstPrime)
	return
}

// ExpandMessageXOFStrict is section 5.3.2 exactly as printed.
func ExpandMessageXOFStrict(x XOF, msg, dst []byte, lenInBytes int) ([]byte, error) {
	// 1. ABORT if len_in_bytes > 65535 or len(DST) > 255
	if lenInBytes > 65535 {
		return nil, ErrLen
	}
	if len(dst) > 255 {
		return nil, ErrDSTLen
	}
	_, msgPrime := MsgPrimeXOF(msg, dst, lenInBytes)
	// 4. uniform_bytes = H(msg_prime, len_in_bytes)
	s := x.New()
	s.Write(msgPrime)
	out := make([]byte, lenInBytes)
	s.Read(out)
	return out, nil
}

// ExpandMessageXOF is 5.3.2 with the 5.3.3 treatment of over-long DSTs for
// target security level k bits.
func ExpandMessageXOF(x XOF, k int, msg, dst []byte, lenInBytes int) ([]byte, error) {
	return ExpandMessageXOFStrict(x, msg, ShortenDSTXOF(x, k, dst), lenInBytes)
}

// Expander is any expand_message instance with the hash/XOF and k fixed.
type Expander func(msg, dst []byte, lenInBytes int) ([]byte, error)

func XMD(h Hash) Expander {
	return func(msg, dst []byte, n int) ([]byte, error) { return ExpandMessageXMD(h, msg, dst, n) }
}

func XOFExpander(x XOF, k int) Expander {
	return func(msg, dst []byte, n int) ([]byte, error) { return ExpandMessageXOF(x, k, msg, dst, n) }
}
