package ref

import (
	"bytes"
	"math/big"
)

// Point is an affine point on -x^2 + y^2 = 1 + d x^2 y^2 over F_p.
type Point struct{ X, Y *big.Int }

func Identity() Point { return Point{big.NewInt(0), big.NewInt(1)} }

var BaseY = fdiv(big.NewInt(4), big.NewInt(5))
var Base = func() Point {
	p, ok := PointFromY(BaseY, 0)
	if !ok {
		panic("ref: base point")
	}
	return p
}()

// OnCurve checks the affine curve equation.
func (p Point) OnCurve() bool {
	x2, y2 := fsq(p.X), fsq(p.Y)
	lhs := fsub(y2, x2)
	rhs := fadd(one, fmul(D, fmul(x2, y2)))
	return lhs.Cmp(rhs) == 0
}

// PointFromY recovers x from y with the requested sign bit (RFC 8032 5.1.3,
// except that x=0 with sign=1 is accepted and yields x=0, as the library documents).
func PointFromY(y *big.Int, sign uint) (Point, bool) {
	y = fmod(y)
	u := fsub(fsq(y), one)
	v := fadd(fmul(D, fsq(y)), one)
	// v is never 0 because -1/d is a non-square... d is non-square so d*y^2 = -1 impossible.
	x2 := fdiv(u, v)
	x, ok := FSqrt(x2)
	if !ok {
		return Point{}, false
	}
	if x.Bit(0) != sign {
		x = fneg(x)
	}
	return Point{x, y}, true
}

// Add is the complete twisted Edwards addition law (a = -1).
func (p Point) Add(q Point) Point {
	x1y2 := fmul(p.X, q.Y)
	y1x2 := fmul(p.Y, q.X)
	y1y2 := fmul(p.Y, q.Y)
	x1x2 := fmul(p.X, q.X)
	dxy := fmul(D, fmul(x1x2, y1y2))
	x3 := fdiv(fadd(x1y2, y1x2), fadd(one, dxy))
	y3 := fdiv(fadd(y1y2, x1x2), fsub(one, dxy))
	return Point{x3, y3}
}

func (p Point) Neg() Point        { return Point{fneg(p.X), new(big.Int).Set(p.Y)} }
func (p Point) Sub(q Point) Point { return p.Add(q.Neg()) }
func (p Point) Double() Point     { return p.Add(p) }
func (p Point) Equal(q Point) bool {
	return fmod(p.X).Cmp(fmod(q.X)) == 0 && fmod(p.Y).Cmp(fmod(q.Y)) == 0
}
func (p Point) IsIdentity() bool { return p.Equal(Identity()) }

// Mul is double-and-add over the integer k >= 0 (no reduction mod L: torsion-exact).
func (p Point) Mul(k *big.Int) Point {
	if k.Sign() < 0 {
		return p.Neg().Mul(new(big.Int).Neg(k))
	}
	r := Identity()
	for i := k.BitLen() - 1; i >= 0; i-- {
		r = r.Double()
		if k.Bit(i) == 1 {
			r = r.Add(p)
		}
	}
	return r
}

func (p Point) MulCofactor() Point { return p.Double().Double().Double() }
func (p Point) IsSmallOrder() bool { return p.MulCofactor().IsIdentity() }
func (p Point) IsTorsionFree() bool { return p.Mul(L).IsIdentity() }

// Encode is RFC 8032 5.1.2.
func (p Point) Encode() []byte {
	out := LE32(fmod(p.Y))
	out[31] |= byte(fmod(p.X).Bit(0)) << 7
	return out
}

// Decode accepts exactly what the library documents for decompression: the
// masked y is reduced mod p, the point must be on the curve; x=0/sign=1 is
// accepted (as x=0).  canonical reports RFC 8032 canonicity of the string.
func Decode(b []byte) (p Point, ok bool, canonical bool) {
	if len(b) != 32 {
		return Point{}, false, false
	}
	t := append([]byte{}, b...)
	sign := uint(t[31] >> 7)
	t[31] &= 0x7f
	yraw := FromLE(t)
	p, ok = PointFromY(yraw, sign)
	if !ok {
		return Point{}, false, false
	}
	canonical = yraw.Cmp(P) < 0 && bytes.Equal(p.Encode(), b)
	return p, true, canonical
}

// Torsion returns the 8 torsion points T[i] = [i]T[1] for the generator of
// E[8] whose canonical encoding is the lexicographically determined one used
// by dalek (EIGHT_TORSION[1]).
func Torsion() [8]Point {
	// A point of order 8: y with y^2*... solve by search: any point Q, then [L]Q has order dividing 8.
	var t [8]Point
	// dalek's EIGHT_TORSION[1] has encoding c7176a70...; find a generator by trying y = 2,3,...
	for y := int64(2); ; y++ {
		q, ok := PointFromY(big.NewInt(y), 0)
		if !ok {
			continue
		}
		g := q.Mul(L)
		if g.Double().Double().IsIdentity() {
			continue // order < 8
		}
		// normalise to dalek's generator among the four order-8 points: the one whose encoding is c7176a...
		want := []byte{0xc7, 0x17, 0x6a, 0x70}
		for k := 0; k < 8; k++ {
			cand := g.Mul(big.NewInt(int64(k)))
			if bytes.Equal(cand.Encode()[:4], want) && !cand.Double().Double().IsIdentity() {
				g = cand
				break
			}
		}
		for i := 0; i < 8; i++ {
			t[i] = g.Mul(big.NewInt(int64(i)))
		}
		return t
	}
}

// ToMontgomeryU maps an Edwards point to the Montgomery u = (1+y)/(1-y); the identity (y=1) maps to 0.
func (p Point) ToMontgomeryU() *big.Int {
	return fdiv(fadd(one, p.Y), fsub(one, p.Y))
}

// ClampedScalarFromSeed is RFC 8032 5.1.5 steps 1-2.
func ClampedScalarFromSeed(seed []byte) *big.Int {
	h := sha512Sum(seed)
	return ClampInt(h[:32])
}

// ClampInt clamps 32 bytes as X25519/Ed25519 do and returns the integer.
func ClampInt(b []byte) *big.Int {
	t := append([]byte{}, b[:32]...)
	t[0] &= 248
	t[31] &= 127
	t[31] |= 64
	return FromLE(t)
}
