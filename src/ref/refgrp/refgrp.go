// Package refgrp is a faster reference for edwards25519 group computations,
// still written only with math/big and importing nothing from the library
// under test.  It homogenises the affine addition law of package ref
// (plain projective coordinates (X:Y:Z), no T coordinate, no Niels forms - so
// it shares no formula with the library's extended/Niels/cached models) and
// multiplies by scalars through a per-point table of [d*16^w]P.
//
// Everything here is pinned against the literal affine model ref.Point
// (double-and-add, two field inversions per addition) by
// cmd/refselftest/refgrp.go.
package refgrp

import (
	"math/big"

	"github.com/oasisprotocol/curve25519-voi/internal/verif/ref"
)

var (
	p   = ref.P
	d   = ref.D
	one = big.NewInt(1)
)

// PP is a projective point: x = X/Z, y = Y/Z, Z != 0.
type PP struct{ X, Y, Z *big.Int }

func mulmod(a, b *big.Int) *big.Int {
	z := new(big.Int).Mul(a, b)
	return z.Mod(z, p)
}
func addmod(a, b *big.Int) *big.Int {
	z := new(big.Int).Add(a, b)
	if z.Cmp(p) >= 0 {
		z.Sub(z, p)
	}
	return z
}
func submod(a, b *big.Int) *big.Int {
	z := new(big.Int).Sub(a, b)
	if z.Sign() < 0 {
		z.Add(z, p)
	}
	return z
}

// Identity is (0:1:1).
func Identity() PP { return PP{big.NewInt(0), big.NewInt(1), big.NewInt(1)} }

// FromAffine lifts an affine point (coordinates reduced mod p).
func FromAffine(q ref.Point) PP {
	return PP{new(big.Int).Mod(q.X, p), new(big.Int).Mod(q.Y, p), big.NewInt(1)}
}

// Affine normalises with one modular inversion.
func (a PP) Affine() ref.Point {
	zi := new(big.Int).ModInverse(a.Z, p)
	if zi == nil {
		panic("refgrp: Z = 0")
	}
	return ref.Point{X: mulmod(a.X, zi), Y: mulmod(a.Y, zi)}
}

// scratch holds the temporaries of one addition so that the hot path does not
// allocate (allocation, not arithmetic, dominates math/big at this size).
type scratch struct{ A, B, C, D, E, F, G, t1, t2, m, q big.Int }

func (s *scratch) mul(dst, a, b *big.Int) {
	s.m.Mul(a, b)
	s.q.QuoRem(&s.m, p, dst) // operands are non-negative: truncated = Euclidean remainder
}
func (s *scratch) add(dst, a, b *big.Int) {
	dst.Add(a, b)
	if dst.Cmp(p) >= 0 {
		dst.Sub(dst, p)
	}
}
func (s *scratch) sub(dst, a, b *big.Int) {
	dst.Sub(a, b)
	if dst.Sign() < 0 {
		dst.Add(dst, p)
	}
}

// addInto sets dst = a + b (dst may alias a or b).  It is the complete affine law
//
//	x3 = (x1 y2 + y1 x2) / (1 + d x1 x2 y1 y2),  y3 = (y1 y2 + x1 x2) / (1 - d x1 x2 y1 y2)
//
// with x = X/Z, y = Y/Z and denominators cleared:
//
//	A = Z1 Z2, B = A^2, C = X1 X2, D = Y1 Y2, E = d C D, F = B - E, G = B + E
//	X3 = A F (X1 Y2 + Y1 X2), Y3 = A G (D + C), Z3 = F G.
func (s *scratch) addInto(dst *PP, a, b PP) {
	s.mul(&s.A, a.Z, b.Z)
	s.mul(&s.B, &s.A, &s.A)
	s.mul(&s.C, a.X, b.X)
	s.mul(&s.D, a.Y, b.Y)
	s.mul(&s.E, &s.C, &s.D)
	s.mul(&s.E, &s.E, d)
	s.sub(&s.F, &s.B, &s.E)
	s.add(&s.G, &s.B, &s.E)
	s.mul(&s.t1, a.X, b.Y)
	s.mul(&s.t2, a.Y, b.X)
	s.add(&s.t1, &s.t1, &s.t2) // cross term
	s.add(&s.t2, &s.D, &s.C)   // D + C
	// all inputs consumed: dst may now be written
	s.mul(dst.Z, &s.F, &s.G)
	s.mul(&s.F, &s.F, &s.A)
	s.mul(dst.X, &s.F, &s.t1)
	s.mul(&s.G, &s.G, &s.A)
	s.mul(dst.Y, &s.G, &s.t2)
}

// Add returns a + b (see addInto for the formulas).
func (a PP) Add(b PP) PP {
	var s scratch
	r := PP{new(big.Int), new(big.Int), new(big.Int)}
	s.addInto(&r, a, b)
	return r
}

// Neg negates x.
func (a PP) Neg() PP {
	return PP{submod(big.NewInt(0), a.X), new(big.Int).Set(a.Y), new(big.Int).Set(a.Z)}
}

// Double is Add(a, a) (the law is unified).
func (a PP) Double() PP { return a.Add(a) }

// Table holds [dg * 16^w]P for w = 0..63 and dg = 1..15 (entry dg-1).
type Table struct {
	P ref.Point
	t [64][15]PP
}

// NewTable builds the table with 64*18 projective additions.
func NewTable(q ref.Point) *Table {
	tb := &Table{P: q}
	var s scratch
	fresh := func() PP { return PP{new(big.Int), new(big.Int), new(big.Int)} }
	base := FromAffine(q)
	for w := 0; w < 64; w++ {
		tb.t[w][0] = base
		for dg := 1; dg < 15; dg++ {
			tb.t[w][dg] = fresh()
			s.addInto(&tb.t[w][dg], tb.t[w][dg-1], base)
		}
		next := fresh()
		s.addInto(&next, tb.t[w][14], base) // [16 * 16^w]P
		base = next
	}
	return tb
}

// MulPP returns [k]P for the INTEGER k (no reduction modulo the group order;
// exact for points with a torsion component).  |k| < 2^256.
func (tb *Table) MulPP(k *big.Int) PP {
	neg := k.Sign() < 0
	a := new(big.Int).Abs(k)
	if a.BitLen() > 256 {
		panic("refgrp: scalar too large for the table")
	}
	r := Identity()
	var s scratch
	for w := 0; w < 64; w++ {
		nib := a.Bit(4*w) | a.Bit(4*w+1)<<1 | a.Bit(4*w+2)<<2 | a.Bit(4*w+3)<<3
		if nib == 0 {
			continue
		}
		s.addInto(&r, r, tb.t[w][nib-1])
	}
	if neg {
		r = r.Neg()
	}
	return r
}

// Mul returns [k]P in affine form.
func (tb *Table) Mul(k *big.Int) ref.Point { return tb.MulPP(k).Affine() }

// Sum adds affine points.
func Sum(pts ...ref.Point) ref.Point {
	r := Identity()
	var s scratch
	for _, q := range pts {
		s.addInto(&r, r, FromAffine(q))
	}
	return r.Affine()
}
