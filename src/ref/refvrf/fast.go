package refvrf

import (
	"math/big"
	"sync"

	"github.com/oasisprotocol/curve25519-voi/internal/verif/ref"
	"github.com/oasisprotocol/curve25519-voi/internal/verif/ref/refh2c"
)

// Two evaluation shortcuts for the reference verifier and prover.  They change
// how a sum of scalar multiples is *evaluated*, not what is computed: both are
// plain sums of table entries under refh2c's complete addition law, with the
// integer scalars used as they are (no reduction, so torsion components stay
// exact).  init() compares both with refh2c's plain windowed multiplication and
// refuses to start on any difference; ref-selftest additionally runs every RFC
// vector through Prove and Verify, i.e. through these routines.

var (
	baseOnce sync.Once
	baseTab  [64][16]refh2c.Proj // baseTab[i][j] = [j * 16^i]B
)

func nibble(k *big.Int, i int) uint {
	return k.Bit(4*i) | k.Bit(4*i+1)<<1 | k.Bit(4*i+2)<<2 | k.Bit(4*i+3)<<3
}

// mulBase computes [k]B for 0 <= k < 2^256 as the sum over the radix-16 digits
// k_i of the precomputed [k_i * 16^i]B.
func mulBase(k *big.Int) refh2c.Proj {
	if k.Sign() < 0 || k.BitLen() > 256 {
		return refh2c.FromAffine(ref.Base).Mul(k)
	}
	baseOnce.Do(func() {
		p := refh2c.FromAffine(ref.Base)
		for i := 0; i < 64; i++ {
			baseTab[i][0] = refh2c.ProjIdentity()
			for j := 1; j < 16; j++ {
				baseTab[i][j] = baseTab[i][j-1].Add(p)
			}
			p = p.Double().Double().Double().Double()
		}
	})
	r := refh2c.ProjIdentity()
	for i := 0; i < 64; i++ {
		if d := nibble(k, i); d != 0 {
			r = r.Add(baseTab[i][d])
		}
	}
	return r
}

// MulBase is [k]B as an affine point.
func MulBase(k *big.Int) ref.Point { return mulBase(k).Affine() }

// straus computes [a]P + [b]Q for a, b >= 0 with one shared chain of doublings
// (radix 16, digits of a and b added from their own tables).
func straus(a *big.Int, p refh2c.Proj, b *big.Int, q refh2c.Proj) refh2c.Proj {
	if a.Sign() < 0 || b.Sign() < 0 {
		return p.Mul(a).Add(q.Mul(b))
	}
	var tp, tq [16]refh2c.Proj
	tp[0], tq[0] = refh2c.ProjIdentity(), refh2c.ProjIdentity()
	for j := 1; j < 16; j++ {
		tp[j] = tp[j-1].Add(p)
		tq[j] = tq[j-1].Add(q)
	}
	n := a.BitLen()
	if b.BitLen() > n {
		n = b.BitLen()
	}
	n = (n + 3) / 4
	r := refh2c.ProjIdentity()
	for i := n - 1; i >= 0; i-- {
		r = r.Double().Double().Double().Double()
		if d := nibble(a, i); d != 0 {
			r = r.Add(tp[d])
		}
		if d := nibble(b, i); d != 0 {
			r = r.Add(tq[d])
		}
	}
	return r
}

func init() {
	t4 := ref.Point{X: new(big.Int).Set(ref.SqrtM1), Y: big.NewInt(0)}           // order 4
	t2 := ref.Point{X: big.NewInt(0), Y: new(big.Int).Sub(ref.P, big.NewInt(1))} // order 2
	p := refh2c.FromAffine(ref.Base.Mul(big.NewInt(7)).Add(t4))                  // mixed order
	q := refh2c.FromAffine(ref.Base.Mul(big.NewInt(11)).Add(t2))
	if !t4.OnCurve() || !t2.OnCurve() {
		panic("refvrf: self-check points are not on the curve")
	}
	two := big.NewInt(2)
	ks := []*big.Int{big.NewInt(0), big.NewInt(1), big.NewInt(0x1234567), new(big.Int).Sub(ref.L, big.NewInt(1)),
		new(big.Int).Sub(new(big.Int).Exp(two, big.NewInt(128), nil), big.NewInt(1)),
		new(big.Int).Sub(new(big.Int).Exp(two, big.NewInt(256), nil), big.NewInt(1))}
	b := refh2c.FromAffine(ref.Base)
	for i, k := range ks {
		if !mulBase(k).Affine().Equal(b.Mul(k).Affine()) {
			panic("refvrf: fixed-base multiplication disagrees with the plain reference multiplication")
		}
		k2 := ks[(i+3)%len(ks)]
		if !straus(k, p, k2, q).Affine().Equal(p.Mul(k).Add(q.Mul(k2)).Affine()) {
			panic("refvrf: interleaved double multiplication disagrees with the plain reference multiplication")
		}
	}
}
