// Package refvrf is a literal reference model of ECVRF-EDWARDS25519-SHA512-ELL2
// (RFC 9381, sections 5.1-5.5) and of the older draft-irtf-cfrg-vrf-10 challenge
// format, written with math/big and crypto/sha512 only.  It imports nothing
// from the repository under test.
package refvrf

import (
	"math/big"

	"github.com/oasisprotocol/curve25519-voi/internal/verif/ref"
	"github.com/oasisprotocol/curve25519-voi/internal/verif/ref/refh2c"
)

// Format selects the challenge computation.
type Format int

const (
	// RFC9381: c = ECVRF_challenge_generation(Y, H, Gamma, U, V) (section 5.4.3).
	RFC9381 Format = iota
	// Draft10: c = ECVRF_hash_points(H, Gamma, U, V) (draft-10 section 5.4.3; Y is not hashed).
	Draft10
)

func (f Format) String() string {
	if f == Draft10 {
		return "draft10"
	}
	return "rfc9381"
}

// Ciphersuite constants (section 5.5, ECVRF-EDWARDS25519-SHA512-ELL2).
const (
	SuiteString = 0x04
	PtLen       = 32
	CLen        = 16
	QLen        = 32
	HLen        = 64
	Cofactor    = 8
	ProofLen    = PtLen + CLen + QLen
)

// h2c_suite_ID_string and the DST "ECVRF_" || h2c_suite_ID_string || suite_string.
const H2CSuiteID = "edwards25519_XMD:SHA-512_ELL2_NU_"

func DST() []byte {
	return append([]byte("ECVRF_"+H2CSuiteID), SuiteString)
}

func cat(parts ...[]byte) []byte {
	var out []byte
	for _, p := range parts {
		out = append(out, p...)
	}
	return out
}

// Key is the result of the RFC 8032 key derivation used by the suite (section 5.5).
type Key struct {
	Seed   []byte   // SK, 32 bytes
	X      *big.Int // secret scalar x
	Y      ref.Point
	PK     []byte // point_to_string(Y)
	Prefix []byte // hashed_sk_string[32..63]
}

// DeriveKey: hashed_sk = SHA-512(SK); x = clamp(first 32 bytes); Y = x*B.
func DeriveKey(seed []byte) Key {
	h := ref.SHA512(seed)
	x := ref.ClampInt(h[:32])
	y := MulBase(x)
	return Key{Seed: append([]byte{}, seed...), X: x, Y: y, PK: y.Encode(), Prefix: append([]byte{}, h[32:64]...)}
}

// EncodeToCurve is ECVRF_encode_to_curve_h2c_suite (section 5.4.1.2):
// string_to_be_hashed = encode_to_curve_salt || alpha_string; H = encode(...)
// with the NU suite and the DST above.
func EncodeToCurve(salt, alpha []byte) ref.Point {
	p, err := refh2c.EncodeToCurve(refh2c.XMD(refh2c.SHA512), cat(salt, alpha), DST())
	if err != nil {
		panic(err) // cannot happen: 48 output bytes, 40-byte DST
	}
	return p
}

// NonceGeneration is ECVRF_nonce_generation_RFC8032 (section 5.4.2.2).
func NonceGeneration(k Key, hString []byte) *big.Int {
	kString := ref.SHA512(k.Prefix, hString)
	return ref.SMod(ref.FromLE(kString))
}

// Challenge is ECVRF_challenge_generation (section 5.4.3) on encoded points;
// for Draft10 the first point (Y) is left out.
func Challenge(f Format, y, h, gamma, u, v []byte) *big.Int {
	str := []byte{SuiteString, 0x02}
	if f == RFC9381 {
		str = append(str, y...)
	}
	str = cat(str, h, gamma, u, v, []byte{0x00})
	cString := ref.SHA512(str)
	return ref.FromLE(cString[:CLen])
}

// Trace holds the intermediate values of a proof.
type Trace struct {
	H, Gamma, U, V ref.Point
	K, C, S        *big.Int
	Pi             []byte
	Beta           []byte
}

// ProveWithNonce is ECVRF_prove (section 5.1) with the nonce supplied by the caller.
func ProveWithNonce(f Format, key Key, alpha []byte, k *big.Int) Trace {
	var t Trace
	t.H = EncodeToCurve(key.PK, alpha)
	t.Gamma = refh2c.Mul(t.H, key.X)
	t.K = k
	t.U = MulBase(k)
	t.V = refh2c.Mul(t.H, k)
	t.C = Challenge(f, key.PK, t.H.Encode(), t.Gamma.Encode(), t.U.Encode(), t.V.Encode())
	t.S = ref.SAdd(k, ref.SMul(t.C, key.X))
	t.Pi = EncodeProof(t.Gamma.Encode(), t.C, t.S)
	t.Beta = GammaToHash(t.Gamma)
	return t
}

// Prove is ECVRF_prove with the deterministic RFC 8032-style nonce.
func Prove(f Format, key Key, alpha []byte) Trace {
	h := EncodeToCurve(key.PK, alpha)
	return ProveWithNonce(f, key, alpha, NonceGeneration(key, h.Encode()))
}

// EncodeProof: pi_string = point_to_string(Gamma) || int_to_string(c, cLen) || int_to_string(s, qLen).
func EncodeProof(gamma []byte, c, s *big.Int) []byte {
	return cat(gamma, ref.LEn(c, CLen), ref.LEn(s, QLen))
}

// StringToPoint is RFC 8032 section 5.1.3 decoding: non-canonical y, x = 0 with
// the sign bit set, and off-curve strings are INVALID.
func StringToPoint(b []byte) (ref.Point, bool) {
	p, ok, canonical := ref.Decode(b)
	if !ok || !canonical {
		return ref.Point{}, false
	}
	return p, true
}

// DecodeProof is ECVRF_decode_proof (section 5.4.4).
func DecodeProof(pi []byte) (gamma ref.Point, c, s *big.Int, ok bool) {
	if len(pi) != ProofLen {
		return ref.Point{}, nil, nil, false
	}
	gamma, ok = StringToPoint(pi[:PtLen])
	if !ok {
		return ref.Point{}, nil, nil, false
	}
	c = ref.FromLE(pi[PtLen : PtLen+CLen])
	s = ref.FromLE(pi[PtLen+CLen:])
	if s.Cmp(ref.L) >= 0 {
		return ref.Point{}, nil, nil, false
	}
	return gamma, c, s, true
}

// GammaToHash: beta = Hash(suite_string || 0x03 || point_to_string(cofactor * Gamma) || 0x00).
func GammaToHash(gamma ref.Point) []byte {
	return ref.SHA512([]byte{SuiteString, 0x03}, gamma.MulCofactor().Encode(), []byte{0x00})
}

// ProofToHash is ECVRF_proof_to_hash (section 5.2).
func ProofToHash(pi []byte) ([]byte, bool) {
	gamma, _, _, ok := DecodeProof(pi)
	if !ok {
		return nil, false
	}
	return GammaToHash(gamma), true
}

// ValidateKey is ECVRF_validate_key (section 5.4.5): cofactor * Y must not be the identity.
func ValidateKey(y ref.Point) bool { return !y.MulCofactor().IsIdentity() }

// Reason explains a verification verdict (for evidence classes).
type Reason string

const (
	Valid       Reason = "valid"
	BadKeyLen   Reason = "pk-length"
	BadKey      Reason = "pk-not-a-point"
	SmallKey    Reason = "pk-small-order"
	BadProof    Reason = "proof-undecodable"
	BadEquation Reason = "challenge-mismatch"
)

// Verify is ECVRF_verify (section 5.3) with validate_key as given.
func Verify(f Format, pk, pi, alpha []byte, validateKey bool) (bool, []byte, Reason) {
	if len(pk) != PtLen {
		return false, nil, BadKeyLen
	}
	// 1-2. Y = string_to_point(PK_string)
	y, ok := StringToPoint(pk)
	if !ok {
		return false, nil, BadKey
	}
	// 3. validate_key
	if validateKey && !ValidateKey(y) {
		return false, nil, SmallKey
	}
	// 4-6. decode_proof
	gamma, c, s, ok := DecodeProof(pi)
	if !ok {
		return false, nil, BadProof
	}
	// 7. H = ECVRF_encode_to_curve(encode_to_curve_salt, alpha_string), salt = PK_string
	h := EncodeToCurve(pk, alpha)
	// 8. U = s*B - c*Y
	u := mulBase(s).Add(refh2c.FromAffine(y).Mul(c).Neg()).Affine()
	// 9. V = s*H - c*Gamma
	v := straus(s, refh2c.FromAffine(h), c, refh2c.FromAffine(gamma).Neg()).Affine()
	// 10. c' = ECVRF_challenge_generation(Y, H, Gamma, U, V)
	cPrime := Challenge(f, y.Encode(), h.Encode(), gamma.Encode(), u.Encode(), v.Encode())
	// 11.
	if c.Cmp(cPrime) != 0 {
		return false, nil, BadEquation
	}
	return true, GammaToHash(gamma), Valid
}
