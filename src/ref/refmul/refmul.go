// Package refmul is a faster reference scalar multiplication for the affine
// reference group of package ref: the same complete twisted-Edwards addition
// law, with the denominators cleared (projective coordinates X:Y:Z), so that a
// 255-bit multiplication costs one field inversion instead of ~760.
//
// Derivation (a = -1).  With x_i = X_i/Z_i, y_i = Y_i/Z_i the affine law
//
//	x3 = (x1 y2 + y1 x2) / (1 + d x1 x2 y1 y2)
//	y3 = (y1 y2 + x1 x2) / (1 - d x1 x2 y1 y2)
//
// becomes, with A = Z1 Z2, B = A^2, C = X1 X2, D = Y1 Y2, E = d C D,
// F = B - E, G = B + E:
//
//	x3 = A (X1 Y2 + Y1 X2) / G        y3 = A (D + C) / F
//
// i.e. X3 = A F (X1 Y2 + Y1 X2), Y3 = A G (D + C), Z3 = F G.  The law is
// complete on this curve (d is a non-square), so the same formula doubles.
// It imports nothing from the repository under test and is pinned to
// ref.Point.Mul by ref-selftest.
package refmul

import (
	"math/big"

	"github.com/oasisprotocol/curve25519-voi/internal/verif/ref"
)

type proj struct{ x, y, z *big.Int }

func fromAffine(p ref.Point) proj {
	return proj{ref.FMod(p.X), ref.FMod(p.Y), big.NewInt(1)}
}

func (p proj) add(q proj) proj {
	a := ref.FMul(p.z, q.z)
	b := ref.FSq(a)
	c := ref.FMul(p.x, q.x)
	d := ref.FMul(p.y, q.y)
	e := ref.FMul(ref.D, ref.FMul(c, d))
	f := ref.FSub(b, e)
	g := ref.FAdd(b, e)
	cross := ref.FAdd(ref.FMul(p.x, q.y), ref.FMul(p.y, q.x))
	return proj{
		x: ref.FMul(ref.FMul(a, f), cross),
		y: ref.FMul(ref.FMul(a, g), ref.FAdd(d, c)),
		z: ref.FMul(f, g),
	}
}

func (p proj) affine() ref.Point {
	zi := ref.FInv(p.z)
	return ref.Point{X: ref.FMul(p.x, zi), Y: ref.FMul(p.y, zi)}
}

// Mul returns [k]p for any integer k (no reduction mod L: torsion-exact), by
// left-to-right double-and-add.
func Mul(p ref.Point, k *big.Int) ref.Point {
	if k.Sign() < 0 {
		return Mul(p.Neg(), new(big.Int).Neg(k))
	}
	base := fromAffine(p)
	r := fromAffine(ref.Identity())
	for i := k.BitLen() - 1; i >= 0; i-- {
		r = r.add(r)
		if k.Bit(i) == 1 {
			r = r.add(base)
		}
	}
	return r.affine()
}

// BaseMul returns [k]B.
func BaseMul(k *big.Int) ref.Point { return Mul(ref.Base, k) }

// IsTorsionFree reports [L]p = O.
func IsTorsionFree(p ref.Point) bool { return Mul(p, ref.L).IsIdentity() }
