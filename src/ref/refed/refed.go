// Package refed is the reference model of Ed25519 / Ed25519ctx / Ed25519ph
// (RFC 8032 section 5.1) and of the parameterised verification predicate of
// property C01.  It is written with math/big and crypto/sha512 only and
// imports nothing from the repository under test.
//
// Conventions: "m" is always the octet string that enters the hashes, i.e.
// PH(M): the message itself for Ed25519/Ed25519ctx and SHA-512(M) for
// Ed25519ph (this is also what both the library and Go's crypto/ed25519
// expect as "message" when Hash == crypto.SHA512).
package refed

import (
	"bytes"
	"crypto/sha512"
	"math/big"
	"sync"

	"github.com/oasisprotocol/curve25519-voi/internal/verif/ref"
)

// Dom2Prefix is the RFC 8032 section 2 domain-separation string.
const Dom2Prefix = "SigEd25519 no Ed25519 collisions"

// Variant selects Ed25519 (Ph false, empty context), Ed25519ctx (Ph false,
// non-empty context) or Ed25519ph (Ph true, any context of 0..255 octets).
type Variant struct {
	Ph      bool
	Context []byte
}

// Pure reports plain Ed25519 (dom2 is the empty string).
func (v Variant) Pure() bool { return !v.Ph && len(v.Context) == 0 }

// Dom2 is dom2(x, y) of RFC 8032: empty for Ed25519, otherwise
// "SigEd25519 no Ed25519 collisions" || octet(x) || octet(OLEN(y)) || y with
// x = 0 for ctx and x = 1 for ph.
func (v Variant) Dom2() []byte {
	if v.Pure() {
		return nil
	}
	if len(v.Context) > 255 {
		panic("refed: context longer than 255 octets has no dom2")
	}
	out := []byte(Dom2Prefix)
	if v.Ph {
		out = append(out, 1)
	} else {
		out = append(out, 0)
	}
	out = append(out, byte(len(v.Context)))
	return append(out, v.Context...)
}

// Prehash is PH for Ed25519ph.
func Prehash(msg []byte) []byte {
	h := sha512.Sum512(msg)
	return h[:]
}

func hashModL(parts ...[]byte) *big.Int {
	h := sha512.New()
	for _, p := range parts {
		h.Write(p)
	}
	return new(big.Int).Mod(ref.FromLE(h.Sum(nil)), ref.L)
}

// Challenge is k = SHA-512(dom2 || R-bytes || A-bytes || m) mod L.
func Challenge(v Variant, rBytes, aBytes, m []byte) *big.Int {
	return hashModL(v.Dom2(), rBytes, aBytes, m)
}

// ---------------------------------------------------------------------------
// Projective arithmetic (the affine complete addition law of ref.Point with
// the denominators cleared; validated against ref.Point in ref-selftest).

// PPoint is (X:Y:Z) with x = X/Z, y = Y/Z.
type PPoint struct{ X, Y, Z *big.Int }

// Field helpers on canonical representatives in [0, p).  Reduction uses
// 2^255 = 19 (mod p) instead of a division (three times faster with math/big;
// pinned against the division-based ref.Point arithmetic in ref-selftest).
var (
	mask255  = new(big.Int).Sub(new(big.Int).Lsh(big.NewInt(1), 255), big.NewInt(1))
	nineteen = big.NewInt(19)
)

func reduce(x *big.Int) *big.Int { // x >= 0, may be modified
	for x.BitLen() > 255 {
		hi := new(big.Int).Rsh(x, 255)
		x.And(x, mask255)
		x.Add(x, hi.Mul(hi, nineteen))
	}
	if x.Cmp(ref.P) >= 0 {
		x.Sub(x, ref.P)
	}
	return x
}

func mul(a, b *big.Int) *big.Int { return reduce(new(big.Int).Mul(a, b)) }
func add(a, b *big.Int) *big.Int { return reduce(new(big.Int).Add(a, b)) }
func sub(a, b *big.Int) *big.Int { return reduce(new(big.Int).Sub(new(big.Int).Add(a, ref.P), b)) }

// FromAffine lifts an affine point.
func FromAffine(p ref.Point) PPoint {
	return PPoint{new(big.Int).Mod(p.X, ref.P), new(big.Int).Mod(p.Y, ref.P), big.NewInt(1)}
}

// PIdentity is (0:1:1).
func PIdentity() PPoint { return PPoint{big.NewInt(0), big.NewInt(1), big.NewInt(1)} }

// Add: x3 = (x1y2+y1x2)/(1+d x1x2y1y2), y3 = (y1y2+x1x2)/(1-d x1x2y1y2) in
// homogeneous form (complete: d is a non-square, -1 is a square).
func (p PPoint) Add(q PPoint) PPoint {
	a := mul(p.Z, q.Z)
	b := mul(a, a)
	c := mul(p.X, q.X)
	d := mul(p.Y, q.Y)
	e := mul(ref.D, mul(c, d))
	f := sub(b, e)
	g := add(b, e)
	// x1y2 + y1x2 = (x1+y1)(x2+y2) - x1x2 - y1y2
	xy := sub(sub(mul(add(p.X, p.Y), add(q.X, q.Y)), c), d)
	return PPoint{mul(a, mul(f, xy)), mul(a, mul(g, add(d, c))), mul(f, g)}
}

// Neg is (-X:Y:Z).
func (p PPoint) Neg() PPoint {
	return PPoint{sub(new(big.Int), p.X), p.Y, p.Z}
}

// IsIdentity: X = 0 and Y = Z.
func (p PPoint) IsIdentity() bool {
	return p.X.Sign() == 0 && p.Y.Cmp(p.Z) == 0
}

// MulCofactor is [8]P by three doublings.
func (p PPoint) MulCofactor() PPoint {
	q := p.Add(p)
	q = q.Add(q)
	return q.Add(q)
}

// Affine normalises.
func (p PPoint) Affine() ref.Point {
	zi := ref.FInv(p.Z)
	return ref.Point{X: mul(p.X, zi), Y: mul(p.Y, zi)}
}

// Table holds [2^i]P for i = 0..255; Mul adds the selected entries.
type Table []PPoint

// NewTable precomputes the doublings of P.
func NewTable(p ref.Point) Table {
	t := make(Table, 256)
	q := FromAffine(p)
	for i := range t {
		t[i] = q
		q = q.Add(q)
	}
	return t
}

// Mul is [k]P for 0 <= k < 2^256 (k is used as an integer, not reduced).
func (t Table) Mul(k *big.Int) PPoint {
	if k.Sign() < 0 || k.BitLen() > 256 {
		panic("refed: scalar out of table range")
	}
	r := PIdentity()
	for i := 0; i < k.BitLen(); i++ {
		if k.Bit(i) == 1 {
			r = r.Add(t[i])
		}
	}
	return r
}

var (
	baseOnce  sync.Once
	baseTable Table
)

// BaseTable is the table of the base point.
func BaseTable() Table {
	baseOnce.Do(func() { baseTable = NewTable(ref.Base) })
	return baseTable
}

// BaseMul is [k]B as an affine point.
func BaseMul(k *big.Int) ref.Point { return BaseTable().Mul(k).Affine() }

// ---------------------------------------------------------------------------
// Key derivation and signing (RFC 8032 5.1.5, 5.1.6).

// Key is an expanded RFC 8032 private key.
type Key struct {
	Seed   []byte
	A      *big.Int // the clamped secret scalar (an integer in [2^254, 2^255), not reduced)
	Prefix []byte   // h[32..63]
	Pub    []byte   // ENC([A]B)
}

// NewKey derives the key from the 32-octet seed.
func NewKey(seed []byte) *Key {
	if len(seed) != 32 {
		panic("refed: seed must be 32 octets")
	}
	h := sha512.Sum512(seed)
	a := ref.ClampInt(h[:32])
	return &Key{Seed: append([]byte{}, seed...), A: a, Prefix: append([]byte{}, h[32:]...), Pub: BaseMul(a).Encode()}
}

// Sign is the deterministic RFC 8032 signature of m = PH(M) under variant v.
func (k *Key) Sign(v Variant, m []byte) []byte {
	dom := v.Dom2()
	r := hashModL(dom, k.Prefix, m)
	rEnc := BaseMul(r).Encode()
	c := hashModL(dom, rEnc, k.Pub, m)
	s := new(big.Int).Mod(new(big.Int).Add(r, new(big.Int).Mul(c, k.A)), ref.L)
	return append(rEnc, ref.LE32(s)...)
}

// ---------------------------------------------------------------------------
// The parameterised verification predicate of C01.

// Flags are the five VerifyOptions switches.
type Flags struct {
	AllowSmallOrderA   bool
	AllowSmallOrderR   bool
	AllowNonCanonicalA bool
	AllowNonCanonicalR bool
	Cofactorless       bool
}

// FlagsFromMask: bit0 SA, bit1 SR, bit2 NA, bit3 NR, bit4 CL.
func FlagsFromMask(m int) Flags {
	return Flags{m&1 != 0, m&2 != 0, m&4 != 0, m&8 != 0, m&16 != 0}
}

// Mask is the inverse of FlagsFromMask.
func (f Flags) Mask() int {
	m := 0
	for i, b := range []bool{f.AllowSmallOrderA, f.AllowSmallOrderR, f.AllowNonCanonicalA, f.AllowNonCanonicalR, f.Cofactorless} {
		if b {
			m |= 1 << uint(i)
		}
	}
	return m
}

// Admissible is false for the documented incompatible pair.
func (f Flags) Admissible() bool { return !(f.AllowNonCanonicalR && f.Cofactorless) }

// Name renders the set flags, e.g. "SA+SR+NA+CL" ("none" for the empty set).
func (f Flags) Name() string {
	s := ""
	for i, n := range []string{"SA", "SR", "NA", "NR", "CL"} {
		if f.Mask()&(1<<uint(i)) != 0 {
			if s != "" {
				s += "+"
			}
			s += n
		}
	}
	if s == "" {
		return "none"
	}
	return s
}

// The four presets as the specifications define them.
var (
	// PresetDefault: the library's documented default (strongly binding: rejects small-order A).
	PresetDefault = Flags{AllowSmallOrderR: true}
	// PresetStdLib: ref10 / Go crypto/ed25519: cofactorless, byte comparison of R, A only has to decode.
	PresetStdLib = Flags{AllowSmallOrderA: true, AllowSmallOrderR: true, AllowNonCanonicalA: true, Cofactorless: true}
	// PresetFIPS: FIPS 186-5 / RFC 8032 with the cofactored equation: canonical encodings only, no order checks.
	PresetFIPS = Flags{AllowSmallOrderA: true, AllowSmallOrderR: true}
	// PresetZIP215: ZIP-215: cofactored, every encoding that decodes is accepted, no order checks.
	PresetZIP215 = Flags{AllowSmallOrderA: true, AllowSmallOrderR: true, AllowNonCanonicalA: true, AllowNonCanonicalR: true}
)

// PointFacts is what the predicate needs to know about one 32-octet string.
type PointFacts struct {
	Decodes    bool
	Canonical  bool // RFC 8032 5.1.3 would decode it (y < p, and not x = 0 with sign 1)
	SmallOrder bool // [8]P = O
	P          ref.Point
}

var decodeCache sync.Map // string(32 bytes) -> *PointFacts
var decodeCacheN int64
var cacheMu sync.Mutex

const cacheCap = 1 << 14

// DecodeFacts decodes b (any length) and classifies it.
func DecodeFacts(b []byte) *PointFacts {
	if len(b) != 32 {
		return &PointFacts{}
	}
	if v, ok := decodeCache.Load(string(b)); ok {
		return v.(*PointFacts)
	}
	p, ok, canon := ref.Decode(b)
	f := &PointFacts{Decodes: ok}
	if ok {
		f.Canonical = canon
		f.P = p
		f.SmallOrder = FromAffine(p).MulCofactor().IsIdentity()
	}
	cacheMu.Lock()
	if decodeCacheN < cacheCap {
		decodeCacheN++
		decodeCache.Store(string(b), f)
	}
	cacheMu.Unlock()
	return f
}

var tableCache sync.Map // string(32 bytes) -> Table
var tableCacheN int64

const tableCap = 1 << 10

func tableFor(b []byte, p ref.Point) Table {
	if v, ok := tableCache.Load(string(b)); ok {
		return v.(Table)
	}
	t := NewTable(p)
	cacheMu.Lock()
	if tableCacheN < tableCap {
		tableCacheN++
		tableCache.Store(string(b), t)
	}
	cacheMu.Unlock()
	return t
}

// Facts are the option-independent ingredients of the predicate for one
// (A, m, sig, variant); Verdict derives the decision for any flag set.
type Facts struct {
	LenOK          bool // signature is 64 octets
	SInRange       bool // S < L
	A, R           *PointFacts
	K              *big.Int
	EqCofactored   bool // [8]([S]B - [k]A - R) = O            (defined when LenOK, SInRange, A and R decode)
	EqCofactorless bool // ENC([S]B - [k]A) = R-bytes          (defined when LenOK, SInRange, A decodes)
}

// Prepared caches everything that does not depend on S.
type Prepared struct {
	A, R   *PointFacts
	rBytes []byte
	K      *big.Int
	kA     PPoint // [k]A
}

// Prepare evaluates the S-independent part for public key aBytes, R-bytes rBytes (32 octets), m, v.
func Prepare(aBytes, rBytes, m []byte, v Variant) *Prepared {
	p := &Prepared{A: DecodeFacts(aBytes), R: DecodeFacts(rBytes), rBytes: append([]byte{}, rBytes...)}
	p.K = Challenge(v, rBytes, aBytes, m)
	if p.A.Decodes {
		p.kA = tableFor(aBytes, p.A.P).Mul(p.K)
	}
	return p
}

// WithS completes the facts for the 32-octet string sBytes.
func (p *Prepared) WithS(sBytes []byte) *Facts {
	f := &Facts{LenOK: true, A: p.A, R: p.R, K: p.K}
	s := ref.FromLE(sBytes)
	f.SInRange = s.Cmp(ref.L) < 0
	if !f.SInRange || !p.A.Decodes {
		return f
	}
	q := BaseTable().Mul(s).Add(p.kA.Neg()) // [S]B - [k]A
	f.EqCofactorless = bytes.Equal(q.Affine().Encode(), p.rBytes)
	if p.R.Decodes {
		f.EqCofactored = q.Add(FromAffine(p.R.P).Neg()).MulCofactor().IsIdentity()
	}
	return f
}

// Analyse evaluates all ingredients for arbitrary byte strings.
func Analyse(aBytes, m, sig []byte, v Variant) *Facts {
	if len(sig) != 64 {
		return &Facts{A: DecodeFacts(aBytes), R: &PointFacts{}}
	}
	return Prepare(aBytes, sig[:32], m, v).WithS(sig[32:])
}

// Verdict is the C01 predicate for flag set fl; reason names the first
// conjunct that fails ("" when the signature is accepted).
func (f *Facts) Verdict(fl Flags) (bool, string) {
	switch {
	case !f.LenOK:
		return false, "sig-length"
	case !f.SInRange:
		return false, "S>=L"
	case !f.A.Decodes:
		return false, "A-undecodable"
	case !fl.AllowNonCanonicalA && !f.A.Canonical:
		return false, "A-noncanonical"
	case !fl.AllowSmallOrderA && f.A.SmallOrder:
		return false, "A-small-order"
	case !f.R.Decodes:
		return false, "R-undecodable"
	case !fl.AllowNonCanonicalR && !f.R.Canonical:
		return false, "R-noncanonical"
	case !fl.AllowSmallOrderR && f.R.SmallOrder:
		return false, "R-small-order"
	}
	if fl.Cofactorless {
		if !f.EqCofactorless {
			return false, "equation-cofactorless"
		}
		return true, ""
	}
	if !f.EqCofactored {
		return false, "equation-cofactored"
	}
	return true, ""
}

// Verify is the predicate in one call.
func Verify(aBytes, m, sig []byte, v Variant, fl Flags) bool {
	ok, _ := Analyse(aBytes, m, sig, v).Verdict(fl)
	return ok
}
