package ref

import "math/big"

// RFC 9496 section 4 (ristretto255), written literally.

var (
	InvSqrtAMinusD = func() *big.Int { // 1/sqrt(a-d), a=-1
		_, r := SqrtRatioI(one, fsub(fneg(one), D))
		return r
	}()
	SqrtADMinusOne = func() *big.Int { // sqrt(a*d - 1)
		r, ok := FSqrt(fsub(fneg(D), one))
		if !ok {
			panic("ref: sqrt(ad-1)")
		}
		return FAbs(r)
	}()
	OneMinusDSq = fsub(one, fsq(D))
	DMinusOneSq = fsq(fsub(D, one))
)

// The RFC's constants (decimal), used to pin the signs of the derived values above.
var (
	rfcInvSqrtAMinusD, _ = new(big.Int).SetString("54469307008909316920995813868745141605393597292927456921205312896311721017578", 10)
	rfcSqrtADMinusOne, _ = new(big.Int).SetString("25063068953384623474111414158702152701244531502492656460079210482610430750235", 10)
)

func init() {
	// RFC 9496 fixes particular roots; use them literally.
	if fsq(rfcSqrtADMinusOne).Cmp(fsub(fneg(D), one)) != 0 {
		panic("ref: RFC SQRT_AD_MINUS_ONE is not a root")
	}
	if fmul(fsq(rfcInvSqrtAMinusD), fsub(fneg(one), D)).Cmp(one) != 0 {
		panic("ref: RFC INVSQRT_A_MINUS_D is not an inverse root")
	}
	InvSqrtAMinusD = rfcInvSqrtAMinusD
	SqrtADMinusOne = rfcSqrtADMinusOne
}

// RistrettoDecode implements RFC 9496 4.3.1; ok=false on rejection.
func RistrettoDecode(b []byte) (Point, bool) {
	if len(b) != 32 {
		return Point{}, false
	}
	s := FromLE(b)
	if s.Cmp(P) >= 0 || s.Bit(0) == 1 {
		return Point{}, false
	}
	ss := fsq(s)
	u1 := fsub(one, ss)
	u2 := fadd(one, ss)
	u2s := fsq(u2)
	v := fsub(fneg(fmul(D, fsq(u1))), u2s)
	wasSquare, invsqrt := SqrtRatioI(one, fmul(v, u2s))
	denX := fmul(invsqrt, u2)
	denY := fmul(fmul(invsqrt, denX), v)
	x := FAbs(fmul(fmul(two, s), denX))
	y := fmul(u1, denY)
	t := fmul(x, y)
	if !wasSquare || FIsNegative(t) || y.Sign() == 0 {
		return Point{}, false
	}
	return Point{x, y}, true
}

// RistrettoEncode implements RFC 9496 4.3.2 on an affine representative (Z=1, T=xy).
func RistrettoEncode(p Point) []byte {
	x0, y0 := fmod(p.X), fmod(p.Y)
	z0 := big.NewInt(1)
	t0 := fmul(x0, y0)
	u1 := fmul(fadd(z0, y0), fsub(z0, y0))
	u2 := fmul(x0, y0)
	_, invsqrt := SqrtRatioI(one, fmul(u1, fsq(u2)))
	den1 := fmul(invsqrt, u1)
	den2 := fmul(invsqrt, u2)
	zInv := fmul(fmul(den1, den2), t0)
	ix0 := fmul(x0, SqrtM1)
	iy0 := fmul(y0, SqrtM1)
	enchantedDenominator := fmul(den1, InvSqrtAMinusD)
	rotate := FIsNegative(fmul(t0, zInv))
	x, y, denInv := x0, y0, den2
	if rotate {
		x, y, denInv = iy0, ix0, enchantedDenominator
	}
	if FIsNegative(fmul(x, zInv)) {
		y = fneg(y)
	}
	s := FAbs(fmul(denInv, fsub(z0, y)))
	return LE32(s)
}

// RistrettoEqual implements RFC 9496 4.3.3.
func RistrettoEqual(p, q Point) bool {
	a := fmul(p.X, q.Y).Cmp(fmul(p.Y, q.X)) == 0
	b := fmul(p.Y, q.Y).Cmp(fmul(p.X, q.X)) == 0
	return a || b
}

// RistrettoMap is MAP(t) of RFC 9496 4.3.4.
func RistrettoMap(t *big.Int) Point {
	r := fmul(SqrtM1, fsq(t))
	u := fmul(fadd(r, one), OneMinusDSq)
	v := fmul(fsub(fneg(one), fmul(r, D)), fadd(r, D))
	wasSquare, s := SqrtRatioI(u, v)
	sPrime := fneg(FAbs(fmul(s, t)))
	c := fneg(one)
	if !wasSquare {
		s = sPrime
		c = r
	}
	n := fsub(fmul(fmul(c, fsub(r, one)), DMinusOneSq), v)
	w0 := fmul(fmul(two, s), v)
	w1 := fmul(n, SqrtADMinusOne)
	w2 := fsub(one, fsq(s))
	w3 := fadd(one, fsq(s))
	// (w0*w3 : w2*w1 : w1*w3 : w0*w2) -> affine
	z := fmul(w1, w3)
	return Point{fdiv(fmul(w0, w3), z), fdiv(fmul(w2, w1), z)}
}

// RistrettoFromUniform is the one-way map of RFC 9496 4.3.4 on 64 bytes.
func RistrettoFromUniform(b []byte) Point {
	lo := append([]byte{}, b[:32]...)
	hi := append([]byte{}, b[32:64]...)
	lo[31] &= 0x7f
	hi[31] &= 0x7f
	r0 := fmod(FromLE(lo))
	r1 := fmod(FromLE(hi))
	return RistrettoMap(r0).Add(RistrettoMap(r1))
}
