package refsr

import (
	"math/big"
	"math/bits"

	"github.com/oasisprotocol/curve25519-voi/internal/verif/ref"
)

// fe is a field element of GF(2^255-19) held in four saturated 64-bit limbs
// (little-endian).  The value is any representative below 2^256; reduction
// uses 2^256 = 38 (mod p).  This representation (4 x 64, saturated) is unlike
// both of the library's (5 x 51 and 10 x 25.5 bits); it exists only to make the
// math/big-based reference fast enough, and is pinned to math/big in the self-test.
type fe [4]uint64

func feFromBig(v *big.Int) fe {
	var r fe
	b := ref.LE32(ref.FMod(v))
	for i := 0; i < 4; i++ {
		for k := 7; k >= 0; k-- {
			r[i] = r[i]<<8 | uint64(b[8*i+k])
		}
	}
	return r
}

func (a fe) big() *big.Int {
	b := make([]byte, 32)
	for i := 0; i < 4; i++ {
		for k := 0; k < 8; k++ {
			b[8*i+k] = byte(a[i] >> (8 * uint(k)))
		}
	}
	return ref.FMod(ref.FromLE(b))
}

// addSmall adds c (< 2^63) to a, returning the carry out of 2^256.
func (a *fe) addSmall(c uint64) uint64 {
	var cy uint64
	a[0], cy = bits.Add64(a[0], c, 0)
	a[1], cy = bits.Add64(a[1], 0, cy)
	a[2], cy = bits.Add64(a[2], 0, cy)
	a[3], cy = bits.Add64(a[3], 0, cy)
	return cy
}

func feAdd(a, b fe) fe {
	var r fe
	var cy uint64
	r[0], cy = bits.Add64(a[0], b[0], 0)
	r[1], cy = bits.Add64(a[1], b[1], cy)
	r[2], cy = bits.Add64(a[2], b[2], cy)
	r[3], cy = bits.Add64(a[3], b[3], cy)
	for cy != 0 { // 2^256 = 38
		cy = r.addSmall(38)
	}
	return r
}

func feSub(a, b fe) fe {
	var r fe
	var bw uint64
	r[0], bw = bits.Sub64(a[0], b[0], 0)
	r[1], bw = bits.Sub64(a[1], b[1], bw)
	r[2], bw = bits.Sub64(a[2], b[2], bw)
	r[3], bw = bits.Sub64(a[3], b[3], bw)
	for bw != 0 { // -2^256 = -38
		r[0], bw = bits.Sub64(r[0], 38, 0)
		r[1], bw = bits.Sub64(r[1], 0, bw)
		r[2], bw = bits.Sub64(r[2], 0, bw)
		r[3], bw = bits.Sub64(r[3], 0, bw)
	}
	return r
}

func feMul(a, b fe) fe {
	// schoolbook 4 x 4 -> 8 limbs
	var t [8]uint64
	for i := 0; i < 4; i++ {
		var carry uint64
		for j := 0; j < 4; j++ {
			hi, lo := bits.Mul64(a[i], b[j])
			var c uint64
			lo, c = bits.Add64(lo, carry, 0)
			hi += c
			t[i+j], c = bits.Add64(t[i+j], lo, 0)
			carry = hi + c
		}
		t[i+4] = carry
	}
	// fold the high half: 2^256 = 38
	var r fe
	var carry uint64
	for i := 0; i < 4; i++ {
		hi, lo := bits.Mul64(t[4+i], 38)
		var c uint64
		lo, c = bits.Add64(lo, carry, 0)
		hi += c
		r[i], c = bits.Add64(t[i], lo, 0)
		carry = hi + c
	}
	// carry < 2^7: fold again
	cy := r.addSmall(carry * 38)
	for cy != 0 {
		cy = r.addSmall(38)
	}
	return r
}
