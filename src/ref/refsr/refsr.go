// Package refsr is the reference model of sr25519 (schnorrkel) for C12, written
// from the schnorrkel definition (keys.rs, sign.rs, context.rs) over the Merlin
// reference (refstrobe), RFC 9496 ristretto255 (package ref) and math/big.
// It imports nothing from the repository under test.  It is pinned to real
// schnorrkel by cmd/refselftest/refsr.go (key-expansion known answers, the
// from_ed25519_bytes example of the schnorrkel documentation, a signature
// produced by schnorrkel/substrate).
package refsr

import (
	"crypto/sha512"
	"math/big"

	"github.com/oasisprotocol/curve25519-voi/internal/verif/ref"
	"github.com/oasisprotocol/curve25519-voi/internal/verif/ref/refstrobe"
)

// ---------------------------------------------------------------------------
// Group arithmetic: projective twisted Edwards coordinates (X:Y:Z), a = -1,
// addition law "add-2008-bbjlp" (Bernstein-Birkner-Joye-Lange-Peters), which is
// complete because a is a square and d is not.  This is deliberately NOT the
// extended-coordinate formula set the library uses; it is pinned to the affine
// law of package ref in the self-test.
// ---------------------------------------------------------------------------

type proj struct{ X, Y, Z fe }

var (
	feD   = feFromBig(ref.D)
	feOne = feFromBig(big.NewInt(1))
)

func fromAffine(p ref.Point) proj {
	return proj{feFromBig(p.X), feFromBig(p.Y), feOne}
}

func identity() proj { return proj{fe{}, feOne, feOne} }

func (p proj) add(q proj) proj {
	a := feMul(p.Z, q.Z)
	b := feMul(a, a)
	c := feMul(p.X, q.X)
	d := feMul(p.Y, q.Y)
	e := feMul(feD, feMul(c, d))
	f := feSub(b, e)
	g := feAdd(b, e)
	x3 := feMul(feMul(a, f), feSub(feSub(feMul(feAdd(p.X, p.Y), feAdd(q.X, q.Y)), c), d))
	y3 := feMul(feMul(a, g), feAdd(d, c)) // D - a*C with a = -1
	z3 := feMul(f, g)
	return proj{x3, y3, z3}
}

func (p proj) neg() proj { return proj{feSub(fe{}, p.X), p.Y, p.Z} }

func (p proj) affine() ref.Point {
	zi := ref.FInv(p.Z.big())
	return ref.Point{X: ref.FMul(p.X.big(), zi), Y: ref.FMul(p.Y.big(), zi)}
}

// FeSelfTest exposes the limb arithmetic to the reference self-test: it returns
// (a*b, a+b, a-b) mod p computed with the 4 x 64 representation.
func FeSelfTest(a, b *big.Int) (m, s, d *big.Int) {
	x, y := feFromBig(a), feFromBig(b)
	return feMul(x, y).big(), feAdd(x, y).big(), feSub(x, y).big()
}

// FeSelfTestRaw is FeSelfTest on raw (possibly unreduced, < 2^256) limb values.
func FeSelfTestRaw(a, b [4]uint64) (m, s, d *big.Int) {
	x, y := fe(a), fe(b)
	return feMul(x, y).big(), feAdd(x, y).big(), feSub(x, y).big()
}

// Table holds multiples of a point P for fixed-base multiplication: either the 256
// doublings 2^i P (cheap to build, about 128 additions per multiplication) or, when
// windowed, j * 16^i * P for j = 1..15, i = 0..63 (about 60 additions per multiplication).
type Table struct {
	pow [256]proj
	win [][16]proj
}

// NewTable precomputes the doublings of p.
func NewTable(p ref.Point) *Table {
	t := &Table{}
	t.pow[0] = fromAffine(p)
	for i := 1; i < 256; i++ {
		t.pow[i] = t.pow[i-1].add(t.pow[i-1])
	}
	return t
}

// NewWindowTable additionally precomputes the radix-16 window multiples.
func NewWindowTable(p ref.Point) *Table {
	t := NewTable(p)
	t.win = make([][16]proj, 64)
	for i := 0; i < 64; i++ {
		t.win[i][1] = t.pow[4*i]
		for j := 2; j < 16; j++ {
			t.win[i][j] = t.win[i][j-1].add(t.win[i][1])
		}
	}
	return t
}

func (t *Table) mul(k *big.Int) proj {
	if k.Sign() < 0 || k.BitLen() > 256 {
		panic("refsr: scalar out of range")
	}
	r := identity()
	if t.win != nil {
		for i := 0; 4*i < k.BitLen(); i++ {
			nib := k.Bit(4*i) | k.Bit(4*i+1)<<1 | k.Bit(4*i+2)<<2 | k.Bit(4*i+3)<<3
			if nib != 0 {
				r = r.add(t.win[i][nib])
			}
		}
		return r
	}
	for i := 0; i < k.BitLen(); i++ {
		if k.Bit(i) == 1 {
			r = r.add(t.pow[i])
		}
	}
	return r
}

// Mul returns [k]P as an affine point.
func (t *Table) Mul(k *big.Int) ref.Point { return t.mul(k).affine() }

// BaseTable is the table of the ristretto255 / Ed25519 base point.
var BaseTable = NewWindowTable(ref.Base)

// ---------------------------------------------------------------------------
// Keys (schnorrkel keys.rs)
// ---------------------------------------------------------------------------

// SecretKey is schnorrkel's SecretKey { key: Scalar, nonce: [u8; 32] }.
type SecretKey struct {
	Key   *big.Int // reduced mod L
	Nonce [32]byte
}

// Bytes is SecretKey::to_bytes: canonical scalar || nonce.
func (sk SecretKey) Bytes() []byte {
	return append(ref.LE32(sk.Key), sk.Nonce[:]...)
}

// PublicKey is the ristretto255 encoding of [key]B.
func (sk SecretKey) PublicKey() []byte {
	return ref.RistrettoEncode(BaseTable.Mul(sk.Key))
}

// KeypairBytes is Keypair::to_bytes: secret (64) || public (32).
func (sk SecretKey) KeypairBytes() []byte { return append(sk.Bytes(), sk.PublicKey()...) }

// ExpandUniform is MiniSecretKey::expand_uniform.
func ExpandUniform(mini []byte) SecretKey {
	t := refstrobe.NewTranscript([]byte("ExpandSecretKeys"))
	t.AppendMessage([]byte("mini"), mini)
	wide := t.ChallengeBytes([]byte("sk"), 64)
	var sk SecretKey
	sk.Key = ref.SMod(ref.FromLE(wide))
	copy(sk.Nonce[:], t.ChallengeBytes([]byte("no"), 32))
	return sk
}

// ExpandEd25519 is MiniSecretKey::expand_ed25519: SHA-512, Ed25519 clamping, then the
// scalar is divided by the cofactor (schnorrkel keeps keys "mod l": bytes >> 3).
func ExpandEd25519(mini []byte) SecretKey {
	h := sha512.Sum512(mini)
	return FromEd25519Bytes(clamp(h[:32]), h[32:64])
}

func clamp(b []byte) []byte {
	k := append([]byte{}, b...)
	k[0] &= 248
	k[31] &= 63
	k[31] |= 64
	return k
}

// FromEd25519Bytes is SecretKey::from_ed25519_bytes on (scalar bytes, nonce):
// divide_scalar_bytes_by_cofactor is an exact integer division by 8 of the
// little-endian value (a right shift by three bits).
func FromEd25519Bytes(scalar32, nonce32 []byte) SecretKey {
	v := ref.FromLE(scalar32)
	v.Rsh(v, 3)
	var sk SecretKey
	sk.Key = v // < 2^252 < L whenever the input is clamped: already canonical
	copy(sk.Nonce[:], nonce32)
	return sk
}

// Generate is SecretKey::generate_with: 64 bytes -> wide reduction, then 32 nonce bytes.
func Generate(entropy96 []byte) SecretKey {
	var sk SecretKey
	sk.Key = ref.SMod(ref.FromLE(entropy96[:64]))
	copy(sk.Nonce[:], entropy96[64:96])
	return sk
}

// ---------------------------------------------------------------------------
// Signing contexts (schnorrkel context.rs)
// ---------------------------------------------------------------------------

// SigningContext is SigningContext::new(context).
func SigningContext(context []byte) *refstrobe.Transcript {
	t := refstrobe.NewTranscript([]byte("SigningContext"))
	t.AppendMessage([]byte(""), context)
	return t
}

// TranscriptBytes is SigningContext::bytes.
func TranscriptBytes(context, msg []byte) *refstrobe.Transcript {
	t := SigningContext(context)
	t.AppendMessage([]byte("sign-bytes"), msg)
	return t
}

// TranscriptPrehashed covers SigningContext::hash256 ("sign-256", 32 bytes),
// hash512 ("sign-512", 64 bytes) and xof ("sign-XoF", 32 bytes).
func TranscriptPrehashed(context []byte, label string, prehash []byte) *refstrobe.Transcript {
	t := SigningContext(context)
	t.AppendMessage([]byte(label), prehash)
	return t
}

// ---------------------------------------------------------------------------
// Signatures (schnorrkel sign.rs)
// ---------------------------------------------------------------------------

func challengeScalar(t *refstrobe.Transcript, label string) *big.Int {
	return ref.SMod(ref.FromLE(t.ChallengeBytes([]byte(label), 64)))
}

// Signed is everything the reference derives while signing.
type Signed struct {
	Sig       []byte   // R || s with bit 7 of byte 63 set
	Witness   *big.Int // r
	Challenge *big.Int // k
	R         []byte
	S         *big.Int
}

// Sign is SecretKey::sign(t, public_key): t is NOT modified (a clone is used, as
// schnorrkel consumes the transcript by value).  entropy32 is what the external
// RNG hands to TranscriptRngBuilder::finalize.
func Sign(sk SecretKey, publicKey []byte, transcript *refstrobe.Transcript, entropy32 []byte) Signed {
	t := transcript.Clone()
	t.AppendMessage([]byte("proto-name"), []byte("Schnorr-sig"))
	t.AppendMessage([]byte("sign:pk"), publicKey)
	// witness_scalar(b"signing", &[&self.nonce]): 64 bytes of the transcript RNG, wide-reduced
	rng := t.BuildRng().RekeyWithWitnessBytes([]byte("signing"), sk.Nonce[:]).Finalize(entropy32)
	r := ref.SMod(ref.FromLE(rng.FillBytes(64)))
	R := ref.RistrettoEncode(BaseTable.Mul(r))
	t.AppendMessage([]byte("sign:R"), R)
	k := challengeScalar(t, "sign:c")
	s := ref.SAdd(ref.SMul(k, sk.Key), r)
	sig := append(append([]byte{}, R...), ref.LE32(s)...)
	sig[63] |= 128
	return Signed{Sig: sig, Witness: r, Challenge: k, R: R, S: s}
}

// Challenge is the verifier's challenge scalar for (public key bytes, R bytes).
func Challenge(transcript *refstrobe.Transcript, publicKey, R []byte) *big.Int {
	t := transcript.Clone()
	t.AppendMessage([]byte("proto-name"), []byte("Schnorr-sig"))
	t.AppendMessage([]byte("sign:pk"), publicKey)
	t.AppendMessage([]byte("sign:R"), R)
	return challengeScalar(t, "sign:c")
}

// DecodeSignature is Signature::from_bytes: exactly 64 bytes, marker bit set,
// scalar (marker cleared) canonical.  R is NOT decompressed here.
func DecodeSignature(b []byte) (R []byte, s *big.Int, ok bool) {
	if len(b) != 64 || b[63]&128 == 0 {
		return nil, nil, false
	}
	sb := append([]byte{}, b[32:]...)
	sb[31] &= 127
	s = ref.FromLE(sb)
	if s.Cmp(ref.L) >= 0 {
		return nil, nil, false
	}
	return append([]byte{}, b[:32]...), s, true
}

// DecodePublicKey is PublicKey::from_bytes: a canonical ristretto255 encoding.
func DecodePublicKey(b []byte) (ref.Point, bool) {
	if len(b) != 32 {
		return ref.Point{}, false
	}
	return ref.RistrettoDecode(b)
}

// DecodeSecretKey is SecretKey::from_bytes: canonical scalar || nonce.
func DecodeSecretKey(b []byte) (SecretKey, bool) {
	if len(b) != 64 {
		return SecretKey{}, false
	}
	k := ref.FromLE(b[:32])
	if k.Cmp(ref.L) >= 0 {
		return SecretKey{}, false
	}
	sk := SecretKey{Key: k}
	copy(sk.Nonce[:], b[32:])
	return sk, true
}

// DecodeKeyPair: both halves decode and the public half is the encoding of [key]B
// (the consistency requirement is the property's; schnorrkel itself trusts the bytes).
func DecodeKeyPair(b []byte) (SecretKey, bool) {
	if len(b) != 96 {
		return SecretKey{}, false
	}
	sk, ok := DecodeSecretKey(b[:64])
	if !ok {
		return SecretKey{}, false
	}
	if _, ok := DecodePublicKey(b[64:]); !ok {
		return SecretKey{}, false
	}
	pk := sk.PublicKey()
	for i := range pk {
		if pk[i] != b[64+i] {
			return SecretKey{}, false
		}
	}
	return sk, true
}

// Verifier caches the decoded public key and its doubling table.
type Verifier struct {
	PK  []byte
	ok  bool
	tab *Table
}

// NewVerifier decodes the public key (ok=false: every verification fails).
func NewVerifier(publicKey []byte) *Verifier { return newVerifier(publicKey, false) }

// NewFastVerifier spends more on precomputation (for keys that verify many signatures).
func NewFastVerifier(publicKey []byte) *Verifier { return newVerifier(publicKey, true) }

func newVerifier(publicKey []byte, window bool) *Verifier {
	v := &Verifier{PK: append([]byte{}, publicKey...)}
	if a, ok := DecodePublicKey(publicKey); ok {
		v.ok = true
		if window {
			v.tab = NewWindowTable(a)
		} else {
			v.tab = NewTable(a)
		}
	}
	return v
}

// Valid reports whether the public key decoded.
func (v *Verifier) Valid() bool { return v.ok }

// Verify is PublicKey::verify(t, signature) on signature BYTES: the signature
// must decode (length, marker, canonical scalar), R must be a canonical
// ristretto255 encoding, and R = [s]B - [k]A in the ristretto group.
func (v *Verifier) Verify(transcript *refstrobe.Transcript, sig []byte) bool {
	if !v.ok {
		return false
	}
	Rb, s, ok := DecodeSignature(sig)
	if !ok {
		return false
	}
	R, ok := ref.RistrettoDecode(Rb)
	if !ok {
		return false
	}
	k := Challenge(transcript, v.PK, Rb)
	// [s]B - [k]A
	rhs := BaseTable.mul(s).add(v.tab.mul(k).neg()).affine()
	return ref.RistrettoEqual(R, rhs)
}
