// Package refstrobe is the reference model for C13 (and, through Merlin, for
// C12): Keccak-f[1600] written as plain loops from FIPS 202, STROBE-128/1600
// transcribed byte-at-a-time from the STROBE v1.0.2 specification, and the
// Merlin v1.0 transcript / transcript RNG from merlin.cool.  Nothing in here
// imports the repository; the package is pinned to x/crypto/sha3 and to the
// published Merlin/STROBE vectors by cmd/refselftest/refstrobe.go.
package refstrobe

import "math/bits"

// Keccak-f[1600], FIPS 202 section 3.  The state is the 200-byte string S;
// lane (x, y) is the little-endian 64-bit word at byte offset 8*(x+5*y).

var (
	roundConstants [24]uint64
	rotationOffset [5][5]uint // rho offsets r[x][y]
	// flat-index tables derived from the formulas below (lane (x, y) lives at index x+5y)
	rhoOffset [25]int // rho offset of lane i
	piTarget  [25]int // pi: lane (x, y) moves to (y, 2x+3y)
	chi1      [25]int // index of lane (x+1, y)
	chi2      [25]int // index of lane (x+2, y)
)

// rcBit is rc(t) of FIPS 202 algorithm 5: the output of the LFSR
// x^8 + x^6 + x^5 + x^4 + 1 after t steps.
func rcBit(t int) uint64 {
	if t%255 == 0 {
		return 1
	}
	r := uint(1) // R = 10000000, bit i of r is R[i]
	for i := 1; i <= t%255; i++ {
		// R = 0 || R ; R[0]^=R[8]; R[4]^=R[8]; R[5]^=R[8]; R[6]^=R[8]; R = Trunc8[R]
		r <<= 1
		if r&0x100 != 0 {
			r ^= 0x171 // bits 0,4,5,6 and drop bit 8
		}
	}
	return uint64(r & 1)
}

func init() {
	// iota constants, algorithm 6: RC[2^j - 1] = rc(j + 7 i_r)
	for ir := 0; ir < 24; ir++ {
		var rc uint64
		for j := 0; j <= 6; j++ {
			rc |= rcBit(j+7*ir) << ((uint(1) << uint(j)) - 1)
		}
		roundConstants[ir] = rc
	}
	// rho offsets, algorithm 2
	x, y := 1, 0
	for t := 0; t <= 23; t++ {
		rotationOffset[x][y] = uint((t+1)*(t+2)/2) % 64
		x, y = y, (2*x+3*y)%5
	}
	for x := 0; x < 5; x++ {
		for y := 0; y < 5; y++ {
			i := x + 5*y
			rhoOffset[i] = int(rotationOffset[x][y])
			piTarget[i] = y + 5*((2*x+3*y)%5) // algorithm 3 read backwards: A'[y][2x+3y] = A[x][y]
			chi1[i] = (x+1)%5 + 5*y
			chi2[i] = (x+2)%5 + 5*y
		}
	}
}

// KeccakF1600 applies the 24-round permutation to the 200-byte state
// (theta, rho, pi, chi, iota as plain loops over the 25 lanes).
func KeccakF1600(s *[200]byte) {
	var a, b [25]uint64
	for i := 0; i < 25; i++ {
		var w uint64
		for k := 7; k >= 0; k-- {
			w = w<<8 | uint64(s[8*i+k])
		}
		a[i] = w
	}
	for round := 0; round < 24; round++ {
		// theta
		var c, d [5]uint64
		for x := 0; x < 5; x++ {
			c[x] = a[x] ^ a[x+5] ^ a[x+10] ^ a[x+15] ^ a[x+20]
		}
		for x := 0; x < 5; x++ {
			d[x] = c[(x+4)%5] ^ bits.RotateLeft64(c[(x+1)%5], 1)
		}
		for i := 0; i < 25; i++ {
			a[i] ^= d[i%5]
		}
		// rho and pi
		for i := 0; i < 25; i++ {
			b[piTarget[i]] = bits.RotateLeft64(a[i], rhoOffset[i])
		}
		// chi
		for i := 0; i < 25; i++ {
			a[i] = b[i] ^ (^b[chi1[i]] & b[chi2[i]])
		}
		// iota
		a[0] ^= roundConstants[round]
	}
	for i := 0; i < 25; i++ {
		w := a[i]
		for k := 0; k < 8; k++ {
			s[8*i+k] = byte(w >> (8 * uint(k)))
		}
	}
}

// RoundConstants exposes the derived iota constants (pinned against FIPS 202 in the self-test).
func RoundConstants() [24]uint64 { return roundConstants }

// Sponge computes Keccak[c](msg || suffix-bits, outLen) with pad10*1, where
// dsByte is the domain-separation suffix already merged with the first pad
// bit (0x06 for SHA-3, 0x1f for SHAKE, 0x01 for legacy Keccak).
func Sponge(rate int, dsByte byte, msg []byte, outLen int) []byte {
	var st [200]byte
	m := append(append([]byte{}, msg...), dsByte)
	for len(m)%rate != 0 {
		m = append(m, 0)
	}
	m[len(m)-1] ^= 0x80
	for off := 0; off < len(m); off += rate {
		for i := 0; i < rate; i++ {
			st[i] ^= m[off+i]
		}
		KeccakF1600(&st)
	}
	var out []byte
	for {
		out = append(out, st[:rate]...)
		if len(out) >= outLen {
			return out[:outLen]
		}
		KeccakF1600(&st)
	}
}
