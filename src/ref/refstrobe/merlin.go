package refstrobe

// Merlin v1.0 (merlin.cool, "Transcript Protocols" / "Transcript-based RNGs"):
//
//	new(label)                      STROBE-128("Merlin v1.0"); append_message("dom-sep", label)
//	append_message(label, m)        meta-AD(label); meta-AD(LE32(len m), more); AD(m)
//	challenge_bytes(label, n)       meta-AD(label); meta-AD(LE32(n), more); PRF(n)
//	build_rng                       clone of the STROBE state
//	rekey_with_witness_bytes(l, w)  meta-AD(l); meta-AD(LE32(len w), more); KEY(w)
//	finalize(rng)                   meta-AD("rng"); KEY(32 bytes from rng)
//	fill_bytes(n)                   meta-AD(LE32(n)); PRF(n)

// LE32 is the 4-byte little-endian length framing.
func LE32(n int) []byte {
	if n < 0 || uint64(n) > 0xffffffff {
		panic("refstrobe: length does not fit 32 bits")
	}
	return []byte{byte(n), byte(n >> 8), byte(n >> 16), byte(n >> 24)}
}

// Transcript is a Merlin transcript.
type Transcript struct{ S *Strobe }

// NewTranscript creates a transcript with the application label.
func NewTranscript(label []byte) *Transcript {
	t := &Transcript{S: NewStrobe([]byte("Merlin v1.0"))}
	t.AppendMessage([]byte("dom-sep"), label)
	return t
}

// AppendMessage appends a labelled message.
func (t *Transcript) AppendMessage(label, message []byte) {
	t.S.MetaAD(label, false)
	t.S.MetaAD(LE32(len(message)), true)
	t.S.AD(message, false)
}

// ChallengeBytes extracts an n-byte challenge.
func (t *Transcript) ChallengeBytes(label []byte, n int) []byte {
	t.S.MetaAD(label, false)
	t.S.MetaAD(LE32(n), true)
	return t.S.PRF(n, false)
}

// Clone forks the transcript.
func (t *Transcript) Clone() *Transcript { return &Transcript{S: t.S.Clone()} }

// RngBuilder is Merlin's TranscriptRngBuilder.
type RngBuilder struct{ S *Strobe }

// BuildRng forks the transcript into an RNG builder.
func (t *Transcript) BuildRng() *RngBuilder { return &RngBuilder{S: t.S.Clone()} }

// RekeyWithWitnessBytes rekeys with labelled witness data.
func (b *RngBuilder) RekeyWithWitnessBytes(label, witness []byte) *RngBuilder {
	b.S.MetaAD(label, false)
	b.S.MetaAD(LE32(len(witness)), true)
	b.S.KEY(witness, false)
	return b
}

// Finalize rekeys with the 32 bytes drawn from the external RNG.
func (b *RngBuilder) Finalize(random32 []byte) *Rng {
	if len(random32) != 32 {
		panic("refstrobe: Finalize takes exactly 32 bytes of entropy")
	}
	b.S.MetaAD([]byte("rng"), false)
	b.S.KEY(random32, false)
	r := &Rng{S: b.S}
	b.S = nil
	return r
}

// Rng is Merlin's TranscriptRng.
type Rng struct{ S *Strobe }

// FillBytes returns the next n bytes of the transcript RNG.
func (r *Rng) FillBytes(n int) []byte {
	r.S.MetaAD(LE32(n), false)
	return r.S.PRF(n, false)
}
