package refstrobe

// STROBE-128/1600, transcribed from the Python reference in the STROBE
// v1.0.2 specification (strobe.sourceforge.io/specs): _run_f, _duplex,
// _begin_op, operate.  One byte at a time, no block shortcuts.  Only the
// operations Merlin needs are exposed (AD, meta-AD, KEY, PRF) but operate()
// keeps the specification's general cbefore/cafter structure.

// Flag bits (specification section 5).
const (
	FlagI = 1 << 0
	FlagA = 1 << 1
	FlagC = 1 << 2
	FlagT = 1 << 3
	FlagM = 1 << 4
	FlagK = 1 << 5
)

const (
	keccakBytes = 200 // F.nbytes()
	security    = 128
)

// Strobe is the specification's object state.
type Strobe struct {
	St          [keccakBytes]byte
	Pos         int
	PosBegin    int
	CurFlags    byte
	R           int
	initialized bool

	// Stat counts specification-side events (not part of the state): used only
	// for the reference-side coverage classes of the checks.
	Stat Stats
}

// Stats are reference-side event counters.
type Stats struct {
	FullF         int // F run because the cursor reached the rate
	ForcedF       int // F run because a C operation began with a non-zero cursor
	ForcedSkipped int // force_f requested with the cursor at 0 (framing ended exactly on the boundary)
	BeginAtRm1    int // begin_op with the cursor on the last byte of the block (framing straddles the boundary)
	BeginAtRm2    int // begin_op with two bytes left (framing ends exactly on the boundary)
}

// NewStrobe is __init__(proto) of the specification.
func NewStrobe(proto []byte) *Strobe {
	s := &Strobe{}
	s.R = keccakBytes - security/4
	// Domain separation doesn't use Strobe padding.
	domain := []byte{1, byte(s.R), 1, 0, 1, 12 * 8}
	domain = append(domain, []byte("STROBEv1.0.2")...)
	s.duplex(domain, false, false, true)
	// cSHAKE separation is done.  Turn on Strobe padding and do per-proto separation.
	s.R -= 2
	s.initialized = true
	s.Operate(FlagA|FlagM, proto, false)
	return s
}

func (s *Strobe) runF() {
	if s.initialized {
		s.St[s.Pos] ^= byte(s.PosBegin)
		s.St[s.Pos+1] ^= 0x04
		s.St[s.R+1] ^= 0x80
	}
	KeccakF1600(&s.St)
	s.Pos, s.PosBegin = 0, 0
}

func (s *Strobe) duplex(data []byte, cbefore, cafter, forceF bool) []byte {
	if cbefore && cafter {
		panic("refstrobe: cbefore and cafter")
	}
	out := append([]byte{}, data...)
	for i := range out {
		if cbefore {
			out[i] ^= s.St[s.Pos]
		}
		s.St[s.Pos] ^= out[i]
		if cafter {
			out[i] = s.St[s.Pos]
		}
		s.Pos++
		if s.Pos == s.R {
			s.Stat.FullF++
			s.runF()
		}
	}
	if forceF {
		if s.Pos != 0 {
			s.Stat.ForcedF++
			s.runF()
		} else {
			s.Stat.ForcedSkipped++
		}
	}
	return out
}

func (s *Strobe) beginOp(flags byte) {
	if flags&FlagT != 0 {
		panic("refstrobe: transport operations are not modelled")
	}
	switch s.Pos {
	case s.R - 1:
		s.Stat.BeginAtRm1++
	case s.R - 2:
		s.Stat.BeginAtRm2++
	}
	oldBegin := s.PosBegin
	s.PosBegin = s.Pos + 1
	s.duplex([]byte{byte(oldBegin), flags}, false, false, flags&(FlagC|FlagK) != 0)
}

// Operate is operate(flags, data, more) without metadata.  For operations that
// take no input (PRF) data must be a zero-filled slice of the wanted length.
// The processed bytes are returned for operations with I and A set.
func (s *Strobe) Operate(flags byte, data []byte, more bool) []byte {
	if flags&(FlagK|1<<6|1<<7) != 0 {
		panic("refstrobe: unsupported flags")
	}
	if more {
		if flags != s.CurFlags {
			panic("refstrobe: flag mismatch on more")
		}
	} else {
		s.beginOp(flags)
		s.CurFlags = flags
	}
	cafter := flags&(FlagC|FlagI|FlagT) == (FlagC | FlagT)
	cbefore := flags&FlagC != 0 && !cafter
	processed := s.duplex(data, cbefore, cafter, false)
	if flags&(FlagI|FlagA) == (FlagI | FlagA) {
		return processed
	}
	return nil
}

// AD absorbs associated data.
func (s *Strobe) AD(data []byte, more bool) { s.Operate(FlagA, data, more) }

// MetaAD absorbs framing data.
func (s *Strobe) MetaAD(data []byte, more bool) { s.Operate(FlagA|FlagM, data, more) }

// KEY overwrites the state with key material.
func (s *Strobe) KEY(data []byte, more bool) { s.Operate(FlagA|FlagC, data, more) }

// PRF extracts n pseudo-random bytes.
func (s *Strobe) PRF(n int, more bool) []byte {
	return s.Operate(FlagI|FlagA|FlagC, make([]byte, n), more)
}

// Clone is a value copy.
func (s *Strobe) Clone() *Strobe { c := *s; return &c }
