#!/usr/bin/env python3
"""Regenerates MANIFEST.json from lib/checks_meta.py (run after editing the metadata)."""
import json, os, sys
ROOT = os.path.dirname(os.path.dirname(os.path.abspath(__file__)))
sys.path.insert(0, os.path.join(ROOT, "lib"))
from checks_meta import CHECKS, NOT_APPLICABLE, ENGINES

props = [json.loads(l)["id"] for l in open(os.path.join(ROOT, "properties.jsonl"))]
checks = []
for pid in sorted(CHECKS):
    m = CHECKS[pid]
    checks.append(dict(
        property_id=pid,
        quick_cmd="./verif check %s --tier quick" % pid,
        thorough_cmd="./verif check %s --tier thorough" % pid,
        evidence_file="/verif/evidence/%s.json" % pid,
        replay_cmd_template="./verif replay {path}",
        engine=m.get("engine", "enum"),
        level_claimed=dict(category=m["level"], text=m.get("level_text", m.get("rule", "")), design_ref=m.get("design_ref", "DESIGN.md section 6, " + pid)),
        level_note=m.get("level_note", "; ".join(m.get("assumptions", []))),
        technique=m.get("technique", "bounded-exhaustive explicit enumeration of code-derived input alphabets on the real code in all four backend configurations, each case compared with an independent math/big reference model (no sampling, no solver)"),
    ))
na = [dict(property_id=p, reason=NOT_APPLICABLE.get(p, "check not built yet in this revision (planned, see DESIGN.md section 6)")) for p in props if p not in CHECKS]
man = dict(
    version=1,
    setup_cmd="./verif setup",
    hooks=dict(
        guard="verif",
        enable="go build -overlay build/overlay.json -tags verif[,purego|,force32bit|,force64bit] [GOARCH=386] from /repo: harness packages are virtual packages under internal/verif, hook files (//go:build verif) are grafted into repository packages by the overlay; for the scheduler harness only (build/overlay-sched.json) cache/lru.go and cache/cache.go are regenerated from the working tree with \"sync\" replaced by the vsync shim and a Step() before every statement; nothing guarded is committed to /repo",
        baseline_off_cmd="cd /repo && GOFLAGS=-mod=mod GOPROXY=off GOSUMDB=off GOTOOLCHAIN=local go test -vet=off -count=1 -timeout 25m ./...",
        source_commits=[],
        add_only=True,
    ),
    engines=ENGINES,
    checks=checks,
    notes="All checks execute the real library code from /repo's working tree (overlay build) in four backend configurations (avx2, sse2 via GODEBUG=cpu.avx2=off, purego, force32bit). Exit 0 held / 1 VIOLATION / 2 harness or build error. fix: commits in /repo: see known_findings.json.",
    not_applicable=na,
)
json.dump(man, open(os.path.join(ROOT, "MANIFEST.json"), "w"), indent=1)
print("checks:", [c["property_id"] for c in checks], "not_applicable:", [n["property_id"] for n in na])
