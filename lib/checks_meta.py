"""Per-property metadata for the driver: harness binary, evidence level, rule text."""

CHECKS = {
    "C05": dict(bin="c05", level="exploration",
                rule="full Cartesian products of the de-duplicated scalar alphabets (kL+-e, 2^j+-e, nibble patterns, all-ones limbs, seed-derived generic values) for Add/Sub/Mul, every alphabet member for unary ops and decoders, plus the complete 3^4 x top-nibble decision tree of the limb-wise comparison with the order; compared with math/big mod L. A case is non-trivial when at least one operand is >= L (unreduced) or the true result needed a reduction (a+b>=L, a<b, a*b>=L) or the decoded value is within 2^64 of a multiple of L",
                assumptions=["math/big is correct", "alphabet coverage, not all 2^255 values"]),
    "C17": dict(bin="c17", level="exploration",
                rule="every reachable (position, window value, carry-in) configuration of each recoding transducer (radix-16, NAF w=2..8, radix-2^w w=6,7,8, Bits) embedded in all-zero / all-one / carry-propagating backgrounds, plus the scalar alphabet; oracle = exact big-integer reconstruction and digit-range predicates. Non-trivial = scalar whose recoding has at least one negative digit (a carry was generated)",
                assumptions=["math/big is correct"]),
}

NOT_APPLICABLE = {}

ENGINES = [
    dict(name="enum", path="src/mc/mc.go", serves_properties=["C01", "C02", "C03", "C04", "C05", "C07", "C10", "C11", "C14", "C15", "C16", "C17", "C19", "C20"],
         kind_free_text="bounded-exhaustive explicit-state enumeration: full Cartesian product of finite code-derived alphabets, every tuple executed on the real code and compared with a math/big reference; deterministic, replay by (sub-space, index)"),
]
