"""Per-property metadata for the driver: harness binary, evidence level, rule text."""

CHECKS = {
    "C05": dict(bin="c05", level="exploration",
                rule="full Cartesian products of the de-duplicated scalar alphabets (kL+-e, 2^j+-e, nibble patterns, all-ones limbs, seed-derived generic values) for Add/Sub/Mul, every alphabet member for unary ops and decoders, plus the complete 3^4 x top-nibble decision tree of the limb-wise comparison with the order; compared with math/big mod L. A case is non-trivial when at least one operand is >= L (unreduced) or the true result needed a reduction (a+b>=L, a<b, a*b>=L) or the decoded value is within 2^64 of a multiple of L",
                assumptions=["math/big is correct", "alphabet coverage, not all 2^255 values"]),
    "C17": dict(bin="c17", level="exploration",
                rule="every reachable (position, window value, carry-in) configuration of each recoding transducer (radix-16, NAF w=2..8, radix-2^w w=6,7,8, Bits) embedded in all-zero / all-one / carry-propagating backgrounds, plus the scalar alphabet; oracle = exact big-integer reconstruction and digit-range predicates. Non-trivial = scalar whose recoding has at least one negative digit (a carry was generated)",
                assumptions=["math/big is correct"]),
}

CHECKS.update({
    "C04": dict(bin="c04", level="exploration",
                rule="limb corners: full Cartesian products of per-limb corner values up to the top of the documented headroom "
                     "(u64 {0,1,2^51-1,2^51,2^52-1,2^54-1}; u32 even {0,1,2^26-1,2^26,3*2^26-1} / odd {0,1,2^25-1,2^25,3*2^25-1}) for "
                     "Mul, the portable feMulGeneric/fePow2kGeneric (hook, every 64-bit build), Sub, Add, Square, Square2, Pow2k "
                     "(k in 1,2,5,10,50,100,250), Mul121666, Neg, ToBytes, Invert, SqrtRatioI, predicates, aliasing forms; field values: the "
                     "alphabet Phi (0,1,2,19, p-19..p-1, the 19 strings in [p,2^255), each with bit 255 clear/set, sqrt(-1), d, 2d, every 2^k, "
                     "limb seams, seed-derived generic values) for SetBytes/ToBytes/Invert/InvSqrt, Phi x Phi for SqrtRatioI/Equal/"
                     "ConditionalSelect/Assign/Swap (choice 0 and 1), all vectors of length 0..4 over a 7-element set with two zero "
                     "representations for BatchInvert, a 512-bit alphabet for SetBytesWide; AVX2 (config avx2 only): every "
                     "fieldElement2625x4 routine and lazy point step on radix-2^25.5 lane corners within the ranges the library feeds them. "
                     "Each result is compared with math/big through ToBytes AND through its raw limbs, and its limbs must respect the "
                     "output bound the code documents. A case is non-trivial when an operand is in an unreduced representation "
                     "(some limb >= 2^51 / 2^26 / 2^25), and for value-level cases when the input is not a canonical reduced string "
                     "or the reference verdict is not the trivial one (non-zero inverse, decided square/non-square, distinct operands)",
                assumptions=["math/big is correct", "absence of word wrap-around for non-corner limb values rests on the monotonicity argument (DESIGN 6, C04), not on enumeration",
                             "value-level routines are decided on the alphabet Phi, not on all 2^255 values"]),
    "C20": dict(bin="c20", level="exploration",
                rule="complete enumeration, in each configuration, of every embedded constant and table entry in every form it is stored or served in: "
                     "raw limbs (value recomputed from the limbs; limbs inside the documented input headroom), ToBytes, the 256+64+64 packed "
                     "96-byte entries, the freshly unpacked and the live affine tables, every Lookup(x) (x in [-8,8] for each of the 32 "
                     "sub-tables, every odd x for the NAF tables; Go and assembly paths), the vector (cached) tables generated at start-up under "
                     "AVX2 (raw lanes and through setCached), base points in all forms, the 8 torsion points by value, [2^128]B, scalar "
                     "Montgomery constants (L, R, RR, LFACTOR), BASEPOINT_ORDER, order, lattice constants, Elligator constants, "
                     "noncanonicalSignBits, x25519.Basepoint, the four VerifyOptions presets flag by flag; oracle = refconst (math/big "
                     "derivations of the published definitions). Non-trivial = the defining value is not 0, 1 or the neutral element",
                assumptions=["math/big is correct", "the published definitions (RFC 7748/8032/9380/9496, README preset semantics) are transcribed correctly; pinned by ref-selftest"]),
})

NOT_APPLICABLE = {}

ENGINES = [
    dict(name="sched", path="src/sched/sched.go", serves_properties=["C18"],
         kind_free_text="stateless model checker for goroutine interleavings on the real code: cooperative scheduler behind a sync shim (lru.go is recompiled from the working tree with sync->vsync and a Step() before every statement), DFS over every scheduling choice, optional preemption bound, deadlock detection, deterministic replay; brute-force linearizability against a sequential model; separate free-running -race pass"),
    dict(name="hist", path="src/cmd/c18/main.go (seqClosure), src/cmd/c09, src/cmd/c13", serves_properties=["C09", "C13", "C18", "C12"],
         kind_free_text="explicit-state BFS over operation histories of real objects: successor = replay of the shortest history on a fresh real object + one operation, canonical state key read from the real object's fields through hooks, every step compared with a reference model"),
    dict(name="enum", path="src/mc/mc.go", serves_properties=["C01", "C02", "C03", "C04", "C05", "C07", "C10", "C11", "C14", "C15", "C16", "C17", "C19", "C20"],
         kind_free_text="bounded-exhaustive explicit-state enumeration: full Cartesian product of finite code-derived alphabets, every tuple executed on the real code and compared with a math/big reference; deterministic, replay by (sub-space, index)"),
]

CHECKS["C18"] = dict(
    bin="c18", level="model_checking", engine="sched", extra_pass="c18_race",
    shards={"quick": 4, "thorough": 4}, parallel=16, gomaxprocs=1,
    rule="(a) complete reachable state graph of the real LRU cache for capacities 1..3(4) over universes of capacity+2 keys, every Get/Put from every state, successor = replay on a fresh real cache, compared with a sequential LRU model; (b) for EVERY program of T threads x n ops over {Get,Put} x 3 colliding keys (modulo thread permutation) and capacity 1,2: every schedule of the real lruCache under a cooperative scheduler (scheduling points at every lock acquisition; statement-level points with preemption bound 2 as soon as any statement runs outside a critical section), each call/return history checked for linearizability against the LRU model by brute force, plus structural invariants and deadlock detection; (c) the same for the caching Verifier against plain verification; (d) free-running -race pass. Non-trivial = program in which two threads touch the same key",
    assumptions=["Go memory model below the race detector's happens-before is not modelled", "2-3 threads, <=3 operations each"],
)

CHECKS["C09"] = dict(
    bin="c09", level="model_checking", engine="hist",
    rule="explicit-state BFS over operation histories of the REAL ed25519.BatchVerifier (alphabet: Add/AddWithOptions/AddExpanded/AddExpandedWithOptions of ~20 crafted entry kinds x option sets, ForceNoPublicKeyExpansion, Reset, Verify, VerifyBatchOnly with three entropy readers; successor = replay on a fresh object + one op; state key = digest of every field of the real object), macro histories with batch sizes on both sides of the 94-entry expansion limit and the 190/500/800-term multiscalar limits, the complete reachable LRU-state graph of the caching Verifier for capacities 1..3(4), and expanded-vs-single verification on every (case, option set). Oracle = the library's own single-signature verification of each entry (documented panic -> false), as the property states. Non-trivial = history with a non-empty batch / non-initial cache state",
    assumptions=["batch soundness error 2^-125 with the fixed entropy streams", "crafted-input expectations (vacuity guards) are evaluated with single verification, whose own correctness is C01"],
)

CHECKS["C08"] = dict(
    custom="c08_trace", bin="c08", level="exploration", engine="tracecmp",
    technique="exhaustive paired-execution comparison (2-safety): the complete machine-level instruction-address and data-address trace of the real binary (valgrind lackey) is recorded for every secret of a finite secret alphabet x every constant-time entry point x every backend configuration, and all traces of a window are required to be identical; no sampling",
    rule="for each of ~70 constant-time entry points (windows) and each secret assignment sigma of the alphabet, the kept trace (instructions inside library/crypto symbols, plus mem*/bytealg/bytes routines entered from them, with every load/store address) must be bit-identical to the trace for sigma0, in each of the four configurations; sigma0 is traced twice as a determinism self-check; a difference counts only if it reproduces in 5 fresh run pairs. Non-trivial = (window, sigma) with sigma != sigma0",
    assumptions=["trace identity on a finite secret alphabet (complete for table indices [-8,8] and selector bits), not a proof for all secrets", "micro-architectural leakage below instruction/address level is out of scope", "valgrind lackey reports every executed guest instruction and memory access"],
)

CHECKS["C19"] = dict(
    bin="c19", level="exploration",
    rule="for each of ~55 byte-taking entry points (decoders of curve, scalar, ed25519, sr25519, ecvrf; single/expanded/batch/cached/sr25519/ECVRF verification; X25519; message expanders; transcript operations): every length 0..2*size+2 (0..300/700 for variable-length arguments) x 5 content classes (zeros, 0xff, valid encoding truncated/zero-extended, valid encoding 0xff-extended, valid encoding repeated) x nil x {fresh, previously set} receiver, each call under recover(); oracle: no panic outside the documented allow-list (keyed by function and condition), wrong length => error/false, the valid encoding is accepted, after a failure the receiver equals the documented neutral value (types that document a reset) or is bit-identical to its pre-call value. Non-trivial = wrong-length case or a case derived from a valid encoding",
    assumptions=["content classes, not all byte strings (the exact accept sets are C05/C10/C11/C12/C15)"],
)

CHECKS["C06"] = dict(
    bin="c06", level="exploration", engine="matrix", extra_pass="c06_matrix", digest_dir=True,
    technique="differential exhaustive enumeration: one deterministic workload over every exported operation of every public package on the shared alphabets, executed in all four backend configurations; the digest streams must be identical line by line",
    rule="workload = every exported function/method of curve, curve/scalar, ed25519, cache, ecvrf, sr25519, merlin, h2c, x25519 (plus the Keccak permutation on all 1600 single-bit states) on the shared alphabets; one SHA-256 digest per (operation, case) over canonical output bytes, booleans and error/panic CONDITIONS (not message text); the four streams are compared line by line. Non-trivial = every case (each one is executed in four backends)",
    assumptions=["differential: a fault common to all four backends is invisible here (it is what the oracle-based checks are for)"],
)
