"""Free-running race-detector pass of C18 (DESIGN.md section 6, C18 (d))."""
import os, re, time


def run(drv, pid, tier, seed, configs):
    cfgs = ["avx2", "purego"] if tier == "quick" else ["avx2", "sse2", "purego", "u32"]
    if configs:
        cfgs = [c for c in cfgs if c in configs] or configs[:1]
    rounds = "6" if tier == "quick" else "40"
    cov = {"race_pass": {}}
    viols, broken = [], []
    bins = {}
    for tags in sorted({drv.CONFIGS[c][0] for c in cfgs}):
        b = drv.build("c18race", tags, race=True)
        if b is None:
            broken.append("race build failed for tags " + tags)
        bins[tags] = b
    if broken:
        return cov, viols, broken
    for c in cfgs:
        tags, renv = drv.CONFIGS[c]
        env = dict(renv)
        env["GORACE"] = "halt_on_error=0 exitcode=66 history_size=5"
        env["GOMAXPROCS"] = "16"
        t = time.time()
        rc, so, se, dt = drv.run_proc(bins[tags], ["-goroutines", "8", "-rounds", rounds], env, timeout=1800)
        races = se.count("WARNING: DATA RACE")
        cov["race_pass"][c] = dict(rc=rc, wall_s=round(dt, 1), data_races=races, summary=so.strip().splitlines()[-1:] if so else [])
        if races:
            m = re.search(r"WARNING: DATA RACE\n(.*?)\n\n", se, re.S)
            first = m.group(1) if m else se[:1500]
            fn = re.search(r"\n\s+(\S+)\(\)\n", "\n" + first)
            viols.append(dict(sub="race", index=-1, key="data-race/" + (fn.group(1) if fn else "?"), config=c, noreplay=True,
                              desc="race detector report in the free-running pass (%d reports); first:\n%s" % (races, first[:1800])))
        elif rc == 3:
            viols.append(dict(sub="race", index=-1, key="concurrent-result-mismatch", config=c, noreplay=True,
                              desc="concurrent results differ from sequential results: " + so[-800:]))
        elif rc != 0:
            broken.append("race pass %s rc=%d: %s" % (c, rc, (se or so)[-1500:]))
    # second free-running workload under the race detector: the C06 workload (every exported function and method of every
    # public package, on the shared alphabets), whose cases run on all cores at once - package-level scratch, pools and
    # lazily built state inside ANY entry point are then written concurrently.  Results are not compared here (C06 does
    # that); only race reports and crashes count.
    import tempfile
    cov["api_workload_race_pass"] = {}
    wbins = {}
    for tags in sorted({drv.CONFIGS[c][0] for c in cfgs}):
        wbins[tags] = drv.build("c06", tags, race=True)
        if wbins[tags] is None:
            broken.append("race build of the API workload failed for tags " + tags)
    if broken:
        return cov, viols, broken
    for c in cfgs:
        tags, renv = drv.CONFIGS[c]
        env = dict(renv)
        env["GORACE"] = "halt_on_error=0 exitcode=66 history_size=5"
        env["GOMAXPROCS"] = "16"
        d = tempfile.mkdtemp(prefix="verif-c18w-", dir=drv.BUILD)
        try:
            rc, so, se, dt = drv.run_proc(wbins[tags], ["-tier", "quick", "-seed", str(seed), "-config", c, "-out", os.path.join(d, "r.json"),
                                                        "-digests", os.path.join(d, "d.txt")], env, timeout=1800)
        finally:
            import shutil
            shutil.rmtree(d, ignore_errors=True)
        races = se.count("WARNING: DATA RACE")
        cov["api_workload_race_pass"][c] = dict(rc=rc, wall_s=round(dt, 1), data_races=races)
        if races:
            m = re.search(r"WARNING: DATA RACE\n(.*?)\n\n", se, re.S)
            first = m.group(1) if m else se[:1500]
            fn = re.search(r"\n\s+(\S+)\(\)\n", "\n" + first)
            viols.append(dict(sub="race-api-workload", index=-1, key="data-race/" + (fn.group(1) if fn else "?"), config=c, noreplay=True,
                              desc="race detector report while the API workload ran on all cores (%d reports); first:\n%s" % (races, first[:1800])))
        elif rc not in (0, 1):
            # (rc 1 = the workload's own differential verdict, which belongs to C06)
            viols.append(dict(sub="race-api-workload", index=-1, key="concurrent-crash", config=c, noreplay=True,
                              desc="the API workload crashed when its cases ran concurrently under the race detector (rc=%d): %s" % (rc, (se or so)[-1200:])))
    return cov, viols, broken
