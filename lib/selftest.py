"""./verif selftest [Cxx ...]: apply each deliberate property-breaking edit of mutants/<id>/*.diff to a scratch
worktree of /repo, confirm the repository's own suite still passes, run the check and require a VIOLATION."""
import glob, json, os, subprocess, sys, tempfile, time


def run(drv, ids, run_suite=True, tier="quick"):
    root = drv.ROOT
    results = []
    wt = tempfile.mkdtemp(prefix="verif-selftest-")
    os.rmdir(wt)
    subprocess.run(["git", "-C", "/repo", "worktree", "add", "--detach", wt, "HEAD"], check=True, capture_output=True)
    try:
        for d in sorted(glob.glob(os.path.join(root, "mutants", "C*"))):
            pid = os.path.basename(d)
            if ids and pid not in ids:
                continue
            if pid not in drv.CHECKS:
                continue
            for diff in sorted(glob.glob(os.path.join(d, "*.diff"))):
                name = os.path.basename(diff)[:-5]
                subprocess.run(["git", "-C", wt, "checkout", "-q", "--", "."], check=True)
                subprocess.run(["git", "-C", wt, "clean", "-fdq"], check=True)
                p = subprocess.run(["git", "-C", wt, "apply", diff], capture_output=True, text=True)
                if p.returncode != 0:
                    results.append(dict(property=pid, mutant=name, status="does-not-apply", detail=p.stderr[-300:]))
                    continue
                suite = None
                if run_suite:
                    p = subprocess.run(["go", "test", "-vet=off", "-count=1", "./..."], cwd=wt, env=drv.ENV, capture_output=True, text=True)
                    suite = "passes" if p.returncode == 0 else "FAILS"
                t = time.time()
                env = dict(os.environ, VERIF_REPO=wt)
                p = subprocess.run([os.path.join(root, "verif"), "check", pid, "--tier", tier], env=env, capture_output=True, text=True)
                viol = [l for l in p.stdout.splitlines() if l.startswith("VIOLATION")]
                status = "caught" if p.returncode == 1 and viol else ("MISSED" if p.returncode == 0 else "check-broken(rc=%d)" % p.returncode)
                first = ""
                for i, l in enumerate(p.stdout.splitlines()):
                    if l.startswith("VIOLATION") and i + 1 < len(p.stdout.splitlines()):
                        first = p.stdout.splitlines()[i + 1].strip()[:200]
                        break
                results.append(dict(property=pid, mutant=name, repo_suite=suite, status=status, wall_s=round(time.time() - t, 1), first_violation=first))
                print("%-4s %-44s suite=%-7s %s  %s" % (pid, name, suite, status, first[:100]), flush=True)
    finally:
        subprocess.run(["git", "-C", "/repo", "worktree", "remove", "--force", wt], capture_output=True)
    out = os.path.join(root, "mutants", "RESULTS.json")
    old = []
    if os.path.exists(out):
        old = [r for r in json.load(open(out)) if not any(r["property"] == n["property"] and r["mutant"] == n["mutant"] for n in results)]
    json.dump(sorted(old + results, key=lambda r: (r["property"], r["mutant"])), open(out, "w"), indent=1)
    bad = [r for r in results if r["status"] != "caught"]
    print("selftest: %d mutants, %d caught, %d not caught" % (len(results), len(results) - len(bad), len(bad)))
    return 0 if not bad else 1
