"""C06: line-by-line comparison of the four configurations' digest streams."""
import os


def run(drv, pid, tier, seed, configs):
    # digest files were written next to the reports by the harness processes (see meta args)
    d = os.path.join(drv.BUILD, "c06-digests")
    cfgs = configs or drv.ALLCFG
    streams, broken, viols = {}, [], []
    for c in cfgs:
        p = os.path.join(d, "%s.txt" % c)
        if not os.path.exists(p):
            broken.append("digest stream of %s missing" % c)
            continue
        streams[c] = open(p).read().splitlines()
    if broken or len(streams) < 2:
        return {}, [], broken + ([] if len(streams) >= 2 else ["need at least two configurations"])
    base = cfgs[0]
    ndiff = 0
    for c in cfgs[1:]:
        a, b = streams[base], streams[c]
        if len(a) != len(b):
            viols.append(dict(sub="digest", index=-1, key="stream-length", config=c, noreplay=True,
                              desc="digest streams of %s and %s have different lengths (%d vs %d)" % (base, c, len(a), len(b))))
            continue
        seen = set()
        for la, lb in zip(a, b):
            if la != lb:
                ndiff += 1
                op, idx, _ = la.split("|")
                if op in seen:
                    continue
                seen.add(op)
                viols.append(dict(sub=op, index=int(idx), key="backend-divergence/" + op, config=c, noreplay=True,
                                  desc="operation %r case %s: %s gives %s, %s gives %s" % (op, idx, base, la.split("|")[2], c, lb.split("|")[2])))
    cov = dict(digest_lines_per_configuration=len(streams[base]), configurations_compared=cfgs, differing_lines=ndiff)
    for c in cfgs:
        try:
            os.unlink(os.path.join(d, "%s.txt" % c))
        except OSError:
            pass
    return cov, viols, []
