"""C08: exhaustive paired-trace comparison (2-safety) under valgrind lackey (DESIGN.md E4)."""
import concurrent.futures as cf, hashlib, json, os, shutil, subprocess, tempfile, time

QUICK_SIGMAS = [0, 1, 2, 4]
THOROUGH_SIGMAS = list(range(30))
MIN_INSTR = 8  # floor for a non-empty window (vacuity guard)


def _tool(drv, name):
    out = os.path.join(drv.BUILD, name)
    src = os.path.join(drv.ROOT, "tools", name, "main.go")
    if not os.path.exists(out) or os.path.getmtime(out) < os.path.getmtime(src):
        p = subprocess.run(["go", "build", "-o", out, src], cwd=drv.ROOT, env=drv.ENV, capture_output=True, text=True)
        if p.returncode != 0:
            raise SystemExit("cannot build %s: %s" % (name, p.stderr))
    return out


_SHM = "/dev/shm" if os.path.isdir("/dev/shm") and os.access("/dev/shm", os.W_OK) else None


def _trace(drv, binpath, symf, an, sigma, renv, dump=None, tier="thorough"):
    env = dict(drv.ENV)
    env.update(renv)
    env["GOMAXPROCS"] = "1"
    env["GOGC"] = "off"
    gd = env.get("GODEBUG", "")
    env["GODEBUG"] = (gd + "," if gd else "") + "asyncpreemptoff=1"
    extra = (" -dump %d -dumpfile %s" % dump) if dump is not None else ""
    if _SHM:  # (valgrind's 32-bit tools cannot write a log file beyond 2 GiB - the core32 window list stays far below)
        # a trace file on tmpfs is ~2x cheaper than a pipe (valgrind issues one write per line)
        d = tempfile.mkdtemp(prefix="verif-c08-", dir=_SHM)
        tf = os.path.join(d, "trace")
        cmd = "valgrind --tool=lackey --trace-mem=yes --log-file=%s %s %d %s >/dev/null 2>&1 && %s -syms %s%s < %s; rc=$?; rm -rf %s; exit $rc" % (
            tf, binpath, sigma, tier, an, symf, extra, tf, d)
    else:
        cmd = "valgrind --tool=lackey --trace-mem=yes --log-fd=3 %s %d %s 3>&1 1>/dev/null 2>/dev/null | %s -syms %s%s" % (binpath, sigma, tier, an, symf, extra)
    try:
        p = subprocess.run(["bash", "-c", "set -o pipefail; " + cmd], env=env, capture_output=True, text=True, timeout=5400)
    except subprocess.TimeoutExpired:
        subprocess.run(["pkill", "-f", binpath + " %d %s" % (sigma, tier)])
        return None, "trace of %s sigma=%d tier=%s did not finish within 90 min" % (binpath, sigma, tier)
    if p.returncode != 0:
        return None, p.stderr[-2000:]
    try:
        return json.loads(p.stdout), None
    except Exception as e:
        return None, "bad analyser output: %r %s" % (e, p.stdout[:300])


def _first_diff(fa, fb):
    with open(fa) as a, open(fb) as b:
        n = 0
        last_i = None
        for la, lb in zip(a, b):
            if la.startswith("I "):
                last_i = la.strip()
            if la != lb:
                return n, last_i, la.strip(), lb.strip()
            n += 1
    return n, last_i, "(one trace is a prefix of the other)", ""


def run(drv, pid, tier, seed, configs):
    """main pass (all windows of the tier) + 'large' pass (constant-time multiscalar at >= 190 terms)."""
    src_cfgs = list(configs) if configs else None
    configs = configs or (drv.ALLCFG + ["386"] if tier == "thorough" else drv.ALLCFG)
    if tier == "quick":
        lcfg = [c for c in configs if c == "avx2"] or configs[:1]
        lsig = [0, 1]
    else:
        lcfg, lsig = configs, [0, 1, 4]
    # valgrind's 32-bit tools cannot write a log beyond 2 GiB, which the large windows exceed: the large pass stays on amd64
    lcfg = [c for c in lcfg if "386" not in c] or [c for c in configs if "386" not in c][:1]
    import threading
    scratch0 = tempfile.mkdtemp(prefix="verif-c08-bins-")
    try:
        bins = {}
        for tags in sorted({drv.CONFIGS[c][0] for c in configs}):
            b = drv.build("c08", tags)
            if b is None:
                drv.log("check C08: build failed (harness error)")
                return 2
            symf = os.path.join(scratch0, "syms-%s.txt" % tags.replace(",", "_"))
            with open(symf, "w") as f:
                subprocess.run(["go", "tool", "nm", "-size", "-sort", "address", b], env=drv.ENV, stdout=f, check=True)
            bins[tags] = (b, symf)
        _tool(drv, "c08an")
        box = {}
        th0 = threading.Thread(target=lambda: box.update(source=_srcpass(drv, pid, tier, seed, src_cfgs)))
        th0.start()
        th = threading.Thread(target=lambda: box.update(large=_pass(drv, pid, tier, seed, lcfg, lsig, "large", bins) if lcfg else None))
        th.start()
        # the 32-bit platform binaries are traced on the core window list only (see cmd/c08: core32), with fewer secrets
        c32 = [c for c in configs if "386" in c] if tier == "thorough" else []
        if tier != "thorough" and all("386" in c for c in configs):
            drv.log("check C08: the 32-bit platform binaries are traced in the thorough tier only (a trace takes > 5 min)")
            return 2
        th2 = threading.Thread(target=lambda: box.update(core32=_pass(drv, pid, tier, seed, c32, [0, 1, 4] if tier == "quick" else [0, 1, 2, 4, 16, 20], "core32", bins) if c32 else None))
        th2.start()
        mcfg = [c for c in configs if "386" not in c]
        main = _pass(drv, pid, tier, seed, mcfg, QUICK_SIGMAS if tier == "quick" else THOROUGH_SIGMAS, tier, bins) if mcfg else None
        th.join()
        th2.join()
        th0.join()
        source = box.get("source")
        if not isinstance(source, dict) or source.get("broken"):
            drv.log("BROKEN " + str((source or {}).get("broken", "source-level pass failed")))
            return 2
        large = box.get("large")
        core32 = box.get("core32")
        if c32 and not isinstance(core32, dict):
            return 2
        if main is None:  # only 32-bit configurations requested
            main, core32 = core32, None
        return _finish(drv, pid, tier, seed, main, large, core32, source)
    finally:
        shutil.rmtree(scratch0, ignore_errors=True)


SRC_CONFIGS = ["avx2", "sse2", "purego", "u32", "386", "386f64"]


def _srcpass(drv, pid, tier, seed, configs=None):
    """Source-level pass: the c08 binary built with -cover -covermode=atomic over the library packages (in a scratch copy
    of the tree with the overlay materialised - go's cover tool cannot read overlay files) runs EVERY window for every
    secret of the alphabet between coverage.ClearCounters and coverage.WriteCounters; the execution count of every source
    basic block of the library must be identical for all secrets.  This sees a secret-dependent `if` that the amd64
    compiler turns into a conditional move (invisible in the machine trace of that build, a jump on other platforms) and
    costs no valgrind run, so it covers all six configurations and the complete window list in both tiers.  It does not
    see assembly, memory indices or short-circuit operators inside one statement: those are the machine-trace passes."""
    t0 = time.time()
    configs = [c for c in (configs or SRC_CONFIGS) if c in SRC_CONFIGS]
    sigmas = list(range(17)) if tier == "quick" else THOROUGH_SIGMAS
    scratch = tempfile.mkdtemp(prefix="verif-c08-src-")
    notes, viols, per_cfg = [], [], {}
    try:
        W = os.path.join(scratch, "repo")
        subprocess.run(["rsync", "-a", "--exclude", ".git", drv.REPO.rstrip("/") + "/", W + "/"], check=True)
        ov, _ = drv.gen_overlay()
        for dst, src in json.load(open(ov))["Replace"].items():
            d = os.path.join(W, os.path.relpath(dst, drv.REPO))
            os.makedirs(os.path.dirname(d), exist_ok=True)
            shutil.copy(src, d)
        lp = subprocess.run(["go", "list", "./..."], cwd=W, env=drv.ENV, capture_output=True, text=True)
        pkgs = [q for q in lp.stdout.split() if "/internal/verif" not in q and "/internal/testhelpers" not in q and "/internal/toolchain" not in q and "/internal/asm" not in q]
        if lp.returncode != 0 or not pkgs:
            return dict(skipped="go list failed in the scratch copy: " + lp.stderr[-300:], viols=[], notes=["source-level pass skipped (go list failed)"], exhaustive=False)
        bins = {}

        def bld(tags):
            benv, t = drv.ENV, tags
            if "@" in tags:
                t, arch = tags.split("@")
                benv = dict(drv.ENV, GOARCH=arch, CGO_ENABLED="0")
            out = os.path.join(scratch, "c08cov-" + tags.replace(",", "_").replace("@", "_"))
            p = subprocess.run(["go", "build", "-trimpath", "-tags", t, "-cover", "-covermode=atomic", "-coverpkg=" + ",".join(pkgs + [drv.MOD + "/internal/verif/cmd/c08"]), "-o", out, "./internal/verif/cmd/c08"],
                               cwd=W, env=benv, capture_output=True, text=True)
            return tags, (out if p.returncode == 0 else None), p.stderr[-600:]
        tagsets = sorted({drv.CONFIGS[c][0] for c in configs})
        with cf.ThreadPoolExecutor(max_workers=len(tagsets)) as ex:
            for tags, out, err in ex.map(bld, tagsets):
                if out is None:
                    notes.append("source-level pass: build with tags %s failed against this tree (pass skipped for its configurations): %s" % (tags, err.strip().splitlines()[-1] if err.strip() else ""))
                bins[tags] = out
        configs = [c for c in configs if bins.get(drv.CONFIGS[c][0])]
        if not configs:
            return dict(skipped="no build", viols=[], notes=notes, exhaustive=False)
        names = [l.split(" ", 1)[1] for l in subprocess.run([bins[drv.CONFIGS[configs[0]][0]], "cov", "-list"], capture_output=True, text=True, env=drv.ENV).stdout.strip().splitlines()]

        def one(job, dump=None):
            c, s_ = job
            tags, renv = drv.CONFIGS[c]
            env = dict(drv.ENV, **renv)
            env.update(C08_SIGMA=str(s_), GOMAXPROCS="1")
            env.pop("GOCOVERDIR", None)
            if dump:
                env["C08_COVDUMP"] = "%d:%s" % dump
            try:
                p = subprocess.run([bins[tags], "cov"], env=env, capture_output=True, text=True, timeout=1800)
            except subprocess.TimeoutExpired:
                return job, None, "timeout"
            if p.returncode != 0:
                return job, None, (p.stderr or p.stdout)[-400:]
            h = [l.split()[2] for l in p.stdout.splitlines() if l.startswith("cov ")]
            return job, h, None
        jobs = [(c, s_) for c in configs for s_ in sigmas + [sigmas[0]]]
        res = {}
        with cf.ThreadPoolExecutor(max_workers=os.cpu_count() or 16) as ex:
            for (c, s_), h, err in ex.map(one, jobs):
                if h is None or len(h) != len(names):
                    return dict(broken="source-level pass: %s sigma=%d: %s" % (c, s_, err or "%d windows reported, %d expected" % (len(h or []), len(names))))
                res.setdefault(c, {}).setdefault(s_, []).append(h)
        exhaustive = True
        total = 0
        for c in configs:
            base, base2 = res[c][sigmas[0]]
            noisy = [k for k in range(len(names)) if base[k] != base2[k]]
            if noisy:
                notes.append("source-level pass %s: windows %s differ between two runs with the SAME secret; excluded" % (c, noisy))
                exhaustive = False
            first = {}
            for s_ in sigmas[1:]:
                h = res[c][s_][0]
                for k in range(len(names)):
                    if k not in noisy and h[k] != base[k]:
                        first.setdefault(k, s_)
            per_cfg[c] = dict(windows=len(names), secrets=len(sigmas), differing_windows=len(first), noisy_windows=len(noisy))
            total += len(names) * len(sigmas)
            for k, s_ in sorted(first.items()):
                # confirm with a fresh pair, then name the differing source blocks
                (_, ha, _), (_, hb, _) = one((c, sigmas[0])), one((c, s_))
                if ha is None or hb is None or ha[k] != base[k] or hb[k] == ha[k]:
                    notes.append("source-level pass %s: difference in window %d (%s) for sigma %d did not reproduce; treated as noise" % (c, k, names[k], s_))
                    exhaustive = False
                    continue
                blocks = "(blocks not located)"
                try:
                    txt = {}
                    for tag, sg in (("a", sigmas[0]), ("b", s_)):
                        dd = os.path.join(scratch, "dump-%s-%d-%s" % (c, k, tag))
                        os.makedirs(dd, exist_ok=True)
                        one((c, sg), dump=(k, dd))
                        of = dd + ".txt"
                        subprocess.run(["go", "tool", "covdata", "textfmt", "-i=" + dd, "-o", of], cwd=W, env=drv.ENV, capture_output=True)
                        txt[tag] = dict(l.rsplit(" ", 1) for l in open(of).read().splitlines()[1:])
                    d = [(b, txt["a"].get(b), txt["b"].get(b)) for b in sorted(set(txt["a"]) | set(txt["b"])) if txt["a"].get(b) != txt["b"].get(b)]
                    blocks = "; ".join("%s count %s vs %s" % (b.replace(drv.MOD + "/", ""), x, y) for b, x, y in d[:4]) + (" ... (%d blocks differ)" % len(d) if len(d) > 4 else "")
                except Exception as e:  # naming the blocks is a convenience; the verdict is the counter difference
                    blocks = "(blocks not located: %r)" % e
                viols.append(dict(sub="source-blocks", index=k, key="not-constant-time(source)/" + names[k], config=c, noreplay=True, window=names[k], sigma_a=sigmas[0], sigma_b=s_, tier="source",
                                  desc="window %r: execution counts of the library's source basic blocks differ between secret sigma=%d and sigma=%d: %s" % (names[k], sigmas[0], s_, blocks)))
        return dict(names=names, per_config=per_cfg, total_eval=total, viols=viols, notes=notes, exhaustive=exhaustive, sigmas=sigmas, configs=configs, wall_s=round(time.time() - t0, 1))
    finally:
        shutil.rmtree(scratch, ignore_errors=True)


def _pass(drv, pid, tier, seed, configs, sigmas, wtier, bins):
    t0 = time.time()
    meta = drv.CHECKS[pid]
    tier_arg = wtier
    tier = wtier
    an = _tool(drv, "c08an")
    scratch = tempfile.mkdtemp(prefix="verif-c08-")
    broken, viols, notes = [], [], []
    cov_cfg = {}
    total_eval = 0
    names = None
    exhaustive = True
    try:
        b0 = bins[drv.CONFIGS[configs[0]][0]][0]
        names = [l.split(" ", 1)[1] for l in subprocess.run([b0, "-list", tier], capture_output=True, text=True).stdout.strip().splitlines()]
        jobs = []
        for c in configs:
            tags, renv = drv.CONFIGS[c]
            for s in sigmas + [sigmas[0]]:  # sigma0 twice: determinism self-check
                jobs.append((c, s))
        res = {}

        def one(job):
            c, s = job
            tags, renv = drv.CONFIGS[c]
            b, symf = bins[tags]
            return job, _trace(drv, b, symf, an, s, renv, tier=tier)

        with cf.ThreadPoolExecutor(max_workers=os.cpu_count() or 16) as ex:
            for (c, s), (w, err) in ex.map(one, jobs):
                if w is None:
                    broken.append("%s sigma=%d: %s" % (c, s, err))
                    continue
                res.setdefault(c, {}).setdefault(s, []).append(w)
        if broken:
            for b in broken:
                drv.log("BROKEN " + b)
            return 2
        for c in configs:
            tags, renv = drv.CONFIGS[c]
            b, symf = bins[tags]
            base, base2 = res[c][sigmas[0]][0], res[c][sigmas[0]][1]
            if len(base) != len(names):
                drv.log("BROKEN %s: %d windows traced, %d expected" % (c, len(base), len(names)))
                return 2
            base = list(base)
            noisy = [k for k in range(len(base)) if base[k] != base2[k]]
            if noisy:
                # third opinion: majority of three sigma0 traces
                base3, e3 = _trace(drv, b, symf, an, sigmas[0], renv, tier=tier)
                if base3 is not None:
                    for k in list(noisy):
                        if base3[k] == base[k]:
                            noisy.remove(k)
                        elif base3[k] == base2[k]:
                            base[k] = base2[k]
                            noisy.remove(k)
            if noisy:
                notes.append("%s: windows %s differ between two runs with the SAME secret (trace noise); they are excluded" % (c, noisy))
                exhaustive = False
            empty = [names[k] for k in range(len(base)) if base[k]["n_instr"] < MIN_INSTR and not ("cached" in names[k] and c != "avx2")]
            if empty:
                drv.log("BROKEN %s: windows with (almost) no kept instructions: %s" % (c, empty))
                return 2
            diffs = []
            for s in sigmas[1:]:
                w = res[c][s][0]
                for k in range(len(base)):
                    if k in noisy:
                        continue
                    if w[k] != base[k]:
                        diffs.append((s, k))
            cov_cfg[c] = dict(windows=len(base), secrets=len(sigmas), kept_instructions_sigma0=sum(x["n_instr"] for x in base),
                              kept_data_accesses_sigma0=sum(x["n_data"] for x in base), differing_window_secret_pairs=len(diffs), noisy_windows=len(noisy))
            total_eval += len(base) * len(sigmas)
            # confirm each differing window (first secret that shows it) with 5 fresh pairs, all runs in parallel
            firstsig = {}
            for s_, k in diffs:
                firstsig.setdefault(k, s_)
            if firstsig:
                need = sorted(set(firstsig.values()))
                cjobs = [(r, s_) for r in range(5) for s_ in [sigmas[0]] + need]
                with cf.ThreadPoolExecutor(max_workers=os.cpu_count() or 16) as ex:
                    cres = dict(zip(cjobs, ex.map(lambda j: _trace(drv, b, symf, an, j[1], renv, tier=tier), cjobs)))
                confirmed = []
                for k, s_ in sorted(firstsig.items()):
                    ok = True
                    for r in range(5):
                        wa, ea = cres[(r, sigmas[0])]
                        wb, eb = cres[(r, s_)]
                        if wa is None or wb is None:
                            broken.append("re-run failed: %s %s" % (ea, eb))
                            ok = False
                            break
                        if wa[k] != base[k] or wb[k] == wa[k]:
                            ok = False
                            break
                    if not ok:
                        notes.append("%s: difference in window %d (%s) for sigma %d did not reproduce 5/5; treated as noise" % (c, k, names[k], s_))
                        exhaustive = False
                    else:
                        confirmed.append((k, s_))

                def locate(ks):
                    k, s_ = ks
                    fa, fb = os.path.join(scratch, "da-%s-%d.txt" % (c, k)), os.path.join(scratch, "db-%s-%d.txt" % (c, k))
                    _trace(drv, b, symf, an, sigmas[0], renv, dump=(k, fa), tier=tier)
                    _trace(drv, b, symf, an, s_, renv, dump=(k, fb), tier=tier)
                    r = _first_diff(fa, fb)
                    os.unlink(fa)
                    os.unlink(fb)
                    return r
                with cf.ThreadPoolExecutor(max_workers=8) as ex:
                    locs = dict(zip(confirmed[:6], ex.map(locate, confirmed[:6])))
                for k, s_ in confirmed:
                    off, last_i, la, lb = locs.get((k, s_), (-1, None, "(not located)", ""))
                    fn = (last_i or "I ? ?").split()[-1].split("+")[0]
                    viols.append(dict(sub="trace", index=k, key="not-constant-time/" + names[k], config=c, noreplay=True, window=names[k], sigma_a=sigmas[0], sigma_b=s_,
                                      desc="window %r: kept machine trace differs between secret sigma=%d and sigma=%d (instr %d vs %d, data %d vs %d); first difference at kept-trace offset %d in %s: %r vs %r"
                                      % (names[k], sigmas[0], s_, base[k]["n_instr"], res[c][s_][0][k]["n_instr"], base[k]["n_data"], res[c][s_][0][k]["n_data"], off, fn, la, lb)))
    finally:
        shutil.rmtree(scratch, ignore_errors=True)
    if broken:
        for b in broken:
            drv.log("BROKEN " + b)
        return 2
    nwin = len(names)
    return dict(names=names, cov_cfg=cov_cfg, total_eval=total_eval, viols=viols, notes=notes, exhaustive=exhaustive, sigmas=sigmas, configs=configs, wtier=wtier,
                samples=[dict(window=names[k], config=configs[0], **res[configs[0]][sigmas[0]][0][k]) for k in range(0, nwin, 7)], wall_s=round(time.time() - t0, 1))


def _finish(drv, pid, tier, seed, main, large, core32=None, source=None):
    if large is None:  # only 32-bit configurations were requested: no large pass
        large = dict(viols=[], notes=["large pass skipped (32-bit configurations only)"], total_eval=0, names=[], sigmas=[0], samples=[], exhaustive=True, cov_cfg={}, configs=[], wall_s=0)
    t_end = time.time()
    meta = drv.CHECKS[pid]
    if not isinstance(main, dict) or not isinstance(large, dict):
        return 2
    viols = [dict(v, tier="core32") if main.get("wtier") == "core32" else v for v in main["viols"]] + [dict(v, tier="large") for v in large["viols"]]
    notes = main["notes"] + large["notes"]
    if core32:
        viols += [dict(v, tier="core32") for v in core32["viols"]]
        notes += core32["notes"]
    if source:
        viols += source["viols"]
        notes += source["notes"]
    nwin, nsig = len(main["names"]), len(main["sigmas"])
    cov = dict(
        source_level_pass=(dict(what="library built with -cover -covermode=atomic; per window and secret the execution count of every source basic block (runtime/coverage counters) must be identical for all secrets",
                                windows=len(source.get("names", [])), secrets=len(source.get("sigmas", [])), configurations=source.get("configs", []), per_config=source.get("per_config", {}),
                                evaluations=source.get("total_eval", 0), exhaustive=source.get("exhaustive", False), skipped=source.get("skipped"), wall_s=source.get("wall_s")) if source else None),
        evaluations=main["total_eval"] + large["total_eval"] + (source.get("total_eval", 0) if source else 0),
        distinct_nontrivial=nwin * (nsig - 1) + len(large["names"]) * (len(large["sigmas"]) - 1), rule=meta["rule"],
        samples=main["samples"] + large["samples"], exhaustive=main["exhaustive"] and large["exhaustive"],
        windows=main["names"], large_windows=large["names"], secrets=nsig, per_config=main["cov_cfg"], large_pass=dict(per_config=large["cov_cfg"], secrets=len(large["sigmas"]), configurations=large["configs"]),
        notes=notes, configurations=main["configs"] + (core32["configs"] if core32 else []),
        core32_pass=(dict(windows=core32["names"], per_config=core32["cov_cfg"], secrets=len(core32["sigmas"]), configurations=core32["configs"],
                          evaluations=core32["total_eval"], exhaustive=core32["exhaustive"], wall_s=core32["wall_s"]) if core32 else None),
        secret_alphabet="sigma 0..3 = all-0x00/0xff/0x88/0x77 bytes, 4..5 generic (SHA-512 derived); thorough adds the other nibble patterns, 0xa5/0x5a/0x0f/0xf0 and 8 more generic; lookup index x covers [-8,8] completely by sigma 16; selector bit = low bit of a secret byte")
    ev = dict(property_id=pid, tier=tier, seed=seed, level=meta["level"], coverage=cov, assumptions=meta.get("assumptions", []),
              wall_s=round(main["wall_s"] + 0.0, 2), violations=len(viols))
    os.makedirs(os.path.join(drv.OUT, "evidence"), exist_ok=True)
    with open(os.path.join(drv.OUT, "evidence", pid + ".json"), "w") as f:
        json.dump(ev, f, indent=1, sort_keys=True)
    for n in notes:
        drv.log("note: " + n)
    if viols:
        os.makedirs(os.path.join(drv.OUT, "replays"), exist_ok=True)
        seen = set()
        for v in viols:
            h = hashlib.sha256(json.dumps(v, sort_keys=True).encode()).hexdigest()[:12]
            path = os.path.join(drv.OUT, "replays", "%s-%s.json" % (pid, h))
            json.dump(dict(dict(tier=tier), **dict(v, property=pid, seed=seed)), open(path, "w"), indent=1)
            if v["key"] in seen:
                continue
            seen.add(v["key"])
            print("VIOLATION property=%s replay=%s" % (pid, path))
            print("  [%s] %s" % (v["config"], v["desc"][:600]))
        return 1
    print("check %s tier=%s: OK  windows=%d(+%d large) secrets=%d configs=%s evaluations=%d exhaustive=%s wall=%.1fs" % (
        pid, tier, nwin, len(large["names"]), nsig, ",".join(main["configs"]), cov["evaluations"], cov["exhaustive"], main["wall_s"]))
    return 0


def replay(drv, v):
    """Re-trace the two secrets of a recorded violation and compare the window again."""
    c = v["config"]
    tags, renv = drv.CONFIGS[c]
    an = _tool(drv, "c08an")
    b = drv.build("c08", tags)
    if b is None:
        return 2
    scratch = tempfile.mkdtemp(prefix="verif-c08-")
    try:
        symf = os.path.join(scratch, "syms.txt")
        with open(symf, "w") as f:
            subprocess.run(["go", "tool", "nm", "-size", "-sort", "address", b], env=drv.ENV, stdout=f, check=True)
        wa, _ = _trace(drv, b, symf, an, v["sigma_a"], renv, tier=v.get("tier", "thorough"))
        wb, _ = _trace(drv, b, symf, an, v["sigma_b"], renv, tier=v.get("tier", "thorough"))
        k = v["index"]
        if wa and wb and wa[k] != wb[k]:
            print("reproduced: window %r differs: %s vs %s" % (v["window"], wa[k], wb[k]))
            print("VIOLATION property=%s replay=(given)" % v["property"])
            return 1
        print("replay: traces are identical now")
        return 0
    finally:
        shutil.rmtree(scratch, ignore_errors=True)
