#!/usr/bin/env python3
"""save_seed.py <Cxx> [k...]: independently confirm a seeded change produced by a fresh sub-agent (suite still passes
with it; its demonstration fails with it and passes without it), then keep it as /verif/seeded/<Cxx>-<k>/ with
meta.json recording what it breaks, what it needs to manifest, what was run, and which of our checks report it."""
import glob, json, os, shutil, subprocess, sys
RND = os.environ.get("SEED_ROUND", "")
OUT = "/tmp/seed%s-out" % RND
ENV = dict(os.environ, GOFLAGS="-mod=mod", GOPROXY="off", GOSUMDB="off", GOTOOLCHAIN="local")
pid = sys.argv[1]
ks = sys.argv[2:] or sorted(d for d in os.listdir(OUT + "/" + pid) if d.isdigit())
wt = "/tmp/seed%s-%s" % (RND, pid)
if not os.path.isdir(wt):
    subprocess.run(["git", "-C", "/repo", "worktree", "add", "--detach", wt, "HEAD"], check=True, capture_output=True)
def clean():
    subprocess.run(["git", "-C", wt, "checkout", "-q", "--", "."], check=True)
    subprocess.run(["git", "-C", wt, "clean", "-fdq"], check=True)
tried = {}
for tf in glob.glob(OUT + "/%s/tryseed-*.json" % pid):
    for r in json.load(open(tf)):
        tried.setdefault(r["seed"], {}).update({k: v for k, v in r.items() if k.startswith("check_")})
for k in ks:
    d = OUT + "/%s/%s" % (pid, k)
    patch = os.path.join(d, "patch.diff")
    clean()
    # bring the worktree to /repo's HEAD (fix: commits may have landed since the agent worked)
    subprocess.run(["git", "-C", wt, "checkout", "-q", "--detach", subprocess.run(["git", "-C", "/repo", "rev-parse", "HEAD"], capture_output=True, text=True).stdout.strip()], check=True)
    conf = {}
    p = subprocess.run(["git", "-C", wt, "apply", patch], capture_output=True, text=True)
    conf["patch_applies"] = p.returncode == 0
    if p.returncode == 0:
        p = subprocess.run("go build ./... && go test -vet=off -count=1 ./...", shell=True, cwd=wt, env=ENV, capture_output=True, text=True)
        conf["suite_passes_with_change"] = p.returncode == 0
        run = os.path.join(d, "run.sh")
        p = subprocess.run(["bash", run], cwd=d, env=ENV, capture_output=True, text=True)
        conf["demo_rc_with_change"] = p.returncode
        conf["demo_tail_with_change"] = (p.stdout + p.stderr)[-600:]
        # run.sh may clean up the worktree itself; make sure the change is gone, then run again
        clean()
        p = subprocess.run(["bash", run], cwd=d, env=ENV, capture_output=True, text=True)
        conf["demo_rc_without_change"] = p.returncode
    clean()
    ok = conf.get("patch_applies") and conf.get("suite_passes_with_change") and conf.get("demo_rc_with_change", 0) != 0 and conf.get("demo_rc_without_change", 1) == 0
    meta = {}
    try:
        meta = json.load(open(os.path.join(d, "meta.json")))
    except Exception:
        pass
    meta["confirmed_by_us"] = conf
    meta["what_we_ran"] = ["git apply patch.diff in a scratch worktree of /repo", "go build ./... && go test -vet=off -count=1 ./...   (suite must pass with the change)",
                           "bash run.sh <worktree>   with the change (must fail) and after git checkout (must pass)", "VERIF_REPO=<worktree> ./verif check <id> --tier quick"]
    meta["our_checks"] = tried.get("%s/%s" % (pid, k), {})
    print("%s/%s confirmed=%s %s checks=%s" % (pid, k, ok, {a: b for a, b in conf.items() if "tail" not in a}, {a: b["verdict"] for a, b in meta["our_checks"].items()}), flush=True)
    if not ok:
        continue
    out = "/verif/seeded/%s-%s%s" % (pid, ("r%s-" % RND) if RND else "", k)
    shutil.rmtree(out, ignore_errors=True)
    os.makedirs(out)
    for f in os.listdir(d):
        if os.path.isfile(os.path.join(d, f)) and os.path.getsize(os.path.join(d, f)) < 200000:
            shutil.copy(os.path.join(d, f), out)
    json.dump(meta, open(os.path.join(out, "meta.json"), "w"), indent=1)
