#!/usr/bin/env python3
"""regress_seeded.py [ids...]: run the owning check (quick tier) against every kept seeded change in /verif/seeded/
and record the verdicts in /verif/seeded/RESULTS.json (never run by the registered commands)."""
import glob, json, os, subprocess, sys, time
ids = sys.argv[1:]
res = []
out = os.environ.get("REGRESS_OUT", "/verif/seeded/RESULTS.json")
old = json.load(open(out)) if os.path.exists(out) else []
for d in sorted(glob.glob("/verif/seeded/C*")):
    name = os.path.basename(d)
    pid = name.split("-")[0]
    if ids and name not in ids and pid not in ids:
        continue
    wt = "/tmp/wt-regress-%s" % name
    subprocess.run(["git", "-C", "/repo", "worktree", "add", "--detach", wt, "HEAD"], capture_output=True)
    try:
        p = subprocess.run(["git", "-C", wt, "apply", os.path.join(d, "patch.diff")], capture_output=True, text=True)
        if p.returncode != 0:
            res.append(dict(seed=name, verdict="patch-does-not-apply"))
            continue
        meta = json.load(open(os.path.join(d, "meta.json")))
        also = meta.get("also_check", [])
        r = dict(seed=name, needs=meta.get("needs_to_manifest", "")[:300], title=meta.get("title", ""))
        for c in [pid] + also:
            t = time.time()
            p = subprocess.run(["/verif/verif", "check", c, "--tier", "quick"], env=dict(os.environ, VERIF_REPO=wt), capture_output=True, text=True)
            lines = p.stdout.splitlines()
            first = next((lines[i + 1].strip()[:200] for i, l in enumerate(lines) if l.startswith("VIOLATION") and i + 1 < len(lines)), "")
            r[c] = dict(verdict={0: "MISSED", 1: "caught"}.get(p.returncode, "BROKEN"), wall_s=round(time.time() - t, 1), first=first)
        print(json.dumps(r)[:400], flush=True)
        res.append(r)
    finally:
        subprocess.run(["git", "-C", "/repo", "worktree", "remove", "--force", wt], capture_output=True)
        import shutil
        import hashlib
        shutil.rmtree("/verif/build/alt-" + hashlib.sha256(os.path.realpath(wt).encode()).hexdigest()[:10], ignore_errors=True)
old = [o for o in old if o["seed"] not in {r["seed"] for r in res}]
json.dump(sorted(old + res, key=lambda r: r["seed"]), open(out, "w"), indent=1)
