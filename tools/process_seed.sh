#!/bin/bash
# process_seed.sh Cxx : run our quick check against each seeded change, then confirm + save it
id=$1
/verif/tools/tryseed.py $id > /tmp/seed${SEED_ROUND}-out/$id/process.log 2>&1
/verif/tools/save_seed.py $id >> /tmp/seed${SEED_ROUND}-out/$id/process.log 2>&1
grep -E "^C[0-9]+/[0-9] confirmed" /tmp/seed${SEED_ROUND}-out/$id/process.log | cut -c1-400
