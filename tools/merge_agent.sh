#!/bin/bash
# usage: merge_agent.sh <clone dir>   -- copy an agent's new files into /verif (never shared files)
set -e
C=$1; BASE=f99ea6d
cd $C
for f in $(git diff --name-only $BASE HEAD); do
  case $f in
    lib/checks_meta.py|MANIFEST.json|evidence/*|known_findings.json|DESIGN.md|AGENT_GUIDE.md|.gitignore|src/mc/*|verif|lib/gen_manifest.py) echo "SKIP shared: $f";;
    *) mkdir -p /verif/$(dirname $f); if [ -e /verif/$f ] && ! cmp -s $f /verif/$f; then echo "CONFLICT (kept theirs as $f.agent): $f"; cp $f /verif/$f.agent; else cp $f /verif/$f; fi;;
  esac
done
git diff $BASE HEAD -- lib/checks_meta.py | grep '^+' | grep -v '^+++' | sed 's/^+//' > /tmp/meta_add_$(basename $(dirname $C)).py
echo "meta additions in /tmp/meta_add_$(basename $(dirname $C)).py"
