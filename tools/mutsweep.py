#!/usr/bin/env python3
"""mutsweep.py — systematic gap finder (NOT a check; nothing here decides a property).

Enumerates small syntactic edits (relational-operator swaps, +/- swaps, literal +-1, shift direction, &&/||, negated
conditions, deleted statements) of the Go files the properties are anchored in, applies each to a scratch worktree of
/repo (outside /repo and /verif), and asks: does one of OUR quick checks that owns the file report a VIOLATION?
Only for edits that every owning check misses is the repository suite run as well, to classify the survivor:
    missed+suite-green   -> a gap candidate (or an equivalent mutant: must be triaged by hand)
    missed+suite-red     -> the suite sees it, we do not (still a gap in the explored space)
Results go to notes/mutsweep/<tag>.jsonl (one line per edit).  Usage:
    tools/mutsweep.py --tag r1 --budget 200 --jobs 3 [--files a.go,b.go] [--per-file 4] [--offset 0]
"""
import argparse, hashlib, json, os, re, shutil, subprocess, sys, threading, time

ENV = dict(os.environ, GOFLAGS="-mod=mod", GOPROXY="off", GOSUMDB="off", GOTOOLCHAIN="local")
ap = argparse.ArgumentParser()
ap.add_argument("--tag", default="r1")
ap.add_argument("--budget", type=int, default=100)
ap.add_argument("--jobs", type=int, default=2)
ap.add_argument("--per-file", type=int, default=4)
ap.add_argument("--offset", type=int, default=0)
ap.add_argument("--files", default="")
ap.add_argument("--checks", default="")
ap.add_argument("--list", action="store_true")
args = ap.parse_args()

props = [json.loads(l) for l in open("/verif/properties.jsonl")]
owners = {}
for p in props:
    for f in p["anchors"].get("files", []):
        owners.setdefault(f, []).append(p["id"])
# cost order: cheap checks first; C08 (constant time, 90 s) and C18 (schedules) only when nothing else owns the file
COST = dict(C20=1, C05=2, C17=2, C19=3, C06=3, C10=3, C04=5, C16=4, C11=4, C13=4, C07=5, C12=5, C03=6, C02=6, C01=7, C14=7, C15=8, C09=8, C18=9, C08=20)
SKIP_UNLESS_ALONE = {"C08"}


def code_part(line):
    """the line with string/rune literals blanked and a trailing // comment removed (same length prefix)"""
    out, i, n = [], 0, len(line)
    while i < n:
        c = line[i]
        if c == '/' and i + 1 < n and line[i + 1] == '/':
            break
        if c in '"`\'':
            j = i + 1
            while j < n and line[j] != c:
                if line[j] == '\\' and c != '`':
                    j += 1
                j += 1
            out.append(c + ' ' * (j - i - 1) + (c if j < n else ''))
            i = j + 1
            continue
        out.append(c)
        i += 1
    return ''.join(out)


RULES = [
    ("rel", re.compile(r'(?<=[\w\)\]]) (<=|>=|<|>|==|!=) (?=[\w\(\-!&\*])'), {"<": "<=", "<=": "<", ">": ">=", ">=": ">", "==": "!=", "!=": "=="}),
    ("addsub", re.compile(r'(?<=[\w\)\]])( ?)(\+|-)( ?)(?=[\w\(])'), None),
    ("shift", re.compile(r'(?<=[\w\)\]])( ?)(<<|>>)( ?)(?=[\w\(])'), None),
    ("logic", re.compile(r' (&&|\|\|) '), {"&&": "||", "||": "&&"}),
    ("bitop", re.compile(r'(?<=[\w\)\]]) ?(&|\|) ?(?=[\w\(])'), None),
    ("lit", re.compile(r'(?<![\w\.])(0x[0-9a-fA-F_]+|\d+)(?![\w\.])'), None),
    ("bool", re.compile(r'\b(true|false)\b'), {"true": "false", "false": "true"}),
]


def mutants_of(path):
    src = open(path).read().split("\n")
    res = []
    depth = 0
    in_block_comment = False
    in_func = False
    for ln, line in enumerate(src):
        raw = line
        if in_block_comment:
            if "*/" in line:
                in_block_comment = False
            continue
        if line.lstrip().startswith("/*"):
            if "*/" not in line:
                in_block_comment = True
            continue
        code = code_part(line)
        if re.match(r'^func\b', code):
            in_func = True
        if not in_func:
            depth += code.count("{") - code.count("}")
            continue
        stripped = code.strip()
        if stripped.startswith(("import", "package", "//")) or not stripped:
            continue
        for name, rx, table in RULES:
            for m in rx.finditer(code):
                tok = m.group(0)
                if name == "rel":
                    op = m.group(1)
                    new = code[:m.start(1)] + table[op] + code[m.end(1):]
                elif name == "addsub":
                    op = m.group(2)
                    if code[m.end(2):m.end(2) + 1] in "+-=" or code[m.start(2) - 1:m.start(2)] in "+-":
                        continue
                    if re.search(r'[eE]$', code[:m.start(2)]) and re.search(r'\d[eE]$', code[:m.start(2)]):
                        continue
                    new = code[:m.start(2)] + ("-" if op == "+" else "+") + code[m.end(2):]
                elif name == "shift":
                    op = m.group(2)
                    if code[m.end(2):m.end(2) + 1] == "=":
                        continue
                    new = code[:m.start(2)] + (">>" if op == "<<" else "<<") + code[m.end(2):]
                elif name == "logic":
                    op = m.group(1)
                    new = code[:m.start(1)] + table[op] + code[m.end(1):]
                elif name == "bitop":
                    op = m.group(1)
                    nxt = code[m.end(1):m.end(1) + 1]
                    prv = code[m.start(1) - 1:m.start(1)]
                    if nxt in "&|=^" or prv in "&|":
                        continue
                    new = code[:m.start(1)] + ("|" if op == "&" else "&") + code[m.end(1):]
                elif name == "lit":
                    t = m.group(1)
                    try:
                        v = int(t.replace("_", ""), 0)
                    except ValueError:
                        continue
                    if v > 1 << 62:
                        nv = v - 1
                    else:
                        nv = v + 1
                    rep = (hex(nv) if t.lower().startswith("0x") else str(nv))
                    new = code[:m.start(1)] + rep + code[m.end(1):]
                elif name == "bool":
                    new = code[:m.start(1)] + table[m.group(1)] + code[m.end(1):]
                # keep the original string literals / comment tail
                newline = merge(raw, code, new)
                res.append(dict(line=ln + 1, kind=name, old=raw.strip(), new=newline.strip(), text=newline))
        m = re.match(r'^(\s*)if (.+) \{\s*$', code)
        if m and ";" not in m.group(2):
            newline = raw[:len(m.group(1))] + "if !(" + raw[len(m.group(1)) + 3:raw.rindex("{")].rstrip() + ") {"
            res.append(dict(line=ln + 1, kind="negcond", old=raw.strip(), new=newline.strip(), text=newline))
        if re.match(r'^\s*[\w\.\[\]]+(\.\w+)*\([^{}]*\)\s*$', code) and not re.match(r'^\s*(return|defer|go|panic)\b', code):
            res.append(dict(line=ln + 1, kind="delcall", old=raw.strip(), new="(deleted)", text=raw[:len(raw) - len(raw.lstrip())] + "_ = 0"))
        if re.match(r'^\s*[\w\.\[\]\*]+ (\+|-|\||&|\^)?= [^{}]*$', code) and ":=" not in code:
            res.append(dict(line=ln + 1, kind="delassign", old=raw.strip(), new="(deleted)", text=raw[:len(raw) - len(raw.lstrip())] + "_ = 0"))
    return res


ASM_SWAPS = {"ADCQ": "ADDQ", "ADDQ": "ADCQ", "SBBQ": "SUBQ", "SUBQ": "SBBQ", "VPADDD": "VPSUBD", "VPSUBD": "VPADDD", "VPADDQ": "VPSUBQ", "VPSUBQ": "VPADDQ",
             "VPSRLQ": "VPSLLQ", "VPSLLQ": "VPSRLQ", "SHRQ": "SHLQ", "SHLQ": "SHRQ", "ANDQ": "ORQ", "ORQ": "ANDQ", "XORQ": "ORQ", "CMOVQEQ": "CMOVQNE", "CMOVQNE": "CMOVQEQ",
             "VPAND": "VPOR", "VPOR": "VPAND", "VPXOR": "VPOR", "ROLQ": "RORQ", "ANDNQ": "ANDQ", "VPBLENDD": "VPBLENDD", "JNZ": "JZ", "JNE": "JEQ", "JEQ": "JNE", "JZ": "JNZ", "JLT": "JLE", "JGT": "JGE"}


def asm_mutants_of(path):
    src = open(path).read().split("\n")
    res = []
    for ln, raw in enumerate(src):
        code = raw.split("//")[0]
        m = re.match(r'^(\s+)([A-Z][A-Z0-9]+)\b(.*)$', code)
        if not m or m.group(2) in ("TEXT", "RET", "DATA", "GLOBL", "PCALIGN", "NOP", "BYTE"):
            continue
        op = m.group(2)
        if op in ASM_SWAPS and ASM_SWAPS[op] != op:
            new = m.group(1) + ASM_SWAPS[op] + m.group(3)
            res.append(dict(line=ln + 1, kind="asm-op", old=raw.strip(), new=new.strip(), text=new))
        for im in re.finditer(r'\$(0x[0-9a-fA-F]+|\d+)\b', code):
            v = int(im.group(1), 0)
            nv = v + 1 if v < (1 << 62) else v - 1
            new = code[:im.start(1)] + (hex(nv) if im.group(1).startswith("0x") else str(nv)) + code[im.end(1):]
            res.append(dict(line=ln + 1, kind="asm-imm", old=raw.strip(), new=new.strip(), text=new))
        for om in re.finditer(r'(?<![\w$])(\d+)\((?=[A-Z])', code):
            new = code[:om.start(1)] + str(int(om.group(1)) + 8) + code[om.end(1):]
            res.append(dict(line=ln + 1, kind="asm-off", old=raw.strip(), new=new.strip(), text=new))
        if not op.startswith("J") and op not in ("CALL",):
            res.append(dict(line=ln + 1, kind="asm-del", old=raw.strip(), new="(deleted)", text=""))
    return res


def merge(raw, code, new):
    """re-insert string literals and the trailing comment of raw into the mutated code"""
    # the mutation keeps everything before the edit position identical; rebuild by prefix/suffix matching
    i = 0
    while i < min(len(code), len(new)) and code[i] == new[i]:
        i += 1
    j = 0
    while j < min(len(code), len(new)) - i and code[len(code) - 1 - j] == new[len(new) - 1 - j]:
        j += 1
    return raw[:i] + new[i:len(new) - j] + raw[len(code) - j:]


def pick(files, per_file, budget, offset):
    chosen = []
    for f in files:
        ms = asm_mutants_of("/repo/" + f) if f.endswith(".s") else mutants_of("/repo/" + f)
        if not ms:
            continue
        # deterministic spread: order by hash, round-robin over kinds
        for m in ms:
            m["file"] = f
            m["id"] = hashlib.sha256(("%s:%d:%s:%s" % (f, m["line"], m["kind"], m["new"])).encode()).hexdigest()[:10]
        ms.sort(key=lambda m: m["id"])
        bykind = {}
        for m in ms:
            bykind.setdefault(m["kind"], []).append(m)
        kinds = sorted(bykind)
        sel, k = [], 0
        want = per_file * (offset + 1)
        while len(sel) < want and any(bykind.values()):
            kd = kinds[k % len(kinds)]
            k += 1
            if bykind[kd]:
                sel.append(bykind[kd].pop(0))
        chosen.append(sel[per_file * offset:])
    # interleave files
    out = []
    i = 0
    while len(out) < budget and any(chosen):
        for sel in chosen:
            if sel and len(out) < budget:
                out.append(sel.pop(0))
    return out


files = [f for f in (args.files.split(",") if args.files else sorted(owners)) if f.endswith((".go", ".s")) and os.path.exists("/repo/" + f)]
# the big table file yields thousands of literal edits that C20 enumerates completely; one file is enough of that
muts = pick(files, args.per_file, args.budget, args.offset)
if args.list:
    for m in muts:
        print(m["id"], m["file"], m["line"], m["kind"], "|", m["old"][:70], "=>", m["new"][:70])
    print(len(muts), "edits over", len(files), "files")
    sys.exit(0)

os.makedirs("/verif/notes/mutsweep", exist_ok=True)
outf = "/verif/notes/mutsweep/%s.jsonl" % args.tag
done = set()
if os.path.exists(outf):
    done = {json.loads(l)["id"] for l in open(outf)}
lock = threading.Lock()
queue = [m for m in muts if m["id"] not in done]
print("edits to run:", len(queue), flush=True)


def sh(cmd, cwd=None, env=None, timeout=None):
    try:
        p = subprocess.run(cmd, cwd=cwd, env=env or ENV, capture_output=True, text=True, timeout=timeout)
        return p.returncode, p.stdout, p.stderr
    except subprocess.TimeoutExpired as e:
        return 124, (e.stdout or b"").decode() if isinstance(e.stdout, bytes) else (e.stdout or ""), "timeout"


def worker(wi):
    wt = "/tmp/mutsweep-%s-%d" % (args.tag, wi)
    if not os.path.isdir(wt):
        sh(["git", "-C", "/repo", "worktree", "add", "--detach", wt, "HEAD"])
    alt = "/verif/build/alt-" + hashlib.sha256(os.path.realpath(wt).encode()).hexdigest()[:10]
    while True:
        with lock:
            if not queue:
                break
            m = queue.pop(0)
        sh(["git", "-C", wt, "checkout", "-q", "--", "."])
        path = os.path.join(wt, m["file"])
        lines = open(path).read().split("\n")
        lines[m["line"] - 1] = m["text"]
        open(path, "w").write("\n".join(lines))
        r = dict(id=m["id"], file=m["file"], line=m["line"], kind=m["kind"], old=m["old"], new=m["new"])
        t0 = time.time()
        rc, so, se = sh(["go", "build", "./..."], cwd=wt)
        if rc == 0:
            rc, so, se = sh(["go", "vet", "-tags", "purego", "./" + os.path.dirname(m["file"])], cwd=wt) if False else (0, "", "")
        if rc != 0:
            r["verdict"] = "no-compile"
        else:
            cs = args.checks.split(",") if args.checks else sorted(owners.get(m["file"], []), key=lambda c: COST.get(c, 5))
            if len(cs) > 1:
                cs = [c for c in cs if c not in SKIP_UNLESS_ALONE]
            r["checks"] = {}
            verdict = "MISSED"
            for c in cs:
                t = time.time()
                rc, so, se = sh(["/verif/verif", "check", c, "--tier", "quick"], env=dict(ENV, VERIF_REPO=wt), timeout=1500)
                first = ""
                ls = so.splitlines()
                for i, l in enumerate(ls):
                    if l.startswith("VIOLATION") and i + 1 < len(ls):
                        first = ls[i + 1].strip()[:200]
                        break
                r["checks"][c] = dict(rc=rc, wall_s=round(time.time() - t, 1), first=first, err=se[-300:] if rc not in (0, 1) else "")
                if rc == 1:
                    verdict = "caught"
                    r["by"] = c
                    break
                if rc != 0:
                    verdict = "BROKEN"
            if verdict != "caught":
                rc, so, se = sh(["go", "test", "-vet=off", "-count=1", "./..."], cwd=wt, timeout=1500)
                r["suite"] = "green" if rc == 0 else "red"
                if rc != 0:
                    r["suite_tail"] = "\n".join(l for l in so.splitlines() if l.startswith(("--- FAIL", "FAIL")))[:400]
            r["verdict"] = verdict
        r["wall_s"] = round(time.time() - t0, 1)
        with lock:
            open(outf, "a").write(json.dumps(r) + "\n")
            print(r["verdict"], r.get("suite", ""), r.get("by", ""), m["file"], m["line"], m["kind"], "|", m["old"][:60], "=>", m["new"][:60], r["wall_s"], flush=True)
    sh(["git", "-C", wt, "checkout", "-q", "--", "."])
    shutil.rmtree(alt, ignore_errors=True)
    sh(["git", "-C", "/repo", "worktree", "remove", "--force", wt])


ths = [threading.Thread(target=worker, args=(i,)) for i in range(args.jobs)]
for t in ths:
    t.start()
for t in ths:
    t.join()
