// c08an reads a valgrind lackey trace (--trace-mem=yes) on stdin and prints,
// per marker-delimited window, the number of kept instructions / data
// accesses and SHA-256 digests of both sequences.  Kept = instructions whose
// address lies in a library symbol (module, crypto/*, golang.org/x/crypto/*),
// plus runtime.mem*, internal/bytealg.*, bytes.* while the current run of
// instructions was entered from kept code; and the data accesses of kept
// instructions.  With -dump K the kept trace of window K is written, with
// symbol names, to -dumpfile.
//
// usage: c08an -syms nm.txt [-dump K -dumpfile f] < lackey.out
package main

import (
	"bufio"
	"crypto/sha256"
	"encoding/json"
	"flag"
	"fmt"
	"os"
	"sort"
	"strconv"
	"strings"
)

type sym struct {
	lo, hi uint64
	cls    int
	name   string
	state  bool // class 2: whether the current activation was entered from kept code
}

func class(n string) int {
	// the harness closures that make up a window: library code inlined into them is only visible there,
	// and their own glue is secret-independent by construction
	if strings.HasPrefix(n, "main.buildWindows.func") {
		return 1
	}
	if strings.Contains(n, "curve25519-voi") && !strings.Contains(n, "/internal/verif/") {
		return 1
	}
	if strings.HasPrefix(n, "crypto/") || strings.HasPrefix(n, "golang.org/x/crypto") || strings.HasPrefix(n, "vendor/golang.org/x/crypto") || strings.HasPrefix(n, "crypto/internal") {
		return 1
	}
	if strings.HasPrefix(n, "runtime.morestack") {
		return 3
	}
	if strings.HasPrefix(n, "runtime.mem") || strings.HasPrefix(n, "internal/bytealg") || strings.HasPrefix(n, "bytes.") || strings.HasPrefix(n, "runtime.duff") {
		return 2
	}
	return 0
}

type win struct {
	NInstr int    `json:"n_instr"`
	NData  int    `json:"n_data"`
	HInstr string `json:"h_instr"`
	HData  string `json:"h_data"`
}

func main() {
	symf := flag.String("syms", "", "go tool nm -size -sort address output")
	dump := flag.Int("dump", -1, "window to dump")
	dumpfile := flag.String("dumpfile", "", "")
	markName := flag.String("mark", "main.mark", "")
	flag.Parse()
	var syms []sym
	var mark uint64
	f, err := os.Open(*symf)
	if err != nil {
		panic(err)
	}
	sc := bufio.NewScanner(f)
	sc.Buffer(make([]byte, 1<<20), 1<<20)
	for sc.Scan() {
		p := strings.Fields(sc.Text())
		if len(p) < 4 || (p[2] != "T" && p[2] != "t") {
			continue
		}
		a, _ := strconv.ParseUint(p[0], 16, 64)
		sz, _ := strconv.ParseUint(p[1], 10, 64)
		if p[3] == *markName {
			mark = a
		}
		if c := class(p[3]); c != 0 {
			syms = append(syms, sym{a, a + sz, c, p[3], false})
		}
	}
	f.Close()
	if mark == 0 {
		fmt.Fprintln(os.Stderr, "c08an: marker symbol not found")
		os.Exit(2)
	}
	sort.Slice(syms, func(i, j int) bool { return syms[i].lo < syms[j].lo })
	look := func(a uint64) *sym {
		i := sort.Search(len(syms), func(i int) bool { return syms[i].lo > a }) - 1
		if i >= 0 && a < syms[i].hi {
			return &syms[i]
		}
		return nil
	}
	var wins []win
	var df *bufio.Writer
	if *dump >= 0 {
		o, err := os.Create(*dumpfile)
		if err != nil {
			panic(err)
		}
		defer o.Close()
		df = bufio.NewWriterSize(o, 1<<20)
		defer df.Flush()
	}
	cur := -1
	pages := map[uint64]uint32{}
	hi, hd := sha256.New(), sha256.New()
	ni, nd := 0, 0
	keep := false
	var lastSym *sym
	// Items since the last function entry are held back: if the function turns out to call
	// runtime.morestack (stack growth, or a time-driven cooperative preemption request from the runtime's
	// monitor thread) its prologue is executed again from the top, so the aborted first attempt is dropped.
	dropUntilEntry := false
	var pendI, pendD, pendDump []byte
	pni, pnd := 0, 0
	commit := func() {
		hi.Write(pendI)
		hd.Write(pendD)
		ni += pni
		nd += pnd
		if df != nil && len(pendDump) > 0 {
			df.Write(pendDump)
		}
		pendI, pendD, pendDump = pendI[:0], pendD[:0], pendDump[:0]
		pni, pnd = 0, 0
	}
	discard := func() {
		pendI, pendD, pendDump = pendI[:0], pendD[:0], pendDump[:0]
		pni, pnd = 0, 0
	}
	flush := func() {
		commit()
		if cur >= 0 {
			wins = append(wins, win{ni, nd, fmt.Sprintf("%x", hi.Sum(nil)[:16]), fmt.Sprintf("%x", hd.Sum(nil)[:16])})
		}
		hi, hd = sha256.New(), sha256.New()
		ni, nd = 0, 0
		keep = false
		dropUntilEntry = false
		pages = map[uint64]uint32{}
		for i := range syms {
			syms[i].state = false
		}
	}
	in := bufio.NewReaderSize(os.Stdin, 1<<22)
	var buf [8]byte
	for {
		line, err := in.ReadSlice('\n')
		if len(line) > 3 {
			if line[0] == 'I' {
				// "I  0401234,3"
				s := line[3:]
				c := 0
				for c < len(s) && s[c] != ',' {
					c++
				}
				a, perr := strconv.ParseUint(string(s[:c]), 16, 64)
				if perr == nil {
					if a == mark {
						flush()
						cur++
					} else if cur >= 0 {
						sy := lastSym
						if sy == nil || a < sy.lo || a >= sy.hi {
							sy = look(a)
						} else if sy.cls == 2 && a == sy.lo {
							sy.state = keep // recursion / loop back to entry
						}
						if sy != nil && sy.cls == 3 {
							discard()
							keep = false
							lastSym = sy
							dropUntilEntry = true
						} else if dropUntilEntry && (sy == nil || a != sy.lo) {
							// between the return from morestack and the jump back to the function's first
							// instruction (register reloads + JMP): part of the aborted attempt
							keep = false
							lastSym = nil
							sy = nil
						} else if sy != nil {
							dropUntilEntry = false
							if a == sy.lo {
								commit()
							}
							if sy.cls == 1 {
								keep = true
							} else if sy != lastSym || a == sy.lo {
								// class 2 (mem*/bytealg/bytes): the decision is taken when the routine is ENTERED (first
								// instruction) and restored whenever control comes back into the middle of it — from a
								// callee or after valgrind switched to another runtime thread and back.
								if a == sy.lo {
									sy.state = keep
								}
								keep = sy.state
							}
							lastSym = sy
						} else {
							keep = false
							lastSym = nil
						}
						if keep {
							for k := 0; k < 8; k++ {
								buf[k] = byte(a >> (8 * k))
							}
							pendI = append(pendI, buf[:]...)
							pni++
							if df != nil && cur == *dump {
								pendDump = append(pendDump, fmt.Sprintf("I %x %s+%x\n", a, sy.name, a-sy.lo)...)
							}
						}
					}
				}
			} else if line[0] == ' ' && cur >= 0 && keep {
				// " S c000093e60,8": rename 8 KiB pages in first-seen order (per window) so that a page-aligned
				// relocation of a stack or heap span between runs is not a difference; offsets inside a page are exact.
				s := line[3:]
				c := 0
				for c < len(s) && s[c] != ',' {
					c++
				}
				a, perr := strconv.ParseUint(string(s[:c]), 16, 64)
				if perr == nil {
					pg, ok := pages[a>>13]
					if !ok {
						pg = uint32(len(pages))
						pages[a>>13] = pg
					}
					norm := fmt.Sprintf("%c %d:%x%s", line[1], pg, a&0x1fff, strings.TrimRight(string(s[c:]), "\n"))
					pendD = append(pendD, norm...)
					pnd++
					if df != nil && cur == *dump {
						pendDump = append(pendDump, (norm + "\n")...)
					}
				}
			}
		}
		if err != nil {
			break
		}
	}
	// the trace after the last marker is not a window
	out, _ := json.Marshal(wins)
	os.Stdout.Write(out)
}
