#!/usr/bin/env python3
"""setfirst.py <seeded-dir-name> <first verdict> [also_check,...]: record how the first version of our check fared on a
seeded change (before any strengthening) and refresh our_checks from the latest tryseed result."""
import json, os, sys
name, verdict = sys.argv[1], sys.argv[2]
p = "/verif/seeded/%s/meta.json" % name
m = json.load(open(p))
m["first_version_verdict"] = verdict
if len(sys.argv) > 3:
    m["also_check"] = sys.argv[3].split(",")
pid, rest = name.split("-", 1)
rnd, k = ("", rest) if "-" not in rest else (rest.split("-")[0][1:], rest.split("-")[1])
f = "/tmp/seed%s-out/%s/tryseed-quick.json" % (rnd, pid)
if os.path.exists(f):
    for r in json.load(open(f)):
        if r["seed"] == "%s/%s" % (pid, k):
            m["our_checks"] = {a: b for a, b in r.items() if a.startswith("check_")}
json.dump(m, open(p, "w"), indent=1)
print(name, verdict, {a: b["verdict"] for a, b in m.get("our_checks", {}).items()})
