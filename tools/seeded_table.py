#!/usr/bin/env python3
"""seeded_table.py: write /verif/seeded/README.md from seeded/*/meta.json and seeded/RESULTS.json."""
import glob, json, os
res = {r["seed"]: r for r in json.load(open("/verif/seeded/RESULTS.json"))} if os.path.exists("/verif/seeded/RESULTS.json") else {}
rows = []
nfirst = {"caught": 0, "MISSED": 0, "BROKEN": 0, "?": 0}
ncur = {"caught": 0, "MISSED": 0, "BROKEN": 0, "?": 0}
for d in sorted(glob.glob("/verif/seeded/C*")):
    name = os.path.basename(d)
    pid = name.split("-")[0]
    m = json.load(open(os.path.join(d, "meta.json")))
    first = "?"
    for k, v in (m.get("our_checks") or {}).items():
        if k.startswith("check_" + pid):
            first = v.get("verdict", "?")
    first = m.get("first_version_verdict", first)
    cur, by = "?", ""
    r = res.get(name, {})
    for c, v in r.items():
        if isinstance(v, dict) and "verdict" in v:
            if v["verdict"] == "caught":
                cur = "caught"
                by += ("%s: %s; " % (c, v.get("first", "")[:110].replace("|", "/")))
            elif cur != "caught":
                cur = v["verdict"]
    if cur == "?":
        # no entry in RESULTS.json (rounds whose last verdicts were recorded per seed by tools/tryseed.py): the latest
        # verdicts kept in the seed's own meta.json
        for k, v in (m.get("our_checks") or {}).items():
            if v.get("verdict") == "caught":
                cur = "caught"
                by += ("%s: %s; " % (k.split("_")[1], v.get("first", "")[:110].replace("|", "/")))
            elif cur != "caught":
                cur = v.get("verdict", "?")
    nfirst[first] = nfirst.get(first, 0) + 1
    ncur[cur] = ncur.get(cur, 0) + 1
    rows.append("| %s | %s | %s | %s | %s | %s |" % (name, (m.get("title") or m.get("what_it_breaks") or "")[:140].replace("|", "/").replace("\n", " "),
                                                (m.get("needs_to_manifest") or "")[:220].replace("|", "/").replace("\n", " "), first, cur, by[:260]))
with open("/verif/seeded/README.md", "w") as f:
    f.write("# Independently seeded property-breaking changes\n\nProduced by fresh sub-agents that saw only the property record and a private worktree of the repository; each was confirmed "
            "(suite passes with it, its demonstration fails with it and passes without it) before being kept.  `first run` is the verdict of our check when the change was first "
            "tried (before any strengthening it prompted); `now` is the verdict of `tools/regress_seeded.py` on the current checks (`RESULTS.json`).\n\n")
    f.write("first run: %s\n\nnow: %s\n\n" % (nfirst, ncur))
    f.write("| seed | change | needs to manifest | first run | now | reported by (first violation) |\n|---|---|---|---|---|---|\n")
    f.write("\n".join(rows) + "\n")
print("first:", nfirst, "now:", ncur)
