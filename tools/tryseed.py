#!/usr/bin/env python3
"""tryseed.py <Cxx> [k ...] [--tier quick|thorough] [--confirm]: run our check against seeded changes produced by
independent sub-agents (/tmp/seed-out/<id>/<k>/patch.diff).  --confirm first re-verifies the agent's own claims
(suite passes with the change; demo fails with it and passes without) in the agent's worktree."""
import json, os, subprocess, sys, time
RND = os.environ.get("SEED_ROUND", "")
OUT = "/tmp/seed%s-out" % RND
ENV = dict(os.environ, GOFLAGS="-mod=mod", GOPROXY="off", GOSUMDB="off", GOTOOLCHAIN="local")
args = [a for a in sys.argv[1:] if not a.startswith("--")]
tier = "quick"
if "--tier" in sys.argv:
    tier = sys.argv[sys.argv.index("--tier") + 1]
    args.remove(tier)
pid = args[0]
ks = args[1:] or sorted(d for d in os.listdir(OUT + "/" + pid) if d.isdigit())
checks = [pid]
if "--checks" in sys.argv:
    checks = sys.argv[sys.argv.index("--checks") + 1].split(",")
    args = [a for a in args if a != sys.argv[sys.argv.index("--checks") + 1]]
    ks = [k for k in ks if k.isdigit()]
wt = "/tmp/wt-seed%s-%s" % (RND, pid)
if not os.path.isdir(wt):
    subprocess.run(["git", "-C", "/repo", "worktree", "add", "--detach", wt, "HEAD"], check=True, capture_output=True)
res = []
for k in ks:
    d = OUT + "/%s/%s" % (pid, k)
    patch = os.path.join(d, "patch.diff")
    subprocess.run(["git", "-C", wt, "checkout", "-q", "--", "."], check=True)
    subprocess.run(["git", "-C", wt, "clean", "-fdq"], check=True)
    r = dict(seed="%s/%s" % (pid, k))
    p = subprocess.run(["git", "-C", wt, "apply", patch], capture_output=True, text=True)
    if p.returncode != 0:
        r["apply"] = "FAILED " + p.stderr[-200:]
        res.append(r)
        continue
    if "--confirm" in sys.argv:
        p = subprocess.run(["go", "test", "-vet=off", "-count=1", "./..."], cwd=wt, env=ENV, capture_output=True, text=True)
        r["suite_with_change"] = "passes" if p.returncode == 0 else "FAILS"
        run = os.path.join(d, "run.sh")
        if os.path.exists(run):
            p = subprocess.run(["bash", run, wt], cwd=d, env=ENV, capture_output=True, text=True)
            r["demo_with_change_rc"] = p.returncode
            subprocess.run(["git", "-C", wt, "checkout", "-q", "--", "."], check=True)
            p2 = subprocess.run(["bash", run, wt], cwd=d, env=ENV, capture_output=True, text=True)
            r["demo_without_change_rc"] = p2.returncode
            subprocess.run(["git", "-C", wt, "clean", "-fdq"], check=True)
            subprocess.run(["git", "-C", wt, "apply", patch], check=True)
    for c in checks:
        t = time.time()
        p = subprocess.run(["/verif/verif", "check", c, "--tier", tier], env=dict(os.environ, VERIF_REPO=wt), capture_output=True, text=True)
        lines = p.stdout.splitlines()
        first = ""
        for i, l in enumerate(lines):
            if l.startswith("VIOLATION") and i + 1 < len(lines):
                first = lines[i + 1].strip()[:220]
                break
        r["check_%s_%s" % (c, tier)] = dict(rc=p.returncode, verdict="caught" if p.returncode == 1 else ("MISSED" if p.returncode == 0 else "BROKEN"), wall_s=round(time.time() - t, 1), first=first,
                                            err=(p.stderr[-400:] if p.returncode == 2 else ""))
    print(json.dumps(r, indent=1), flush=True)
    res.append(r)
subprocess.run(["git", "-C", wt, "checkout", "-q", "--", "."])
subprocess.run(["git", "-C", wt, "clean", "-fdq"])
import hashlib, shutil
shutil.rmtree("/verif/build/alt-" + hashlib.sha256(os.path.realpath(wt).encode()).hexdigest()[:10], ignore_errors=True)
subprocess.run(["git", "-C", "/repo", "worktree", "remove", "--force", wt], capture_output=True)
outf = OUT + "/%s/tryseed-%s.json" % (pid, tier)
old = []
if os.path.exists(outf):
    old = [r for r in json.load(open(outf)) if r["seed"] not in {x["seed"] for x in res}]
json.dump(sorted(old + res, key=lambda r: r["seed"]), open(outf, "w"), indent=1)
